"""C07  Receive-side limits are enforced and buffering stays bounded.

Tie: a real QuicConnection (harness/sim Pair) completes a handshake; a key-holding peer PUPPET then
sends hand-built frames (and ACK frames that decide the fate of the subject's limit-advertising packets: acknowledged, or
skipped so that the packet / time threshold declares them lost, placed before or after the peer's STREAM / RESET_STREAM
frames of the same datagram, or in a datagram of their own with or without a write pass before the next one).
From each run the harness projects the abstract op trace consumed by
coq/model/ConnLimits.v (frames received, write passes, lost MAX_* frames) and the public
observables (stream events, MAX_* / PATH_RESPONSE / RETIRE_CONNECTION_ID frames on the wire,
CONNECTION_CLOSE code + frame type); the extracted model must print exactly these.

Implementation oracle (independent of the model), run on every case:
 (i)  peer's-eye flow-control ledger built only from what was on the wire (transport parameters
      from the peer's qlog, MAX_* frames seen by the wire observer): a frame beyond an advertised
      limit must close the connection with the matching code; a peer within all advertised limits
      and final-size consistent must never see FLOW_CONTROL_ERROR / STREAM_LIMIT_ERROR /
      FINAL_SIZE_ERROR;
 (ii) bytes held, measured without private names: walk of the object graph reachable from the
      connection (gc.get_referents) summing len() of every bytes/bytearray; growth since the
      post-handshake baseline must stay within advertised max_data + MAX_PENDING_CRYPTO (if CRYPTO
      was sent) + a fixed slack."""
import collections
import gc
import json
import logging
import types

from vlib import core, corr

GENERATORS = ["c07_consts"]
DEPENDS = ["ConnLimits", "ConnLimitsCut", "ConnLimitsP", "ConnLimitsMsd", "ConnLimitsCutP", "ConnLimitsDeliv", "StreamRecv", "StreamRecvP", "RangeSet", "C07Consts", "Base", "Tok", "C07"]
TRUSTED_BASE = [
    "extraction (ExtrOcamlBasic only) + coq/extract/driver.ml for running coq/model/ConnLimits.v",
    "harness/sim (Pair, wire observer, peer puppet: packet protection via aioquic's own CryptoContext; independent frame builders/parser)",
    "projection of a run to the model's op trace (harness/props/c07.py Runner): one op per frame the puppet sent, one Write per "
    "datagrams_to_send pass, LimitLost / StreamLimitLost per MAX_* frame of a packet that left the subject's set of in-flight packets "
    "without having been acknowledged by the puppet (one private read: conn._loss.spaces[-1].sent_packets, used for the projection "
    "only, never for a verdict), placed where the revealing ACK frame stood among the peer frames of that datagram",
    "modelled, not verified: the receive-side limit logic of connection.py as Gallina functions; TLS, packet building, pacing, "
    "congestion control and the ack queue are outside the model",
    "tools/gen/c07_consts.py (ast) for the constants",
]
ASSUMPTIONS = [
    "stream ids, offsets, lengths and final sizes are non-negative (wire varints)",
    "a write pass is not cut short by QuicPacketBuilderStop (packet/flight full): the tie checks the frames of each pass",
]

UVM = (1 << 62) - 1
SLACK = 4096
_LIMIT_NAMES = {"MAX_DATA": 0x10, "MAX_STREAM_DATA": 0x11, "MAX_STREAMS_BIDI": 0x12, "MAX_STREAMS_UNI": 0x13,
                "PATH_RESPONSE": 0x1B, "RETIRE_CONNECTION_ID": 0x19}
ACCUSE = {3: "FLOW_CONTROL_ERROR", 4: "STREAM_LIMIT_ERROR", 6: "FINAL_SIZE_ERROR"}


def _data(n, seed):
    return bytes(((i * 7 + seed) & 0xFF) for i in range(n))


# ------------------------------------------------------------------------------ measuring
_SKIP = (types.ModuleType, type, types.FunctionType, types.BuiltinFunctionType, types.CodeType, types.FrameType,
         types.GetSetDescriptorType, types.MemberDescriptorType, types.WrapperDescriptorType, types.MethodDescriptorType,
         str, int, float, bool, type(None), logging.Logger, logging.Manager, logging.Handler)


def reachable_bytes(root, max_depth=16):
    """Sum of len() of every bytes / bytearray object reachable from root (deque / list / dict
    elements included) through gc.get_referents, skipping modules, classes, functions, loggers."""
    seen = set()
    total = 0
    stack = [(root, 0)]
    while stack:
        o, d = stack.pop()
        i = id(o)
        if i in seen:
            continue
        seen.add(i)
        if isinstance(o, (bytes, bytearray)):
            total += len(o)
            continue
        if isinstance(o, _SKIP) or d >= max_depth:
            continue
        for r in gc.get_referents(o):
            if not isinstance(r, _SKIP):
                stack.append((r, d + 1))
    return total


# ------------------------------------------------------------------------------ the run
class Closed(Exception):
    pass


class Runner:
    """Executes one case on a real connection.  Produces: model input tokens (projected op trace),
    expected model output tokens (public observables), oracle verdict."""

    def __init__(self, case, measure=True):
        from sim import Pair, Puppet, F, ApiRaised
        import aioquic.quic.connection as qc
        logging.getLogger("quic").setLevel(logging.CRITICAL)
        self.F, self.ApiRaised = F, ApiRaised
        self.case = case
        subj = case["subject"]
        other = "client" if subj == "server" else "server"
        cfg = {"max_data": case["md"], "max_stream_data": case["msd"]}
        kw = {"server_config": cfg, "server_qlog": False} if subj == "server" else {"client_config": cfg, "client_qlog": False}
        self.pair = pair = Pair(case.get("seed", 1), **kw)
        if not pair.handshake():
            raise RuntimeError("handshake failed")
        pair.run_until_idle()
        self.pup = pup = Puppet(pair, as_side=other)
        pup.isolate_real()
        self.sub = pair.endpoint(subj)
        self.peer = pair.endpoint(other)
        self.dir = "s2c" if subj == "server" else "c2s"
        self.is_client = subj == "client"
        self.mark = len(pair.observer.packets)
        self.max_pending_crypto = qc.MAX_PENDING_CRYPTO
        self.max_remote_challenges = qc.MAX_REMOTE_CHALLENGES
        self.crypto_base = pup.crypto_offset("1rtt")
        self.min_in = [int(self.is_client), case["msd"], case["md"], self.crypto_base]
        for p in pair.observer.packets:      # NEW_CONNECTION_ID frames the subject received during the handshake
            if p.direction != self.dir and p.decrypted and not p.injected:
                for f in p.frames:
                    if f.name == "NEW_CONNECTION_ID":
                        self.min_in += [10, f.fields["sequence_number"], f.fields["retire_prior_to"]]
        self.mout = []
        self.bad = None            # oracle verdict (what, signature)
        self.closed = None         # (code, frame_type) seen in CONNECTION_CLOSE
        self.raised = None
        self.stats = collections.Counter()
        # ---- oracle (i) state: only what the peer can know
        tp = self._remote_params()
        self.adv_data = tp["initial_max_data"]
        self.adv_msd_init = {"bidi_local": tp["initial_max_stream_data_bidi_local"],
                             "bidi_remote": tp["initial_max_stream_data_bidi_remote"],
                             "uni": tp["initial_max_stream_data_uni"]}
        self.adv_streams = {False: tp["initial_max_streams_bidi"], True: tp["initial_max_streams_uni"]}
        self.adv_msd = {}
        self.peer_hi = {}          # sid -> highest end offset / final size the peer has used
        self.peer_final = {}
        self.peer_odd = set()      # streams on which the peer was itself inconsistent: not judged
        self.peer_cov = {}         # sid -> merged [start, end) intervals the peer has sent
        self.peer_done = set()     # streams the peer has completed (RESET, or FIN with every byte sent): the receiver may
                                   # have discarded their state and then ignores frames; an over-limit frame is not required to close
        self.local_open = set()
        self.sent_crypto = False
        self.crypto_gap = False    # some CRYPTO frame was sent out of order
        self.sent_stream = False
        self.sent_reset = False
        self.multi_addr = False
        self.crypto_next = self.crypto_base
        self.measure = measure
        self.baseline = reachable_bytes(self.sub.conn) if measure else 0
        self.max_growth = 0
        self.subject_pns = []
        self.lost_done = set()     # packets the puppet decided never to acknowledge
        self.acked_done = set()    # packets the puppet has acknowledged
        self.lost_seen = set()     # limit packets whose loss has been projected to the model trace
        self.congested = False     # after a bulk step ("K"): the subject's congestion window is exhausted, the builder may
                                   # refuse frames; every write pass is projected as WriteCut (model/ConnLimitsCut.v)
        self.bulk_bytes = 0

    # -- helpers -----------------------------------------------------------------------
    def _remote_params(self):
        for ev in self.peer.qlog_events():
            if ev["name"] == "transport:parameters_set" and ev["data"].get("owner") == "remote":
                d = ev["data"]
                return {k: int(d.get(k, 0)) for k in (
                    "initial_max_data", "initial_max_stream_data_bidi_local", "initial_max_stream_data_bidi_remote",
                    "initial_max_stream_data_uni", "initial_max_streams_bidi", "initial_max_streams_uni")}
        raise RuntimeError("peer qlog has no remote transport parameters")

    def _fail(self, what, **sig):
        if self.congested:
            sig["congested"] = True
        if self.bad is None:
            self.bad = (what, sig)

    def _live_streams(self):
        """stream ids whose state the subject still holds after a write pass (a private read, congested runs only, used
        for the projection only): the model discards the finished streams that are NOT in this list -- the loop that
        discards them also writes STREAM frames and can be stopped by the builder"""
        try:
            return [int(k) for k in self.sub.conn._streams.keys()]
        except Exception:
            return []

    def _pending_raise(self):
        """evidence only: is some limit raised but not advertised (value != sent) right now?"""
        try:
            c = self.sub.conn
            ls = [c._local_max_data, c._local_max_streams_bidi, c._local_max_streams_uni]
            return any(l.value != l.sent for l in ls) or any(
                st.max_stream_data_local != st.max_stream_data_local_sent for st in c._streams.values())
        except Exception:
            return False

    def _adv_msd(self, sid):
        if sid in self.adv_msd:
            return self.adv_msd[sid]
        if sid & 2:
            return self.adv_msd_init["uni"]
        # a bidirectional stream: opened by the subject -> its bidi_local value, by the peer -> bidi_remote
        subject_initiated = ((sid & 1) == 0) == self.is_client
        return self.adv_msd_init["bidi_local" if subject_initiated else "bidi_remote"]

    # -- oracle (i): classify a frame before it is sent -----------------------------------
    def _expect(self, fr):
        """-> (set of acceptable accusation codes, or None when the frame is within every advertised limit,
               judged?)"""
        k = fr[0]
        if k == "S":
            sid, off, n, fin = fr[1], fr[2], fr[3], bool(fr[5])
            end = off + n
            if end > UVM:
                return None, False
        elif k == "R":
            sid, end, fin = fr[1], fr[2], True
        elif k == "T":
            # MAX_STREAM_DATA (0x11) / STREAM_DATA_BLOCKED (0x15): carries no data; it may create a peer-initiated
            # stream and is then subject to the stream-count limit only
            ft, sid = fr[1], fr[2]
            subject_initiated = ((sid & 1) == 0) == self.is_client
            if subject_initiated:
                if sid not in self.local_open or (ft == 0x15 and (sid & 2)):
                    return None, False     # wrong initiator / direction: STREAM_STATE_ERROR, not part of the property
                return None, True
            if ft == 0x11 and (sid & 2):
                return None, False         # MAX_STREAM_DATA for a stream the subject cannot send on
            if sid // 4 + 1 > self.adv_streams[bool(sid & 2)]:
                return {4}, True
            return None, True
        else:
            return None, False
        subject_initiated = ((sid & 1) == 0) == self.is_client
        if subject_initiated and ((sid & 2) or sid not in self.local_open):
            return None, False     # wrong direction / initiator: STREAM_STATE_ERROR, not part of the property
        if sid in self.peer_odd:
            return None, False
        bad = set()
        if not subject_initiated and sid // 4 + 1 > self.adv_streams[bool(sid & 2)]:
            bad.add(4)
        if end > self._adv_msd(sid):
            bad.add(3)
        hi = self.peer_hi.get(sid, 0)
        total = sum(self.peer_hi.values())
        if total + max(0, end - hi) > self.adv_data:
            bad.add(3)
        fs = self.peer_final.get(sid)
        if fs is not None and (end > fs or (fin and end != fs)):
            bad.add(6)
        if bad:
            if sid in self.peer_done:
                return None, False
            return bad, True
        if fin and end < hi:
            # the peer itself shrinks below what it already sent (RFC 9000 4.5 wants FINAL_SIZE_ERROR, the
            # code accepts it): outside the statement, the stream is not judged from here on
            self.peer_odd.add(sid)
            return None, False
        self.peer_hi[sid] = max(hi, end)
        if fin:
            self.peer_final[sid] = end
        if k == "R":
            self.peer_done.add(sid)
        else:
            cov = self.peer_cov.get(sid, [])
            if end > off:
                cov = sorted(cov + [(off, end)])
                merged = [cov[0]]
                for a, b in cov[1:]:
                    if a <= merged[-1][1]:
                        merged[-1] = (merged[-1][0], max(merged[-1][1], b))
                    else:
                        merged.append((a, b))
                self.peer_cov[sid] = cov = merged
            fs2 = self.peer_final.get(sid)
            if fs2 is not None and (fs2 == 0 or (cov and cov[0][0] == 0 and cov[0][1] >= fs2)):
                self.peer_done.add(sid)
        return None, True

    # -- wire collection ---------------------------------------------------------------
    def _collect(self):
        obs = self.pair.observer
        new = obs.packets[self.mark:]
        self.mark = len(obs.packets)
        frames = []
        for p in new:
            if p.direction != self.dir or p.injected or not p.decrypted:
                continue
            if p.type == "1rtt":
                self.subject_pns.append((p.pn, [f.name for f in p.frames], [dict(f.fields) for f in p.frames]))
            for f in p.frames:
                if f.name == "CONNECTION_CLOSE" and self.closed is None:
                    self.closed = (f.fields["error_code"], f.fields["frame_type"])
                elif f.name in ("MAX_DATA", "MAX_STREAMS_BIDI", "MAX_STREAMS_UNI"):
                    frames.append((_LIMIT_NAMES[f.name], 0, f.fields["maximum"]))
                elif f.name == "MAX_STREAM_DATA":
                    frames.append((0x11, f.fields["stream_id"], f.fields["maximum"]))
                elif f.name == "PATH_RESPONSE":
                    frames.append((0x1B, 0, int.from_bytes(f.fields["data"], "big")))
                elif f.name == "RETIRE_CONNECTION_ID":
                    frames.append((0x19, 0, f.fields["sequence_number"]))
        return frames

    def _write(self, dt=0.03):
        """one (or more, idempotent) write passes of the subject = model op Write"""
        before = self._outstanding()
        self.pair.advance(dt)
        self.pair.pump(self.sub)
        frames = self._collect()
        toks = self._declared_lost(before)     # loss-detection timer fired during advance(): LOST callbacks, then the write pass
        if toks:
            self.stats["loss_by_timer"] += 1
        self.min_in += toks
        if self.congested:
            # budget = the modelled frames this step's datagrams_to_send() calls put on the wire (as in C18)
            keep = self._live_streams()
            self.min_in += [12, len(frames), len(keep)] + keep
            self.stats["cut_passes"] += 1
            if self._pending_raise():
                self.stats["cut_passes_with_unadvertised_raise"] += 1
        else:
            self.min_in.append(4)
        if self.closed is not None:
            self.mout += [3, self.closed[0], self.closed[1]]
            raise Closed()
        self.mout += [2, len(frames)]
        for ft, a, b in frames:
            self.mout += [ft, a, b]
            # oracle (i): what is advertised on the wire
            if ft == 0x10:
                self.adv_data = max(self.adv_data, b)
            elif ft == 0x11:
                self.adv_msd[a] = max(self._adv_msd(a), b)
            elif ft == 0x12:
                self.adv_streams[False] = max(self.adv_streams[False], b)
            elif ft == 0x13:
                self.adv_streams[True] = max(self.adv_streams[True], b)
        nresp = sum(1 for f in frames if f[0] == 0x1B)
        if nresp > self.max_remote_challenges:
            self._fail("%d PATH_RESPONSE frames in one write pass: more than MAX_REMOTE_CHALLENGES challenges were queued" % nresp,
                       oracle="challenge_queue", count=nresp)
        self.stats["writes"] += 1
        self.stats["limit_frames"] += sum(1 for f in frames if f[0] in (0x10, 0x11, 0x12, 0x13))

    def _events(self):
        from aioquic.quic import events as ev
        for e in self.sub.drain_events():
            if isinstance(e, ev.StreamDataReceived):
                self.mout += [10, e.stream_id, int(e.end_stream), len(e.data)] + list(e.data)
            elif isinstance(e, ev.StreamReset):
                self.mout += [11, e.stream_id]

    def _measure(self):
        if not self.measure:
            return
        g = reachable_bytes(self.sub.conn) - self.baseline
        self.max_growth = max(self.max_growth, g)
        allow = ((self.adv_data if self.sent_stream else 0) + (self.max_pending_crypto if self.sent_crypto else 0) + SLACK
                 + self.bulk_bytes)      # the subject's own unacknowledged bulk data sits in its send buffer
        if g > allow:
            self._fail("bytes reachable from the connection grew by %d, more than %s%sslack %d"
                       % (g, "advertised max_data %d + " % self.adv_data if self.sent_stream else "",
                          "MAX_PENDING_CRYPTO %d + " % self.max_pending_crypto if self.sent_crypto else "", SLACK),
                       oracle="buffer_bound", crypto=self.sent_crypto, crypto_in_order=self.sent_crypto and not self.crypto_gap,
                       multi_addr=self.multi_addr, streams=self.sent_stream)

    # -- one packet from the puppet -------------------------------------------------------
    def _frame_bytes(self, fr):
        F = self.F
        k = fr[0]
        if k == "S":
            _, sid, off, n, seed, fin, expoff = fr
            with_off = bool(expoff) or off != 0
            ft = 0x08 | (4 if with_off else 0) | 2 | (1 if fin else 0)
            d = _data(n, seed)
            self.min_in += [0, ft, sid, off, n] + list(d)
            self.sent_stream = True
            return F.stream(sid, off, d, fin=bool(fin), explicit_len=True, explicit_offset=with_off)
        if k == "R":
            self.min_in += [1, fr[1], fr[2]]
            self.sent_stream = True
            self._reset_after = True
            return F.reset_stream(fr[1], 7, fr[2])
        if k == "Ct":      # in-order CRYPTO: a TLS handshake message header announcing 2^24-1 bytes, then its body
            n = fr[1]
            L = fr[2] if len(fr) > 2 else 0xFFFFFF
            d = (bytes([4]) + L.to_bytes(3, "big") + bytes(n))[:n] if self.crypto_next == self.crypto_base else bytes(n)
            off = self.crypto_next
            self.crypto_next += n
            self.min_in += [7, off, n] + list(d)
            self.sent_crypto = True
            return F.crypto(off, d)
        if k == "T":
            self.min_in += [2, fr[1], fr[2]]
            return F.max_stream_data(fr[2], 1) if fr[1] == 0x11 else F.stream_data_blocked(fr[2], 1)
        if k == "C":
            d = _data(fr[2], 3)
            off = self.crypto_base + fr[1] if fr[1] < (1 << 60) else fr[1]   # relative to the receiver's current offset
            self.min_in += [7, off, fr[2]] + list(d)
            self.sent_crypto = True
            self.crypto_gap = True
            return F.crypto(off, d)
        if k == "P":
            self.min_in += [8, fr[1]]
            return F.path_challenge(fr[1].to_bytes(8, "big"))
        if k == "N":
            self.min_in += [10, fr[1], fr[2]]
            return F.new_connection_id(fr[1], fr[2], bytes([0xC0 + (fr[1] & 0x3F)]) * 8, token=bytes([fr[1] & 0xFF]) * 16)
        if k == "G":
            return F.ping()
        raise ValueError(k)

    def _packet(self, frames, write=True, ack=None, ack_first=True, on_received=None):
        """one 1-RTT packet from the puppet.  ack: an ACK frame (bytes) put before (ack_first) or after the frames;
        on_received(pos): called after receive_datagram with the index in the projected op trace at which the
        effects of that ACK frame (delivery callbacks) belong."""
        expects = [self._expect(fr) for fr in frames]
        pos = len(self.min_in)
        payload = [self._frame_bytes(fr) for fr in frames]
        if ack is not None:
            payload = [ack] + payload if ack_first else payload + [ack]
            if not ack_first:
                pos = len(self.min_in)
        data = self.pup.build_packet("1rtt", payload)
        try:
            self.sub.receive_datagram(data, self.peer.addr)
            if on_received is not None:
                on_received(pos)
        except self.ApiRaised as exc:
            self.raised = type(exc.exc).__name__
            self._events()
            self.mout += [4]
            self._fail("%s escaped receive_datagram" % self.raised, oracle="no_raise", exception=self.raised)
            raise Closed()
        self.stats["packets"] += 1
        self.stats["frames"] += len(frames)
        self._events()
        had_reset = self.sent_reset
        if getattr(self, "_reset_after", False):
            self.sent_reset = True
        if not write:
            return
        first_bad = next((e for e in expects if e[0]), None)
        # frames are processed in order: an unjudged frame (outside the statement, e.g. on a stream the peer itself
        # completed) BEFORE the first over-limit frame may close the connection with a code of its own
        unjudged_before = first_bad is not None and any(not e[1] for e in expects[:expects.index(first_bad)])
        try:
            self._write()
        finally:
            # oracle (i)
            code = self.closed[0] if self.closed else None
            if first_bad is not None:
                self.stats["over_limit_frames"] += 1
                if code not in first_bad[0] and not (unjudged_before and code is not None):
                    self._fail("frame beyond an advertised limit (expected close with one of %s) but %s"
                               % (sorted(first_bad[0]), "connection stayed open" if code is None else "closed with %s" % code),
                               oracle="over_limit", expected=sorted(first_bad[0])[0], got=code)
            elif all(e[1] for e in expects) and code in ACCUSE:
                nres = sum(1 for fr in frames if fr[0] == "R")
                self.sent_reset = had_reset or nres >= (2 if self.closed[1] == 4 else 1)
                self._fail("peer within every advertised limit and final-size consistent was accused: %s, frame type 0x%x"
                           % (ACCUSE[code], self.closed[1]), oracle="accused", code=ACCUSE[code],
                           after_reset=self.sent_reset)

    # -- delivery outcome of a packet that advertised limits --------------------------------------
    _OTHER_RETX = ("RETIRE_CONNECTION_ID", "PATH_RESPONSE", "NEW_CONNECTION_ID", "HANDSHAKE_DONE", "STREAM", "CRYPTO")

    def _limit_packets(self):
        """1-RTT packets of the subject that carry MAX_* frames and whose fate the puppet has not decided yet"""
        return [(pn, names, fields) for pn, names, fields in self.subject_pns
                if pn not in self.lost_done and pn not in self.acked_done and any(n.startswith("MAX_") for n in names)]

    def _outstanding(self):
        """packet numbers the subject's loss recovery still tracks as in flight (application space).  A private
        read, used only to project the run to the model's op trace: a LimitLost / StreamLimitLost op is emitted
        for each MAX_* frame of a packet that left this set without having been acknowledged by the puppet."""
        try:
            return set(self.sub.conn._loss.spaces[-1].sent_packets.keys())
        except Exception:
            return set()

    def _declared_lost(self, before):
        """model tokens for the limit packets that were outstanding in `before`, are not any more, and were never
        acknowledged by the puppet: the subject declared them lost (delivery handlers ran with LOST)"""
        gone = before - self._outstanding()
        toks = []
        for pn, names, fields in self.subject_pns:
            if pn in gone and pn not in self.acked_done and pn not in self.lost_seen \
                    and any(n.startswith("MAX_") for n in names):
                self.lost_seen.add(pn)
                toks += self._loss_tokens(names, fields)
                self.stats["lost_limit_packets"] += 1
                self.stats["lost_limit_frames"] += sum(1 for n in names if n.startswith("MAX_"))
        return toks

    @staticmethod
    def _loss_tokens(names, fields):
        t = []
        for n, f in zip(names, fields):
            if n == "MAX_DATA":
                t += [5, 0]
            elif n == "MAX_STREAMS_BIDI":
                t += [5, 1]
            elif n == "MAX_STREAMS_UNI":
                t += [5, 2]
            elif n == "MAX_STREAM_DATA":
                t += [6, f["stream_id"]]
        return t

    def _ranges(self, pns):
        """ACK ranges (at most the 40 highest) for these packet numbers; what they cover is remembered as acknowledged"""
        ranges = []
        for p in sorted(pns):
            if ranges and ranges[-1][1] == p - 1:
                ranges[-1] = (ranges[-1][0], p)
            else:
                ranges.append((p, p))
        ranges = ranges[-40:]
        self.acked_done.update(p for p in pns if p >= ranges[0][0])
        return ranges

    def _deliver(self, outcome, how, order, frames, which=-1):
        """Decide the fate of one packet of the subject that carries MAX_DATA / MAX_STREAM_DATA / MAX_STREAMS frames
        and send the peer frames `frames` around the ACK frame that reveals it.
          outcome  "lost" | "acked"
          how      "pkt":   the ACK skips the packet and covers >= 3 later ones (packet threshold);
                   "time":  the ACK skips it and covers ONE later packet (gap < 3: time threshold only);
                   "late":  like "time" after 0.25 s of silence (the subject's PTO probes are in flight as well);
          order    "ack-first":  one packet [ACK, frames...]   (loss declared, then the frames, no write pass between)
                   "data-first": one packet [frames..., ACK]
                   "separate":   packet [ACK], then packet [frames...], no datagrams_to_send() in between
                   "write-between": packet [ACK], write pass (re-advertisement), packet [frames...]
          which    index into the undecided limit packets (-1 latest, 0 oldest)"""
        cand = self._limit_packets()
        pick = None
        if cand:
            pick = cand[which if -len(cand) <= which < len(cand) else -1]
            if any(n in self._OTHER_RETX for n in pick[1]):
                pick = None            # other retransmittable content: outside the model
        if pick is None:
            self.stats["deliver_no_limit_packet"] += 1
            if frames:
                self._packet(frames)
            return
        pn = pick[0]
        if outcome == "lost":
            if how == "late":
                self._write(0.25)           # the later packet is sent (and acknowledged) long after the limit packet
                self._packet([["G"]])
            need = 3 if how == "pkt" else 1
            guard = 0
            while max(p for p, _, _ in self.subject_pns) < pn + need and guard < 12:
                guard += 1
                self._packet([["G"]])
            allp = sorted({p for p, _, _ in self.subject_pns})
            if allp[-1] < pn + need:
                self.stats["deliver_no_later_packet"] += 1
                if frames:
                    self._packet(frames)
                return
            self.lost_done.add(pn)
            self.stats["ack_gap_%s" % (">=3" if allp[-1] - pn >= 3 else "<3")] += 1
        allp = sorted({p for p, _, _ in self.subject_pns})
        acked = [p for p in allp if p not in self.lost_done]     # no stragglers: everything else is acknowledged
        ackf = self.F.ack(self._ranges(acked))
        before = self._outstanding()

        def project(pos):
            toks = self._declared_lost(before)
            self.min_in[pos:pos] = toks
            if outcome == "lost":
                self.stats["loss_at_ack" if toks else "loss_not_at_ack"] += 1
            else:
                self.stats["acked_limit_packets"] += 1

        self.stats["deliver_%s_%s_%s" % (outcome, how if outcome == "lost" else "-", order)] += 1
        if order in ("ack-first", "data-first") and frames:
            self._packet(frames, ack=ackf, ack_first=(order == "ack-first"), on_received=project)
        else:
            self._packet([], write=(order == "write-between" or not frames), ack=ackf, on_received=project)
            if frames:
                self._packet(frames)

    def _lose(self):
        """the latest packet carrying MAX_* frames is declared lost (packet threshold); write pass right after"""
        self._deliver("lost", "pkt", "write-between", [])

    # -- the case ----------------------------------------------------------------------------
    def run(self):
        try:
            for op in self.case["ops"]:
                k = op[0]
                if k == "B":
                    self._packet(op[1])
                elif k == "W":
                    self._write()
                elif k == "A":
                    # ack everything the subject sent; the ACK packet is followed by a write pass
                    allp = sorted({p for p, _, _ in self.subject_pns if p not in self.lost_done})
                    if allp:
                        self._packet([], ack=self.F.ack(self._ranges(allp)))
                    else:
                        self._write()
                elif k == "O":
                    self.sub.send_stream_data(op[1], b"")
                    self.local_open.add(op[1])
                    self.min_in += [3, op[1]]
                elif k == "L":
                    self._lose()
                elif k == "K":
                    # bulk: the application queues op[1] bytes on a new stream of its own; the puppet acknowledges nothing,
                    # so the congestion window fills and the builder starts refusing in-flight frames
                    sid = self.sub.get_next_available_stream_id()
                    self.sub.send_stream_data(sid, bytes(op[1]), False)
                    self.local_open.add(sid)
                    self.min_in += [3, sid]
                    self.bulk_bytes += op[1]
                    self.congested = True
                    # let the window fill, then wait for the first PTO probe to go out: the next one is due twice as late,
                    # so the steps that follow see write passes with an exhausted window and no probe
                    def quiet():
                        n = len(self.subject_pns)
                        self._write()
                        return len(self.subject_pns) == n
                    phase, guard = 0, 0
                    while phase < 3 and guard < 14:
                        guard += 1
                        q = quiet()
                        if (phase in (0, 2) and q) or (phase == 1 and not q):
                            phase += 1
                    self.stats["cut_fill_steps"] += guard
                elif k == "D":
                    self._deliver(op[1], op[2], op[3], op[4], op[5] if len(op) > 5 else -1)
                elif k == "Pa":    # PATH_CHALLENGE frames from another source address (a path the model does not have)
                    self.multi_addr = True
                    dv = int.from_bytes(bytes([op[1] & 0xFF]) * 8, "big")
                    self.min_in += [11, op[1], op[2]] + [dv] * op[2]
                    data = self.pup.build_packet("1rtt", [self.F.path_challenge(bytes([op[1] & 0xFF]) * 8)] * op[2])
                    self.sub.receive_datagram(data, ("10.9.%d.%d" % (op[1] // 250, op[1] % 250 + 1), 4000 + op[1]))
                    self.stats["packets"] += 1
                    self._events()
                    self._write()
                else:
                    self._packet([op])
                if op is not self.case["ops"][-1] and self.stats["packets"] % (8 if len(self.case["ops"]) < 100 else 96) == 0:
                    self._measure()
        except Closed:
            pass
        self._measure()
        return self


_CACHE = collections.OrderedDict()
_DELIVERY = collections.Counter()     # measured over all distinct cases of this run (goes into the evidence)
_CUT = collections.Counter()
_DELIVERY_KEYS = ("lost_limit_packets", "lost_limit_frames", "loss_at_ack", "loss_not_at_ack", "loss_by_timer", "acked_limit_packets",
                  "ack_gap_>=3", "ack_gap_<3", "deliver_no_limit_packet", "deliver_no_later_packet")


def _run_case(case):
    key = json.dumps(case, sort_keys=True)
    r = _CACHE.get(key)
    if r is None:
        r = Runner(case).run()
        r_small = {"min": r.min_in, "mout": r.mout, "bad": r.bad, "closed": r.closed, "stats": dict(r.stats),
                   "growth": r.max_growth}
        _CACHE[key] = r_small
        for k, v in r.stats.items():
            if k in _DELIVERY_KEYS or k.startswith("deliver_"):
                _DELIVERY[k] += v
            if k.startswith("cut_"):
                _CUT[k] += v
        if len(_CACHE) > 4096:
            _CACHE.popitem(last=False)
        r = r_small
    return r


def encode(case):
    return _run_case(case)["min"]


def impl(case):
    return _run_case(case)["mout"]


def oracle(case):
    return _run_case(case)["bad"]


# ------------------------------------------------------------------------------ generators
def _case(subject, msd, md, ops, seed=1, kind="generic"):
    return {"subject": subject, "msd": msd, "md": md, "seed": seed, "ops": ops, "kind": kind}


def _peer_sids(subject):
    """(peer bidi, peer uni, own bidi, own uni) first stream ids for this subject"""
    return (0, 2, 1, 3) if subject == "server" else (1, 3, 0, 2)


def gen_boundary():
    """limit-1 / limit / limit+1 / 2^62-1 for stream data, connection data, final sizes, stream count,
    on all four stream types, for both roles."""
    cases = []
    for subject in ("server", "client"):
        pb, pu, ob, ou = _peer_sids(subject)
        for sid in (pb, pu, ob, ou):
            pre = [["O", sid]] if sid in (ob, ou) else []
            for msd, md in ((1000, 4000), (3000, 2000)):
                lim = min(msd, md)
                for delta in (-1, 0, 1):
                    e = lim + delta
                    # one frame ending exactly at e (data), e by empty frame at offset e, FIN at e, RESET at e
                    cases.append(_case(subject, msd, md, pre + [["S", sid, e - 10, 10, 1, 0, 1]], kind="boundary"))
                    cases.append(_case(subject, msd, md, pre + [["S", sid, e, 0, 1, 1, 1]], kind="boundary"))
                    cases.append(_case(subject, msd, md, pre + [["R", sid, e]], kind="boundary"))
                    # after a raise: fill half, let the subject raise, then probe the new limit
                    half = lim // 2 + 1
                    cases.append(_case(subject, msd, md, pre + [["S", sid, 0, half, 2, 0, 0], ["W"],
                                                                ["S", sid, 2 * lim + delta - 5, 5, 3, 0, 1]], kind="boundary-raised"))
                for off, n in ((UVM, 0), (UVM - 1, 1), (UVM, 1), (UVM - 5, 20)):
                    cases.append(_case(subject, msd, md, pre + [["S", sid, off, n, 1, 0, 1]], kind="boundary-2^62"))
                cases.append(_case(subject, msd, md, pre + [["R", sid, UVM]], kind="boundary-2^62"))
        # stream count: 128th, 129th stream of each peer-initiated type; far beyond; MAX_STREAM_DATA / STREAM_DATA_BLOCKED creating streams
        for base in (pb, pu):
            for cnt in (127, 128, 129, 1 << 40):
                sid = base + 4 * (cnt - 1)
                cases.append(_case(subject, 1000, 4000, [["S", sid, 0, 3, 1, 0, 0]], kind="stream-count"))
                cases.append(_case(subject, 1000, 4000, [["R", sid, 3]], kind="stream-count"))
                cases.append(_case(subject, 1000, 4000, [["T", 0x15, sid]], kind="stream-count"))
            # raise MAX_STREAMS by using more than half, then probe the doubled limit
            s65 = base + 4 * 64
            for cnt in (256, 257):
                cases.append(_case(subject, 1000, 4000, [["S", s65, 0, 1, 1, 0, 0], ["S", base + 4 * (cnt - 1), 0, 1, 1, 0, 0]],
                                   kind="stream-count-raised"))
        # raise one stream-count limit, then probe the OTHER type at its own (unraised) limit, and at the raised value
        for a, b in ((pb, pu), (pu, pb)):
            for cnt in (128, 129, 256):
                cases.append(_case(subject, 1000, 4000, [["S", a + 4 * 64, 0, 1, 1, 0, 0], ["S", b + 4 * (cnt - 1), 0, 1, 1, 0, 0]],
                                   kind="stream-count-cross"))
            cases.append(_case(subject, 1000, 4000, [["S", a + 4 * 64, 0, 1, 1, 0, 0], ["R", b + 4 * 128, 0]], kind="stream-count-cross"))
        cases.append(_case(subject, 1000, 4000, [["T", 0x11, pb + 4 * 128]], kind="stream-count"))
        cases.append(_case(subject, 1000, 4000, [["T", 0x11, pu]], kind="direction"))
        cases.append(_case(subject, 1000, 4000, [["T", 0x11, ob]], kind="direction"))
    return cases


def gen_final_size():
    cases = []
    for subject in ("server", "client"):
        pb, pu, ob, ou = _peer_sids(subject)
        for sid in (pb, pu):
            c = lambda ops, kind="final-size": cases.append(_case(subject, 1000, 4000, ops, kind=kind))
            c([["S", sid, 0, 10, 1, 1, 0], ["S", sid, 10, 1, 1, 0, 1]])            # data beyond FIN (bidi only stays around)
            c([["S", sid, 5, 10, 1, 1, 1], ["S", sid, 0, 16, 1, 0, 0]])            # data beyond a buffered FIN
            c([["S", sid, 5, 10, 1, 1, 1], ["S", sid, 5, 9, 1, 1, 1]])             # FIN moved down
            c([["S", sid, 5, 10, 1, 1, 1], ["R", sid, 15]])                        # RESET agreeing with FIN
            c([["S", sid, 5, 10, 1, 1, 1], ["R", sid, 14]])                        # RESET disagreeing
            c([["S", sid, 5, 10, 1, 1, 1], ["R", sid, 16]])
            c([["R", sid, 20], ["R", sid, 21]])
            c([["S", sid, 5, 10, 1, 0, 1], ["R", sid, 9]])                         # RESET below data already received (accepted by the code)
            c([["S", sid, 5, 10, 1, 0, 1], ["S", sid, 0, 3, 1, 1, 0]])             # FIN below data already received (accepted)
            c([["B", [["S", sid, 0, 10, 1, 1, 0], ["S", sid, 0, 10, 1, 1, 0]]]])   # duplicate FIN frame in one packet
            c([["B", [["R", sid, 20], ["S", sid, 10, 10, 1, 0, 1]]]])              # reset then late data within the final size, same packet
            c([["R", sid, 20], ["S", sid, 10, 10, 1, 0, 1]])                       # ... next packet (uni: stream already discarded)
            c([["B", [["R", sid, 20], ["R", sid, 20]]]])                           # duplicate RESET in one packet
            cases.append(_case(subject, 1000, 700, [["B", [["S", sid, 0, 300, 1, 0, 0]] * 3]], kind="retransmission"))
            cases.append(_case(subject, 1000, 700, [["S", sid, 100, 300, 1, 0, 1]] * 4 + [["S", sid, 0, 400, 1, 0, 0]] * 2, kind="retransmission"))
    return cases


def gen_random(rng, n, deliveries=False):
    cases = []
    for _ in range(n):
        subject = rng.choice(["server", "client"])
        pb, pu, ob, ou = _peer_sids(subject)
        msd = rng.choice([64, 300, 1000, 2500])
        md = rng.choice([100, 700, 2000, 6000])
        ops = []
        sids = [pb, pb + 4, pu, pu + 4, pb + 8]
        if rng.random() < 0.4:
            ops.append(["O", ob])
            sids.append(ob)
        hi = {}
        lim_guess = {"msd": msd, "md": md}
        risky = rng.random() < 0.35
        for _ in range(rng.randint(3, 25)):
            r = rng.random()
            sid = rng.choice(sids)
            h = hi.get(sid, 0)
            if r < 0.55:      # in-limit-ish data: in order, with gaps, duplicates
                mode = rng.random()
                off = h if mode < 0.5 else (h + rng.choice([1, 3, 17]) if mode < 0.8 else rng.randint(0, h))
                nn = rng.choice([0, 1, 5, 40, 200, 900])
                fin = int(rng.random() < 0.1)
                if not risky:
                    room = min(lim_guess["msd"] - off, lim_guess["md"] - sum(hi.values()) - max(0, off - h))
                    if room < 0:
                        continue
                    nn = min(nn, max(0, room - max(0, 0)))
                fr = ["S", sid, off, nn, rng.randrange(256), fin, int(rng.random() < 0.5)]
                hi[sid] = max(h, off + nn)
            elif r < 0.65:    # boundary probe relative to the initial limits (may be above or below the current ones)
                tgt = rng.choice([msd, md, 2 * msd, 2 * md]) + rng.choice([-1, 0, 1])
                nn = rng.choice([0, 1, 7])
                fr = ["S", sid, max(0, tgt - nn), nn, 5, 0, 1]
                hi[sid] = max(h, max(0, tgt - nn) + nn)
            elif r < 0.72:
                fs = rng.choice([h, h, h + 1, h + 30, max(0, h - 1), msd, msd + 1])
                fr = ["R", sid, fs]
                hi[sid] = max(h, fs)
            elif r < 0.76:
                fr = ["T", rng.choice([0x11, 0x15]), rng.choice(sids + [pb + 12])]
            elif r < 0.80:
                fr = ["P", rng.getrandbits(64)]
            elif r < 0.83:
                ops.append(["W"])
                continue
            elif r < 0.86:
                ops.append(["A"])
                continue
            else:             # several frames in one packet (no write pass in between), half of the time together with
                              # the delivery outcome of a packet that advertised limits
                batch = []
                for _ in range(rng.randint(1, 4)):
                    s2 = rng.choice(sids)
                    h2 = hi.get(s2, 0)
                    n2 = rng.choice([1, 20, 150])
                    if not risky:
                        room = min(lim_guess["msd"] - h2, lim_guess["md"] - sum(hi.values()))
                        if room <= 0:
                            continue
                        n2 = min(n2, room)
                    elif rng.random() < 0.3:     # at the boundary of what has been advertised (as far as the generator can tell)
                        n2 = max(1, min(lim_guess["msd"] - h2, lim_guess["md"] - sum(hi.values())) + rng.choice([-1, 0, 0, 1]))
                        n2 = min(n2, 300)
                    batch.append(["S", s2, h2, n2, rng.randrange(256), 0, 1])
                    hi[s2] = h2 + n2
                if deliveries and rng.random() < 0.6:
                    outcome, how = rng.choice(DELIVERY_OUTCOMES)
                    ops.append(["D", outcome, how, rng.choice(DELIVERY_ORDERS[:2] * 2 + DELIVERY_ORDERS[2:]), batch, rng.choice([-1, -1, 0])])
                elif len(batch) > 1:
                    ops.append(["B", batch])
                else:
                    ops += batch
                if max(hi.values() or [0]) * 2 > lim_guess["msd"]:
                    lim_guess["msd"] *= 2
                if sum(hi.values()) * 2 > lim_guess["md"]:
                    lim_guess["md"] *= 2
                continue
            ops.append(fr)
            # the subject doubles a limit once more than half is used
            if max(hi.values() or [0]) * 2 > lim_guess["msd"]:
                lim_guess["msd"] *= 2
            if sum(hi.values()) * 2 > lim_guess["md"]:
                lim_guess["md"] *= 2
        cases.append(_case(subject, msd, md, ops, seed=rng.randint(1, 5),
                           kind=("random-delivery" if deliveries else "random") + ("-risky" if risky else "")))
    return cases


def gen_repetition(rng, thorough=False):
    cases = []
    for subject in ("server", "client"):
        pb, pu, ob, ou = _peer_sids(subject)
        # PATH_CHALLENGE: more than the cap in one packet, and across packets
        cases.append(_case(subject, 1000, 4000, [["B", [["P", 1000 + i] for i in range(40)]]], kind="path-challenge"))
        cases.append(_case(subject, 1000, 4000, [["B", [["P", 7] for i in range(33)]], ["P", 8], ["B", [["P", 9]] * 31]], kind="path-challenge"))
        # NEW_CONNECTION_ID: fill, over-fill, retire bursts
        # (the subject already holds sequence numbers 0..7 from the handshake)
        cases.append(_case(subject, 1000, 4000, [["N", i, 0] for i in range(1, 10)], kind="new-cid"))
        cases.append(_case(subject, 1000, 4000, [["N", 8, 1], ["N", 9, 2], ["N", 10, 2]], kind="new-cid"))
        cases.append(_case(subject, 1000, 4000, [["B", [["N", i, i] for i in range(1, 46)]]], kind="new-cid-retire"))
        cases.append(_case(subject, 1000, 4000, [["N", i, i] for i in range(1, 40)], kind="new-cid-retire"))
        cases.append(_case(subject, 1000, 4000, [["B", [["N", 8, 8]] + [["N", 8 + j, 8] for j in range(1, 8)] + [["N", 16, 16]] +
                                                  [["N", 16 + j, 16] for j in range(1, 8)] + [["N", 24, 24]] + [["N", 24 + j, 24] for j in range(1, 8)]
                                                  + [["N", 32, 32]] + [["N", 32 + j, 32] for j in range(1, 8)] + [["N", 40, 40]]]],
                           kind="new-cid-retire"))
        cases.append(_case(subject, 1000, 4000, [["N", 3, 4]], kind="new-cid"))
        cases.append(_case(subject, 1000, 4000, [["N", 5, 0], ["N", 5, 5], ["N", 5, 5], ["N", 2, 1], ["N", 9, 9], ["N", 9, 7]], kind="new-cid"))
        # never-completed streams: a gap at offset 0 on many streams, highest pushed to the limits
        ops = []
        for i in range(12):
            ops.append(["S", pu + 4 * i, 1, 300, i, 0, 1])
        for i in range(12):
            ops.append(["S", pb + 4 * i, 5, 300, i, 0, 1])
        cases.append(_case(subject, 1000, 4000, ops, kind="never-completed"))
        # one stream, gap at 0, repeatedly push the highest offset to the (doubling) limit with 1-byte frames
        ops = []
        lim = 500
        for i in range(10):
            ops.append(["S", pb, lim - 1, 1, 9, 0, 1])
            lim *= 2
        cases.append(_case(subject, 500, 500, ops, kind="never-completed-doubling"))
        # CRYPTO: out of order data (a gap is kept at the receiver's current offset so nothing reaches TLS)
        cases.append(_case(subject, 1000, 4000, [["C", 10, 100], ["C", 500, 700], ["C", 5, 600], ["C", 2000, 0],
                                                 ["C", 524288 - 1, 2]], kind="crypto"))
        cases.append(_case(subject, 1000, 4000, [["C", 3, 50], ["C", UVM - 10, 11]], kind="crypto"))
        cases.append(_case(subject, 1000, 4000, [["C", 70000, 1000], ["C", 524288, 1]], kind="crypto"))
        cases.append(_case(subject, 1000, 4000, [["C", 7, 10], ["C", 3000000, 10]], kind="crypto"))
        # in-order CRYPTO: a handshake message header announcing a body of L bytes, then part of the body
        for L in (524288 - 4, 524288 - 3, 70000, 0xFFFFFF):
            cases.append(_case(subject, 1000, 4000, [["Ct", 900, L]] * 40, kind="tls-reassembly"))
        cases.append(_case(subject, 1000, 4000, [["Ct", 3, 524288], ["Ct", 1, 524288], ["Ct", 10, 524288]], kind="tls-reassembly"))
    return cases


def gen_lost_limits():
    cases = []
    for subject in ("server", "client"):
        pb, pu, ob, ou = _peer_sids(subject)
        cases.append(_case(subject, 1000, 4000, [["S", pb, 0, 600, 1, 0, 0], ["L"], ["S", pb, 1990, 10, 1, 0, 1], ["S", pb, 2000, 1, 1, 0, 1]],
                           kind="lost-max-stream-data"))
        cases.append(_case(subject, 3000, 2000, [["S", pb, 0, 1001, 1, 0, 0], ["L"], ["S", pb, 1001, 1000, 1, 0, 1], ["L"],
                                                 ["S", pu, 0, 10, 1, 0, 0], ["S", pb, 3999, 2, 1, 0, 1]], kind="lost-max-data"))
        cases.append(_case(subject, 1000, 4000, [["S", pu + 4 * 64, 0, 1, 1, 0, 0], ["L"], ["S", pu + 4 * 255, 0, 1, 1, 0, 0], ["L"],
                                                 ["S", pu + 4 * 256, 0, 1, 1, 0, 0]], kind="lost-max-streams"))
    return cases


DELIVERY_OUTCOMES = (("lost", "pkt"), ("lost", "time"), ("lost", "late"), ("acked", "-"))
DELIVERY_ORDERS = ("ack-first", "separate", "data-first", "write-between")


def gen_delivery():
    """Delivery outcome (ACKED / LOST by packet threshold / LOST by time threshold) of the packet that advertised a
    raised limit x peer frames at the boundary old limit .. new limit x order of the revealing ACK frame and the peer
    frames (same datagram before / after, next datagram without a write pass, after the re-advertisement), for the
    connection-level limit (MAX_DATA), a per-stream limit (MAX_STREAM_DATA) and both stream-count limits (MAX_STREAMS).
    The limit in force is the largest value ever written to the wire, whatever happened to the packet."""
    cases = []

    def add(subject, msd, md, setup, probes, kind):
        for outcome, how in DELIVERY_OUTCOMES:
            for order in DELIVERY_ORDERS:
                for probe in probes:
                    fr = probe if isinstance(probe[0], list) else [probe]
                    cases.append(_case(subject, msd, md, setup + [["D", outcome, how, order, fr]], kind=kind))

    for subject in ("server", "client"):
        pb, pu, ob, ou = _peer_sids(subject)
        # ---- connection level: msd 3000, md L = 2000; 1001 bytes on pb -> MAX_DATA 4000 (no MAX_STREAM_DATA: 2002 <= 3000)
        L, used = 2000, 1001
        probes = []
        for total in (used + 1, L - 1, L, L + 1, 2 * L - 1, 2 * L, 2 * L + 1):
            e = total - used                                     # on another stream: the sum is what counts
            probes.append(["S", pu, e - min(e, 7), min(e, 7), 3, 0, 1])
        for total in (L, L + 1, 2 * L, 2 * L + 1):
            probes.append(["R", pu, total - used])
        probes.append(["S", pb, used, 0, 3, 0, 1])               # nothing new
        for total in (used + 1, L, L + 1):
            probes.append(["S", pb, total - 1, 1, 3, 0, 1])      # same stream
        probes.append(["S", pu, 2 * L - used - 3, 3, 3, 1, 1])   # FIN exactly at the new limit
        probes.append([["S", pu, 0, 500, 3, 0, 0], ["S", pb + 4, 2 * L - used - 500 - 5, 5, 4, 0, 1]])   # two frames filling the new window
        probes.append([["S", pu, 0, 500, 3, 0, 0], ["R", pb + 4, 2 * L - used - 500 + 1]])           # ... one byte too many
        add(subject, 3000, L, [["S", pb, 0, used, 1, 0, 0]], probes, "delivery-max-data")
        # ---- per-stream level: msd L = 1000, md 4000; 501 bytes on pb -> MAX_STREAM_DATA(pb, 2000) only
        L, used = 1000, 501
        probes = [["S", pb, used, 0, 3, 0, 1]]
        for e in (used + 1, L - 1, L, L + 1, 2 * L - 1, 2 * L, 2 * L + 1):
            probes.append(["S", pb, e - 1, 1, 3, 0, 1])
        for e in (L, L + 1, 2 * L, 2 * L + 1):
            probes.append(["R", pb, e])
        probes.append(["S", pb, 2 * L - 3, 3, 3, 1, 1])
        for e in (L, L + 1):                                     # another stream keeps its own (initial) limit
            probes.append(["S", pb + 4, e - 1, 1, 3, 0, 1])
        probes.append([["S", pb, L, 10, 3, 0, 1], ["S", pb, 2 * L - 1, 1, 3, 0, 1]])
        add(subject, L, 4000, [["S", pb, 0, used, 1, 0, 0]], probes, "delivery-max-stream-data")
        # ---- stream count: the 65th stream of a type -> MAX_STREAMS 256 for that type
        for base, other in ((pb, pu), (pu, pb)):
            probes = []
            for cnt in (128, 129, 256, 257):
                probes.append(["S", base + 4 * (cnt - 1), 0, 1, 3, 0, 0])
            for cnt in (129, 257):
                probes.append(["R", base + 4 * (cnt - 1), 0])
            for cnt in (256, 257):
                probes.append(["T", 0x15, base + 4 * (cnt - 1)])
            if base == pb:
                probes.append(["T", 0x11, base + 4 * 255])
                probes.append(["T", 0x11, base + 4 * 256])
            for cnt in (128, 129):                               # the other type keeps its own limit
                probes.append(["S", other + 4 * (cnt - 1), 0, 1, 3, 0, 0])
            add(subject, 1000, 4000, [["S", base + 4 * 64, 0, 1, 1, 0, 0]], probes, "delivery-max-streams")
        # ---- chains: an older (stale) advertisement lost after a newer one went out; a re-advertisement lost again;
        #      every limit of one packet lost at once
        for order in ("ack-first", "separate"):
            for how in ("pkt", "time"):
                c = lambda ops, md=2000, msd=3000: cases.append(_case(subject, msd, md, ops, kind="delivery-chain"))
                c([["S", pb, 0, 1001, 1, 0, 0], ["S", pu, 0, 1000, 2, 0, 0],                       # MAX_DATA 4000, then 8000
                   ["D", "lost", how, order, [["S", pu, 2994, 5, 3, 0, 1]], 0],                    # the stale one is lost
                   ["D", "lost", how, order, [["S", pb + 4, 2990, 10, 3, 0, 1]]],                  # then the newer one
                   ["S", pu + 4, 999, 1, 3, 0, 1], ["S", pb + 8, 0, 1, 3, 0, 0]])                  # 8000 reached, 8001 is over
                c([["S", pb, 0, 1001, 1, 0, 0], ["D", "lost", how, "write-between", []],           # re-advertisement ...
                   ["D", "lost", how, order, [["S", pu, 2990, 9, 3, 0, 1]]],                       # ... lost again
                   ["D", "acked", "-", order, [["R", pb + 4, 0]]], ["S", pb + 4, 0, 1, 1, 0, 0]])
                c([["S", pb, 0, 1001, 1, 0, 0], ["S", pu + 4 * 64, 0, 1, 1, 0, 0],                 # MAX_DATA + MAX_STREAM_DATA + MAX_STREAMS_UNI
                   ["D", "lost", how, order, [["S", pb, 1995, 5, 3, 0, 1], ["S", pu + 4 * 255, 0, 1, 3, 0, 0], ["S", pb + 4, 1994, 5, 3, 0, 1]]],
                   ["S", pu + 4 * 256, 0, 0, 3, 0, 0]], md=2000, msd=1000 * 2)
    return cases


def pick_delivery(cases, thorough):
    """quick tier: every case where a loss is revealed right before the peer frames (no write pass in between) by packet
    or time threshold, and every 4th of the rest"""
    if thorough:
        return cases
    out = []
    for i, c in enumerate(cases):
        d = [o for o in c["ops"] if o[0] == "D"]
        hot = any(o[1] == "lost" and o[2] in ("pkt", "time") and o[3] in ("ack-first", "separate") for o in d)
        if hot or i % 4 == 0:
            out.append(c)
    return out


def gen_cut():
    """Write passes cut short by QuicPacketBuilderStop: after a bulk step the subject's congestion window is exhausted and the
    builder refuses MAX_DATA / MAX_STREAM_DATA / MAX_STREAMS frames until a PTO probe (or an ACK) makes room.
    -> (cases, candidates): `cases` keep the peer within everything it saw on the wire, or go beyond the raised value as well
    (verdicts are unambiguous); `candidates` probe the window between the silently raised value and the advertised one."""
    cases, cand = [], []
    tail = [["W"], ["W"], ["W"], ["W"], ["A"], ["W"]]      # PTO probes / an ACK let the refused frames out
    for subject in ("server", "client"):
        pb, pu, ob, ou = _peer_sids(subject)
        c = lambda msd, md, ops, kind: _case(subject, msd, md, [["K", 60000]] + ops, kind=kind)
        # connection level: msd 3000, md 2000; 1001 bytes make used*2 > value; the MAX_DATA 4000 frame is refused
        for e, lst in ((1999, cases), (2000, cases), (2001, cand), (3000, cand), (4001 - 1000, cand)):
            lst.append(c(3000, 2000, [["S", pb, 0, 1001, 1, 0, 0], ["S", pb, e - 10, 10, 2, 0, 1]] + tail, "cut-max-data"))
        cases.append(c(3000, 2000, [["S", pb, 0, 1001, 1, 0, 0], ["S", pu, 2995, 5, 2, 0, 1], ["S", pb + 4, 5, 1, 2, 0, 1]] + tail,
                       "cut-max-data"))                                                           # 4001 > raised value as well
        cand.append(c(3000, 2000, [["S", pb, 0, 1001, 1, 0, 0], ["R", pu, 1500]] + tail, "cut-max-data"))
        cases.append(c(3000, 2000, [["S", pb, 0, 1001, 1, 0, 0], ["W"], ["W"], ["W"], ["W"], ["W"], ["S", pb, 3990, 10, 2, 0, 1],
                                    ["S", pu, 0, 1, 2, 0, 0], ["S", pu, 5, 1, 2, 0, 1]], "cut-max-data"))  # after the probe: 4000 advertised
        # per stream: msd 1000, md 4000; 600 bytes; MAX_STREAM_DATA 2000 refused
        for e, lst in ((999, cases), (1000, cases), (1001, cand), (2000, cand), (2001, cases)):
            lst.append(c(1000, 4000, [["S", pb, 0, 600, 1, 0, 0], ["S", pb, e - 10, 10, 2, 0, 1]] + tail, "cut-max-stream-data"))
        cases.append(c(1000, 4000, [["S", pb, 0, 600, 1, 0, 0], ["S", pb + 4, 390, 10, 2, 0, 1], ["S", pb + 4, 1000, 1, 2, 0, 1]] + tail,
                       "cut-max-stream-data"))                                                    # another stream keeps 1000
        cand.append(c(1000, 4000, [["S", pb, 0, 600, 1, 0, 0], ["R", pb, 1500]] + tail, "cut-max-stream-data"))
        # stream count: the 65th stream; MAX_STREAMS 256 refused
        for base in (pb, pu):
            for cnt, lst in ((128, cases), (129, cand), (256, cand), (257, cases)):
                lst.append(c(1000, 4000, [["S", base + 4 * 64, 0, 1, 1, 0, 0], ["S", base + 4 * (cnt - 1), 0, 1, 2, 0, 0]] + tail,
                             "cut-max-streams"))
        # PATH_CHALLENGE / retire bursts under an exhausted window: PATH_RESPONSE and RETIRE_CONNECTION_ID wait for room as well
        cases.append(c(1000, 4000, [["B", [["P", 100 + i] for i in range(5)]], ["S", pb, 0, 600, 1, 0, 0]] + tail, "cut-queues"))
        cases.append(c(1000, 4000, [["N", 8, 3], ["S", pb, 0, 600, 1, 0, 0]] + tail, "cut-queues"))
        # a finished stream under an exhausted window (discarding happens in the loop that writes STREAM frames)
        cases.append(c(1000, 4000, [["S", pu, 0, 10, 1, 1, 0], ["S", pu, 0, 11, 2, 0, 0], ["S", pb, 0, 600, 1, 0, 0]] + tail, "cut-discard"))
    return cases, cand


def gen_findings(thorough=False):
    """Inputs on which the unchanged tree violates the property (documented in docs/C07.md)."""
    cases = []
    for subject in (("server", "client") if thorough else ("server",)):
        pb, pu, ob, ou = _peer_sids(subject)
        # F-C07-1: RESET_STREAM charges the connection window without moving highest_offset
        cases.append(_case(subject, 4000, 4000, [["R", pb, 100], ["R", pb, 100], ["R", pb + 4, 3900]], kind="finding-reset-double-count"))
        cases.append(_case(subject, 4000, 4000, [["R", pb, 100], ["S", pb, 0, 100, 1, 0, 0], ["S", pb + 4, 3890, 10, 1, 0, 1]],
                           kind="finding-reset-double-count"))
        cases.append(_case(subject, 3000, 4000, [["B", [["R", pb, 2500], ["S", pb, 2400, 100, 1, 0, 1]]]], kind="finding-reset-double-count"))
        # F-C07-2: in-order CRYPTO data is buffered by the TLS layer up to the announced message length (2^24-1)
        cases.append(_case(subject, 1000, 4000, [["Ct", 1150]] * 470, kind="finding-tls-reassembly"))
        # F-C07-3: one remote_challenges queue per source address, the number of paths is not bounded
        cases.append(_case(subject, 1000, 4000, [["Pa", i, 32] for i in range(60)], kind="finding-paths"))
    return cases


# ------------------------------------------------------------------------------ driver
def _ops(c):
    return c["ops"]


def _rebuild(c, ops):
    d = dict(c)
    d["ops"] = ops
    return d


def _opname(o):
    return o[0]


def _nontrivial(c, out):
    # at least one frame was judged on the real connection and something observable happened
    return len(out) > 0 and any(o[0] in ("S", "R", "B", "C", "P", "N", "T", "D", "K") for o in c["ops"])


def _simplify(op):
    if op[0] == "B" and len(op[1]) > 1:
        for i in range(len(op[1])):
            yield ["B", op[1][:i] + op[1][i + 1:]]
    if op[0] == "D":
        for i in range(len(op[4])):
            if len(op[4]) > 1:
                yield op[:4] + [op[4][:i] + op[4][i + 1:]] + op[5:]
        if len(op) > 5 and op[5] != -1:
            yield op[:5]
        if op[2] == "late":
            yield [op[0], op[1], "time"] + op[3:]
        if op[3] == "separate":
            yield op[:3] + ["ack-first"] + op[4:]
    if op[0] == "S" and op[3] > 1:
        yield ["S", op[1], op[2] + op[3] - 1, 1, op[4], op[5], 1]


CANDIDATE_SIG = {"oracle": "over_limit", "congested": True, "got": None}


def run_candidates(ctx, s, cases):
    """The 22 inputs that probe the window between a limit doubled in memory and the value on the wire (finding C07-F4, fixed in
    /repo by 825d3fa).  They are REGRESSION WITNESSES: ordinary cases of the tie (model comparison, oracle (i) and (ii), shrinking,
    VIOLATION with a concrete replay).  On a tree that assigns a raised limit only next to the written frame every one of them
    closes with FLOW_CONTROL_ERROR / STREAM_LIMIT_ERROR; on a tree that raises before start_frame() the oracle reports "beyond an
    advertised limit ... stayed open" as impl-violations (the model follows the probed flag, so there is no disagreement)."""
    fams = collections.OrderedDict()
    for c in cases:
        fams.setdefault(c["kind"], []).append(c)
    for fam in fams.values():
        s.run(fam)
    hits = []
    for c in cases:
        bad = oracle(c)
        if bad is not None:
            hits.append({"what": bad[0], "signature": bad[1]})
    return {"cases": len(cases), "oracle_failures": len(hits), "signature_when_failing": CANDIDATE_SIG,
            "example": hits[0] if hits else None}


def suite(ctx):
    return corr.Suite(ctx, "connlimits", "exec_connlimits_cut", encode, impl, oracle, _ops, _rebuild,
                      nontrivial=_nontrivial, opname=_opname, simplify=_simplify)


def suite_long(ctx):
    """same tie, for the long repetition cases: no shrinking (one evaluation costs a second)"""
    return corr.Suite(ctx, "connlimits-long", "exec_connlimits_cut", encode, impl, oracle, None, None,
                      nontrivial=_nontrivial, opname=_opname)


def run(ctx):
    import resource
    try:   # the C10 receiver model zero-fills gaps with a non-tail-recursive list function: deep stack for the driver
        hard = resource.getrlimit(resource.RLIMIT_STACK)[1]
        resource.setrlimit(resource.RLIMIT_STACK, (hard, hard))
    except Exception:
        pass
    s = suite(ctx)
    sl = suite_long(ctx)
    s.run(corr.load_corpus("C07", s.name), "corpus")
    sl.run(corr.load_corpus("C07", sl.name), "corpus")
    rng = ctx.rng
    cases = gen_boundary() + gen_final_size() + gen_repetition(rng, ctx.thorough) + gen_lost_limits()
    # one batch per family: corr.Suite reports at most three failing cases per batch
    fams = collections.OrderedDict()
    for c in cases:
        fams.setdefault(c["kind"].split("-")[0] + ("-cross" if c["kind"].endswith("cross") else ""), []).append(c)
    for fam in fams.values():
        s.run(fam)
    # delivery outcomes of limit-advertising packets x boundary frames x order (docs/C07.md "Delivery outcomes")
    dfams = collections.OrderedDict()
    for c in pick_delivery(gen_delivery(), ctx.thorough):
        dfams.setdefault(c["kind"], []).append(c)
    for fam in dfams.values():
        s.run(fam)
    s.run(gen_random(rng, ctx.n(120, 3000)))
    s.run(gen_random(rng, ctx.n(150, 3000), deliveries=True))
    # write passes cut short by QuicPacketBuilderStop (docs/C07.md "Cut write passes")
    cut_cases, cut_cand = gen_cut()
    cfams = collections.OrderedDict()
    for c in cut_cases:
        cfams.setdefault(c["kind"], []).append(c)
    for fam in cfams.values():
        s.run(fam)
    candidates = run_candidates(ctx, s, cut_cand)
    found = gen_findings(ctx.thorough)
    for kind in ("finding-reset-double-count",):
        s.run([c for c in found if c["kind"] == kind])
    for kind in ("finding-tls-reassembly", "finding-paths"):
        sl.run([c for c in found if c["kind"] == kind])
    return corr.merge_coverage(
        [s, sl],
        "puppet-driven frame sequences on a real QuicConnection after a real handshake (boundary tables on all four stream types "
        "and both roles, final-size interplay, stream-count, repetition of PATH_CHALLENGE / NEW_CONNECTION_ID / CRYPTO, never-completed "
        "streams, delivery outcomes (ACKED / LOST by packet or time threshold) of the packets that advertised raised limits x frames at "
        "the boundary old..new limit x order of the revealing ACK and the frames, random mostly-within-limit histories interleaved with the "
        "subject's own limit raises and such delivery outcomes); distinct = distinct projected "
        "op trace, non-trivial = at least one peer frame processed and an observable produced",
        {"delivery_outcomes": dict(sorted(_DELIVERY.items())), "cut_passes": dict(sorted(_CUT.items())),
         "regression_witnesses_C07_F4": candidates})


def replay(ctx, rep):
    s = suite(ctx)
    case = rep["case"]
    d, e, g = s.disagree(case)
    return {"disagree": d, "impl": e, "model": g, "oracle": oracle(case)}
