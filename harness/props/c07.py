"""C07  Receive-side limits are enforced and buffering stays bounded.

Tie: a real QuicConnection (harness/sim Pair) completes a handshake; a key-holding peer PUPPET then
sends hand-built frames (and ACK frames that decide the fate of the subject's limit-advertising packets: acknowledged, or
skipped so that the packet / time threshold declares them lost, placed before or after the peer's STREAM / RESET_STREAM
frames of the same datagram, or in a datagram of their own with or without a write pass before the next one).
From each run the harness projects the abstract op trace consumed by
coq/model/ConnLimits.v (frames received, write passes, lost MAX_* frames) and the public
observables (stream events, MAX_* / PATH_RESPONSE / RETIRE_CONNECTION_ID frames on the wire,
CONNECTION_CLOSE code + frame type); the extracted model must print exactly these.

Implementation oracle (independent of the model), run on every case:
 (i)  peer's-eye flow-control ledger built only from what was on the wire (transport parameters
      from the peer's qlog, MAX_* frames seen by the wire observer): a frame beyond an advertised
      limit must close the connection with the matching code; a peer within all advertised limits
      and final-size consistent must never see FLOW_CONTROL_ERROR / STREAM_LIMIT_ERROR /
      FINAL_SIZE_ERROR;
 (ii) bytes held, measured without private names: walk of the object graph reachable from the
      connection (gc.get_referents) summing len() of every bytes/bytearray; growth since the
      post-handshake baseline must stay within advertised max_data + MAX_PENDING_CRYPTO (if CRYPTO
      was sent) + a fixed slack;
 (iii) every cap of `buffer_bounded`, checked on the real connection by LABELLED PEEK (private reads, named in CapPeek)
      after EVERY peer frame (the frame-handler table of the subject is wrapped by an observer that runs after a handler
      returned normally) and after every datagram: pending RETIRE_CONNECTION_ID, active connection IDs, remote challenges
      per path and in total, network paths, local challenges, CRYPTO reassembly buffers, the TLS message buffer, stream
      reassembly buffers against the windows seen on the wire.  The caps come from the tree's constants
      (tools/gen/c07_consts.py caps()), not from the model.  A cap exceeded after an accepted frame is a violation."""
import collections
import gc
import importlib.util
import json
import logging
import os
import types

from vlib import core, corr

GENERATORS = ["c07_consts"]
DEPENDS = ["ConnLimits", "ConnLimitsCut", "ConnLimitsP", "ConnLimitsBurst", "ConnLimitsMsd", "ConnLimitsCutP", "ConnLimitsDeliv", "StreamRecv", "StreamRecvP", "RangeSet", "C07Consts", "Base", "Tok", "C07"]
TRUSTED_BASE = [
    "extraction (ExtrOcamlBasic only) + coq/extract/driver.ml for running coq/model/ConnLimits.v",
    "harness/sim (Pair, wire observer, peer puppet: packet protection via aioquic's own CryptoContext; independent frame builders/parser)",
    "projection of a run to the model's op trace (harness/props/c07.py Runner): one op per frame the puppet sent, one Write per "
    "datagrams_to_send pass, LimitLost / StreamLimitLost per MAX_* frame of a packet that left the subject's set of in-flight packets "
    "without having been acknowledged by the puppet (one private read: conn._loss.spaces[-1].sent_packets, used for the projection "
    "only, never for a verdict), placed where the revealing ACK frame stood among the peer frames of that datagram",
    "oracle (iii) CapPeek: private reads of the lengths of the capped collections (conn._retire_connection_ids, _peer_cid_available, "
    "_network_paths[*].remote_challenges, _local_challenges, _crypto_streams[*].receiver._buffer, tls._receive_buffer, "
    "_streams[*].receiver._buffer, _close_pending / _close_event) and an observer wrapped around the entries of "
    "conn._QuicConnection__frame_handlers (calls the original handler, looks after it returned); caps from tools/gen/c07_consts.py caps()",
    "modelled, not verified: the receive-side limit logic of connection.py as Gallina functions; TLS, packet building, pacing, "
    "congestion control and the ack queue are outside the model",
    "tools/gen/c07_consts.py (ast) for the constants",
]
ASSUMPTIONS = [
    "stream ids, offsets, lengths and final sizes are non-negative (wire varints)",
    "a write pass is not cut short by QuicPacketBuilderStop (packet/flight full): the tie checks the frames of each pass",
]

UVM = (1 << 62) - 1
SLACK = 4096
_LIMIT_NAMES = {"MAX_DATA": 0x10, "MAX_STREAM_DATA": 0x11, "MAX_STREAMS_BIDI": 0x12, "MAX_STREAMS_UNI": 0x13,
                "PATH_RESPONSE": 0x1B, "RETIRE_CONNECTION_ID": 0x19}
ACCUSE = {3: "FLOW_CONTROL_ERROR", 4: "STREAM_LIMIT_ERROR", 6: "FINAL_SIZE_ERROR"}


def _data(n, seed):
    return bytes(((i * 7 + seed) & 0xFF) for i in range(n))


# ------------------------------------------------------------------------------ measuring
_SKIP = (types.ModuleType, type, types.FunctionType, types.BuiltinFunctionType, types.CodeType, types.FrameType,
         types.GetSetDescriptorType, types.MemberDescriptorType, types.WrapperDescriptorType, types.MethodDescriptorType,
         str, int, float, bool, type(None), logging.Logger, logging.Manager, logging.Handler)


def reachable_bytes(root, max_depth=16):
    """Sum of len() of every bytes / bytearray object reachable from root (deque / list / dict
    elements included) through gc.get_referents, skipping modules, classes, functions, loggers."""
    seen = set()
    total = 0
    stack = [(root, 0)]
    while stack:
        o, d = stack.pop()
        i = id(o)
        if i in seen:
            continue
        seen.add(i)
        if isinstance(o, (bytes, bytearray)):
            total += len(o)
            continue
        if isinstance(o, _SKIP) or d >= max_depth:
            continue
        for r in gc.get_referents(o):
            if not isinstance(r, _SKIP):
                stack.append((r, d + 1))
    return total


# ------------------------------------------------------------------------------ oracle (iii): caps by labelled peek
_CAPS = None


def caps():
    """documented caps of the tree under test, from tools/gen/c07_consts.py (ast of the source; not from the model)"""
    global _CAPS
    if _CAPS is None:
        root = os.path.dirname(os.path.dirname(os.path.dirname(os.path.abspath(__file__))))
        spec = importlib.util.spec_from_file_location("c07_consts_caps", os.path.join(root, "tools", "gen", "c07_consts.py"))
        mod = importlib.util.module_from_spec(spec)
        spec.loader.exec_module(mod)
        _CAPS = mod.caps()
    return _CAPS


class CapPeek:
    """Observer of the bounded collections of `buffer_bounded` on the subject connection.  LABELLED PEEKS (private names,
    read only, each guarded: a name that does not exist is counted in `unavailable`):
      retire_queue       len(conn._retire_connection_ids)         <= min(4 * active_connection_id_limit, MAX_PENDING_RETIRES)
                                                                     (+ RETIRE_CONNECTION_ID frames of packets the subject declared lost:
                                                                      the delivery callback queues them again)
      active_cids        1 + len(conn._peer_cid_available)         <= active_connection_id_limit
      remote_challenges  max len(path.remote_challenges)           <= MAX_REMOTE_CHALLENGES   (conn._network_paths + the path of the
                                                                                               packet being processed)
      challenges_total   sum len(path.remote_challenges)           <= MAX_NETWORK_PATHS * MAX_REMOTE_CHALLENGES
      network_paths      len(conn._network_paths)                  <= MAX_NETWORK_PATHS
      local_challenges   len(conn._local_challenges)               <= MAX_LOCAL_CHALLENGES
      crypto_buffer      max len(conn._crypto_streams[*].receiver._buffer)   <= MAX_PENDING_CRYPTO
      tls_buffer         len(conn.tls._receive_buffer)             <  max(4, MAX_HANDSHAKE_MESSAGE_SIZE)
      stream_buffer      len(stream.receiver._buffer) per stream   <= largest MAX_STREAM_DATA seen on the wire for it (else the
                                                                     transport parameter)
      stream_buffers     sum over conn._streams                    <= largest MAX_DATA seen on the wire (else the transport parameter)
    The per-frame observer wraps the entries of conn._QuicConnection__frame_handlers (it calls the original handler and,
    when that returned normally, looks; exceptions pass through untouched)."""

    def __init__(self, runner):
        self.r = runner
        self.conn = runner.sub.conn
        self.k = caps()
        self.peak = {}
        self.over = {}            # label -> (size, cap, where)
        self.checks = 0
        self.frame_checks = 0
        self.unavailable = set()
        self.frame_no = 0
        self.hooked = self._install()

    def _install(self):
        try:
            table = self.conn._QuicConnection__frame_handlers
            for ft, (h, ep) in list(table.items()):
                table[ft] = (self._wrap(h), ep)
            return True
        except Exception:
            self.unavailable.add("frame_handlers")
            return False

    def _wrap(self, h):
        def observed(context, frame_type, buf):
            h(context, frame_type, buf)
            self.frame_no += 1
            self.frame_checks += 1
            self.check("frame #%d (type 0x%x) of datagram #%d" % (self.frame_no, frame_type, self.r.stats["packets"] + 1),
                       getattr(context, "network_path", None))
        return observed

    def _get(self, label, fn):
        try:
            return fn()
        except Exception:
            self.unavailable.add(label)
            return None

    def sizes(self, path=None):
        c, k, r = self.conn, self.k, self.r
        out = {}
        n = self._get("retire_queue", lambda: len(c._retire_connection_ids))
        if n is not None:
            out["retire_queue"] = (n, min(4 * k["LOCAL_ACTIVE_CID_LIMIT"], k["MAX_PENDING_RETIRES"]) + r._retire_requeued())
        n = self._get("active_cids", lambda: 1 + len(c._peer_cid_available))
        if n is not None:
            out["active_cids"] = (n, k["LOCAL_ACTIVE_CID_LIMIT"])
        paths = self._get("network_paths", lambda: list(c._network_paths))
        if paths is not None:
            if k["NETWORK_PATHS_CAP"] is not None:
                out["network_paths"] = (len(paths), k["NETWORK_PATHS_CAP"])
            if path is not None and all(p is not path for p in paths):
                paths = paths + [path]
            q = self._get("remote_challenges", lambda: [len(p.remote_challenges) for p in paths])
            if q:
                out["remote_challenges"] = (max(q), k["MAX_REMOTE_CHALLENGES"])
                if k["NETWORK_PATHS_CAP"] is not None:
                    out["challenges_total"] = (sum(q), (k["NETWORK_PATHS_CAP"] + (1 if path is not None else 0)) * k["MAX_REMOTE_CHALLENGES"])
        n = self._get("local_challenges", lambda: len(c._local_challenges))
        if n is not None:
            out["local_challenges"] = (n, k["MAX_LOCAL_CHALLENGES"])
        n = self._get("crypto_buffer", lambda: max(len(s.receiver._buffer) for s in c._crypto_streams.values()))
        if n is not None:
            out["crypto_buffer"] = (n, k["MAX_PENDING_CRYPTO"])
        if k["TLS_MESSAGE_CAP"] is not None:
            n = self._get("tls_buffer", lambda: len(c.tls._receive_buffer))
            if n is not None:
                out["tls_buffer"] = (n, max(4, k["TLS_MESSAGE_CAP"]) - 1)
        st = self._get("stream_buffer", lambda: [(sid, len(s.receiver._buffer)) for sid, s in c._streams.items()])
        if st is not None:
            worst = None
            for sid, n in st:
                cap = r._adv_msd(sid)
                if worst is None or n - cap > worst[0] - worst[1]:
                    worst = (n, cap)
            if worst is not None:
                out["stream_buffer"] = worst
            out["stream_buffers"] = (sum(n for _, n in st), r.adv_data)
        return out

    def check(self, where, path=None, frame=True):
        """frame=True: called right after a frame handler returned normally (the frame was accepted).  frame=False: after
        receive_datagram returned -- judged only while no close is pending (the frame that raised left its collection
        one step over the cap; the connection is going away)."""
        opened = self._get("state", lambda: not self.conn._close_pending and self.conn._close_event is None)
        if opened is False or (opened is None and not frame):
            return
        self.checks += 1
        for label, (size, cap) in self.sizes(path).items():
            if size > self.peak.get(label, 0):
                self.peak[label] = size
            if size > cap and label not in self.over:
                self.over[label] = (size, cap, where)
                self.r._fail("%s: %d after %s, documented bound %d; %s%s"
                             % (_CAP_TEXT.get(label, label), size, where, cap,
                                "the frame was accepted" if frame else "every frame of the datagram was accepted",
                                " and the connection is still open" if opened else ""),
                             oracle="cap", cap=label)


_CAP_TEXT = {
    "retire_queue": "RETIRE_CONNECTION_ID frames queued (_retire_connection_ids)",
    "active_cids": "active peer connection IDs (1 + _peer_cid_available)",
    "remote_challenges": "path challenges queued on one path (remote_challenges)",
    "challenges_total": "path challenges queued over all paths",
    "network_paths": "network paths remembered (_network_paths)",
    "local_challenges": "local challenges remembered (_local_challenges)",
    "crypto_buffer": "bytes in a CRYPTO reassembly buffer",
    "tls_buffer": "bytes in the TLS handshake-message buffer",
    "stream_buffer": "bytes in a stream reassembly buffer (bound: the window on the wire for that stream)",
    "stream_buffers": "bytes in all stream reassembly buffers (bound: MAX_DATA on the wire)",
}


# ------------------------------------------------------------------------------ the run
class Closed(Exception):
    pass


class Runner:
    """Executes one case on a real connection.  Produces: model input tokens (projected op trace),
    expected model output tokens (public observables), oracle verdict."""

    def __init__(self, case, measure=True):
        from sim import Pair, Puppet, F, ApiRaised
        import aioquic.quic.connection as qc
        logging.getLogger("quic").setLevel(logging.CRITICAL)
        self.F, self.ApiRaised = F, ApiRaised
        self.case = case
        subj = case["subject"]
        other = "client" if subj == "server" else "server"
        cfg = {"max_data": case["md"], "max_stream_data": case["msd"]}
        kw = {"server_config": cfg, "server_qlog": False} if subj == "server" else {"client_config": cfg, "client_qlog": False}
        self.pair = pair = Pair(case.get("seed", 1), **kw)
        if not pair.handshake():
            raise RuntimeError("handshake failed")
        pair.run_until_idle()
        self.pup = pup = Puppet(pair, as_side=other)
        pup.isolate_real()
        self.sub = pair.endpoint(subj)
        self.peer = pair.endpoint(other)
        self.dir = "s2c" if subj == "server" else "c2s"
        self.is_client = subj == "client"
        self.mark = len(pair.observer.packets)
        self.max_pending_crypto = qc.MAX_PENDING_CRYPTO
        self.max_remote_challenges = qc.MAX_REMOTE_CHALLENGES
        self.crypto_base = pup.crypto_offset("1rtt")
        self.min_in = [int(self.is_client), case["msd"], case["md"], self.crypto_base]
        for p in pair.observer.packets:      # NEW_CONNECTION_ID frames the subject received during the handshake
            if p.direction != self.dir and p.decrypted and not p.injected:
                for f in p.frames:
                    if f.name == "NEW_CONNECTION_ID":
                        self.min_in += [10, f.fields["sequence_number"], f.fields["retire_prior_to"]]
        self.mout = []
        self.bad = None            # oracle verdict (what, signature)
        self.closed = None         # (code, frame_type) seen in CONNECTION_CLOSE
        self.raised = None
        self.stats = collections.Counter()
        # ---- oracle (i) state: only what the peer can know
        tp = self._remote_params()
        self.adv_data = tp["initial_max_data"]
        self.adv_msd_init = {"bidi_local": tp["initial_max_stream_data_bidi_local"],
                             "bidi_remote": tp["initial_max_stream_data_bidi_remote"],
                             "uni": tp["initial_max_stream_data_uni"]}
        self.adv_streams = {False: tp["initial_max_streams_bidi"], True: tp["initial_max_streams_uni"]}
        self.adv_msd = {}
        self.peer_hi = {}          # sid -> highest end offset / final size the peer has used
        self.peer_final = {}
        self.peer_odd = set()      # streams on which the peer was itself inconsistent: not judged
        self.peer_cov = {}         # sid -> merged [start, end) intervals the peer has sent
        self.peer_done = set()     # streams the peer has completed (RESET, or FIN with every byte sent): the receiver may
                                   # have discarded their state and then ignores frames; an over-limit frame is not required to close
        self.local_open = set()
        self.sent_crypto = False
        self.crypto_gap = False    # some CRYPTO frame was sent out of order
        self.sent_stream = False
        self.sent_reset = False
        self.multi_addr = False
        self.crypto_next = self.crypto_base
        self.measure = measure
        self.baseline = reachable_bytes(self.sub.conn) if measure else 0
        self.max_growth = 0
        self.subject_pns = []
        self.lost_done = set()     # packets the puppet decided never to acknowledge
        self.acked_done = set()    # packets the puppet has acknowledged
        self.lost_seen = set()     # limit packets whose loss has been projected to the model trace
        self.congested = False     # after a bulk step ("K"): the subject's congestion window is exhausted, the builder may
                                   # refuse frames; every write pass is projected as WriteCut (model/ConnLimitsCut.v)
        self.bulk_bytes = 0
        self._stash = ([], [])     # (expectations, frames) of the datagrams delivered since the last write pass ("Bn": no pump)
        self.peek = CapPeek(self)  # oracle (iii)

    def _retire_requeued(self):
        """RETIRE_CONNECTION_ID frames the subject may have queued AGAIN: those of its packets that it no longer tracks
        as in flight and that the puppet never acknowledged (declared lost: _on_retire_connection_id_delivery appends)"""
        out = None
        n = 0
        for pn, names, _ in self.subject_pns:
            if "RETIRE_CONNECTION_ID" in names and pn not in self.acked_done:
                if out is None:
                    out = self._outstanding()
                if pn not in out:
                    n += sum(1 for x in names if x == "RETIRE_CONNECTION_ID")
        return n

    # -- helpers -----------------------------------------------------------------------
    def _remote_params(self):
        for ev in self.peer.qlog_events():
            if ev["name"] == "transport:parameters_set" and ev["data"].get("owner") == "remote":
                d = ev["data"]
                return {k: int(d.get(k, 0)) for k in (
                    "initial_max_data", "initial_max_stream_data_bidi_local", "initial_max_stream_data_bidi_remote",
                    "initial_max_stream_data_uni", "initial_max_streams_bidi", "initial_max_streams_uni")}
        raise RuntimeError("peer qlog has no remote transport parameters")

    def _fail(self, what, **sig):
        if self.congested:
            sig["congested"] = True
        if self.bad is None:
            self.bad = (what, sig)

    def _live_streams(self):
        """stream ids whose state the subject still holds after a write pass (a private read, congested runs only, used
        for the projection only): the model discards the finished streams that are NOT in this list -- the loop that
        discards them also writes STREAM frames and can be stopped by the builder"""
        try:
            return [int(k) for k in self.sub.conn._streams.keys()]
        except Exception:
            return []

    def _pending_raise(self):
        """evidence only: is some limit raised but not advertised (value != sent) right now?"""
        try:
            c = self.sub.conn
            ls = [c._local_max_data, c._local_max_streams_bidi, c._local_max_streams_uni]
            return any(l.value != l.sent for l in ls) or any(
                st.max_stream_data_local != st.max_stream_data_local_sent for st in c._streams.values())
        except Exception:
            return False

    def _adv_msd(self, sid):
        if sid in self.adv_msd:
            return self.adv_msd[sid]
        if sid & 2:
            return self.adv_msd_init["uni"]
        # a bidirectional stream: opened by the subject -> its bidi_local value, by the peer -> bidi_remote
        subject_initiated = ((sid & 1) == 0) == self.is_client
        return self.adv_msd_init["bidi_local" if subject_initiated else "bidi_remote"]

    # -- oracle (i): classify a frame before it is sent -----------------------------------
    def _expect(self, fr):
        """-> (set of acceptable accusation codes, or None when the frame is within every advertised limit,
               judged?)"""
        k = fr[0]
        if k == "S":
            sid, off, n, fin = fr[1], fr[2], fr[3], bool(fr[5])
            end = off + n
            if end > UVM:
                return None, False
        elif k == "R":
            sid, end, fin = fr[1], fr[2], True
        elif k == "T":
            # MAX_STREAM_DATA (0x11) / STREAM_DATA_BLOCKED (0x15): carries no data; it may create a peer-initiated
            # stream and is then subject to the stream-count limit only
            ft, sid = fr[1], fr[2]
            subject_initiated = ((sid & 1) == 0) == self.is_client
            if subject_initiated:
                if sid not in self.local_open or (ft == 0x15 and (sid & 2)):
                    return None, False     # wrong initiator / direction: STREAM_STATE_ERROR, not part of the property
                return None, True
            if ft == 0x11 and (sid & 2):
                return None, False         # MAX_STREAM_DATA for a stream the subject cannot send on
            if sid // 4 + 1 > self.adv_streams[bool(sid & 2)]:
                return {4}, True
            return None, True
        else:
            return None, False
        subject_initiated = ((sid & 1) == 0) == self.is_client
        if subject_initiated and ((sid & 2) or sid not in self.local_open):
            return None, False     # wrong direction / initiator: STREAM_STATE_ERROR, not part of the property
        if sid in self.peer_odd:
            return None, False
        bad = set()
        if not subject_initiated and sid // 4 + 1 > self.adv_streams[bool(sid & 2)]:
            bad.add(4)
        if end > self._adv_msd(sid):
            bad.add(3)
        hi = self.peer_hi.get(sid, 0)
        total = sum(self.peer_hi.values())
        if total + max(0, end - hi) > self.adv_data:
            bad.add(3)
        fs = self.peer_final.get(sid)
        if fs is not None and (end > fs or (fin and end != fs)):
            bad.add(6)
        if bad:
            if sid in self.peer_done:
                return None, False
            return bad, True
        if fin and end < hi:
            # the peer itself shrinks below what it already sent (RFC 9000 4.5 wants FINAL_SIZE_ERROR, the
            # code accepts it): outside the statement, the stream is not judged from here on
            self.peer_odd.add(sid)
            return None, False
        self.peer_hi[sid] = max(hi, end)
        if fin:
            self.peer_final[sid] = end
        if k == "R":
            self.peer_done.add(sid)
        else:
            cov = self.peer_cov.get(sid, [])
            if end > off:
                cov = sorted(cov + [(off, end)])
                merged = [cov[0]]
                for a, b in cov[1:]:
                    if a <= merged[-1][1]:
                        merged[-1] = (merged[-1][0], max(merged[-1][1], b))
                    else:
                        merged.append((a, b))
                self.peer_cov[sid] = cov = merged
            fs2 = self.peer_final.get(sid)
            if fs2 is not None and (fs2 == 0 or (cov and cov[0][0] == 0 and cov[0][1] >= fs2)):
                self.peer_done.add(sid)
        return None, True

    # -- wire collection ---------------------------------------------------------------
    def _collect(self):
        obs = self.pair.observer
        new = obs.packets[self.mark:]
        self.mark = len(obs.packets)
        frames = []
        for p in new:
            if p.direction != self.dir or p.injected or not p.decrypted:
                continue
            if p.type == "1rtt":
                self.subject_pns.append((p.pn, [f.name for f in p.frames], [dict(f.fields) for f in p.frames]))
            for f in p.frames:
                if f.name == "CONNECTION_CLOSE" and self.closed is None:
                    self.closed = (f.fields["error_code"], f.fields["frame_type"])
                elif f.name in ("MAX_DATA", "MAX_STREAMS_BIDI", "MAX_STREAMS_UNI"):
                    frames.append((_LIMIT_NAMES[f.name], 0, f.fields["maximum"]))
                elif f.name == "MAX_STREAM_DATA":
                    frames.append((0x11, f.fields["stream_id"], f.fields["maximum"]))
                elif f.name == "PATH_RESPONSE":
                    frames.append((0x1B, 0, int.from_bytes(f.fields["data"], "big")))
                elif f.name == "RETIRE_CONNECTION_ID":
                    frames.append((0x19, 0, f.fields["sequence_number"]))
        return frames

    def _write(self, dt=0.03):
        """one (or more, idempotent) write passes of the subject = model op Write"""
        before = self._outstanding()
        self.pair.advance(dt)
        self.pair.pump(self.sub)
        frames = self._collect()
        toks = self._declared_lost(before)     # loss-detection timer fired during advance(): LOST callbacks, then the write pass
        if toks:
            self.stats["loss_by_timer"] += 1
        self.min_in += toks
        if self.congested:
            # budget = the modelled frames this step's datagrams_to_send() calls put on the wire (as in C18)
            keep = self._live_streams()
            self.min_in += [12, len(frames), len(keep)] + keep
            self.stats["cut_passes"] += 1
            if self._pending_raise():
                self.stats["cut_passes_with_unadvertised_raise"] += 1
        else:
            self.min_in.append(4)
        if self.closed is not None:
            self.mout += [3, self.closed[0], self.closed[1]]
            raise Closed()
        self.mout += [2, len(frames)]
        for ft, a, b in frames:
            self.mout += [ft, a, b]
            # oracle (i): what is advertised on the wire
            if ft == 0x10:
                self.adv_data = max(self.adv_data, b)
            elif ft == 0x11:
                self.adv_msd[a] = max(self._adv_msd(a), b)
            elif ft == 0x12:
                self.adv_streams[False] = max(self.adv_streams[False], b)
            elif ft == 0x13:
                self.adv_streams[True] = max(self.adv_streams[True], b)
        nresp = sum(1 for f in frames if f[0] == 0x1B)
        if nresp > self.max_remote_challenges:
            self._fail("%d PATH_RESPONSE frames in one write pass: more than MAX_REMOTE_CHALLENGES challenges were queued" % nresp,
                       oracle="challenge_queue", count=nresp)
        self.stats["writes"] += 1
        self.stats["limit_frames"] += sum(1 for f in frames if f[0] in (0x10, 0x11, 0x12, 0x13))

    def _events(self):
        from aioquic.quic import events as ev
        for e in self.sub.drain_events():
            if isinstance(e, ev.StreamDataReceived):
                self.mout += [10, e.stream_id, int(e.end_stream), len(e.data)] + list(e.data)
            elif isinstance(e, ev.StreamReset):
                self.mout += [11, e.stream_id]

    def _measure(self):
        if not self.measure:
            return
        g = reachable_bytes(self.sub.conn) - self.baseline
        self.max_growth = max(self.max_growth, g)
        allow = ((self.adv_data if self.sent_stream else 0) + (self.max_pending_crypto if self.sent_crypto else 0) + SLACK
                 + self.bulk_bytes)      # the subject's own unacknowledged bulk data sits in its send buffer
        if g > allow:
            self._fail("bytes reachable from the connection grew by %d, more than %s%sslack %d"
                       % (g, "advertised max_data %d + " % self.adv_data if self.sent_stream else "",
                          "MAX_PENDING_CRYPTO %d + " % self.max_pending_crypto if self.sent_crypto else "", SLACK),
                       oracle="buffer_bound", crypto=self.sent_crypto, crypto_in_order=self.sent_crypto and not self.crypto_gap,
                       multi_addr=self.multi_addr, streams=self.sent_stream)

    # -- one packet from the puppet -------------------------------------------------------
    def _frame_bytes(self, fr):
        F = self.F
        k = fr[0]
        if k == "S":
            _, sid, off, n, seed, fin, expoff = fr
            with_off = bool(expoff) or off != 0
            ft = 0x08 | (4 if with_off else 0) | 2 | (1 if fin else 0)
            d = _data(n, seed)
            self.min_in += [0, ft, sid, off, n] + list(d)
            self.sent_stream = True
            return F.stream(sid, off, d, fin=bool(fin), explicit_len=True, explicit_offset=with_off)
        if k == "R":
            self.min_in += [1, fr[1], fr[2]]
            self.sent_stream = True
            self._reset_after = True
            return F.reset_stream(fr[1], 7, fr[2])
        if k == "Ct":      # in-order CRYPTO: a TLS handshake message header announcing 2^24-1 bytes, then its body
            n = fr[1]
            L = fr[2] if len(fr) > 2 else 0xFFFFFF
            d = (bytes([4]) + L.to_bytes(3, "big") + bytes(n))[:n] if self.crypto_next == self.crypto_base else bytes(n)
            off = self.crypto_next
            self.crypto_next += n
            self.min_in += [7, off, n] + list(d)
            self.sent_crypto = True
            return F.crypto(off, d)
        if k == "T":
            self.min_in += [2, fr[1], fr[2]]
            return F.max_stream_data(fr[2], 1) if fr[1] == 0x11 else F.stream_data_blocked(fr[2], 1)
        if k == "C":
            d = _data(fr[2], 3)
            off = self.crypto_base + fr[1] if fr[1] < (1 << 60) else fr[1]   # relative to the receiver's current offset
            self.min_in += [7, off, fr[2]] + list(d)
            self.sent_crypto = True
            self.crypto_gap = True
            return F.crypto(off, d)
        if k == "P":
            self.min_in += [8, fr[1]]
            return F.path_challenge(fr[1].to_bytes(8, "big"))
        if k == "N":
            self.min_in += [10, fr[1], fr[2]]
            return F.new_connection_id(fr[1], fr[2], bytes([0xC0 + (fr[1] & 0x3F)]) * 8, token=bytes([fr[1] & 0xFF]) * 16)
        if k == "G":
            return F.ping()
        raise ValueError(k)

    def _packet(self, frames, write=True, ack=None, ack_first=True, on_received=None):
        """one 1-RTT packet from the puppet.  ack: an ACK frame (bytes) put before (ack_first) or after the frames;
        on_received(pos): called after receive_datagram with the index in the projected op trace at which the
        effects of that ACK frame (delivery callbacks) belong."""
        expects = [self._expect(fr) for fr in frames]
        pos = len(self.min_in)
        payload = [self._frame_bytes(fr) for fr in frames]
        if ack is not None:
            payload = [ack] + payload if ack_first else payload + [ack]
            if not ack_first:
                pos = len(self.min_in)
        data = self.pup.build_packet("1rtt", payload)
        self.peek.frame_no = 0
        try:
            self.sub.receive_datagram(data, self.peer.addr)
            if on_received is not None:
                on_received(pos)
        except self.ApiRaised as exc:
            self.raised = type(exc.exc).__name__
            self._events()
            self.mout += [4]
            self._fail("%s escaped receive_datagram" % self.raised, oracle="no_raise", exception=self.raised)
            raise Closed()
        self.stats["packets"] += 1
        self.stats["frames"] += len(frames)
        self.peek.check("datagram #%d" % self.stats["packets"], frame=False)
        self._events()
        had_reset = self.sent_reset
        if getattr(self, "_reset_after", False):
            self.sent_reset = True
        if not write:
            # no datagrams_to_send() before the next datagram: the verdict on these frames is taken at the next write pass
            self._stash = (self._stash[0] + expects, self._stash[1] + list(frames))
            if frames:
                self.stats["nopump_datagrams"] += 1
            return
        self._write_judged(expects, frames, had_reset)

    def _write_judged(self, expects=(), frames=(), had_reset=None):
        """a write pass, then oracle (i) over the frames delivered since the previous one"""
        expects = self._stash[0] + list(expects)
        frames = self._stash[1] + list(frames)
        self._stash = ([], [])
        if had_reset is None:
            had_reset = self.sent_reset
        first_bad = next((e for e in expects if e[0]), None)
        # frames are processed in order: an unjudged frame (outside the statement, e.g. on a stream the peer itself
        # completed) BEFORE the first over-limit frame may close the connection with a code of its own
        unjudged_before = first_bad is not None and any(not e[1] for e in expects[:expects.index(first_bad)])
        try:
            self._write()
        finally:
            # oracle (i)
            code = self.closed[0] if self.closed else None
            if first_bad is not None:
                self.stats["over_limit_frames"] += 1
                if code not in first_bad[0] and not (unjudged_before and code is not None):
                    self._fail("frame beyond an advertised limit (expected close with one of %s) but %s"
                               % (sorted(first_bad[0]), "connection stayed open" if code is None else "closed with %s" % code),
                               oracle="over_limit", expected=sorted(first_bad[0])[0], got=code)
            elif all(e[1] for e in expects) and code in ACCUSE:
                nres = sum(1 for fr in frames if fr[0] == "R")
                self.sent_reset = had_reset or nres >= (2 if self.closed[1] == 4 else 1)
                self._fail("peer within every advertised limit and final-size consistent was accused: %s, frame type 0x%x"
                           % (ACCUSE[code], self.closed[1]), oracle="accused", code=ACCUSE[code],
                           after_reset=self.sent_reset)

    # -- delivery outcome of a packet that advertised limits --------------------------------------
    _OTHER_RETX = ("RETIRE_CONNECTION_ID", "PATH_RESPONSE", "NEW_CONNECTION_ID", "HANDSHAKE_DONE", "STREAM", "CRYPTO")

    def _limit_packets(self):
        """1-RTT packets of the subject that carry MAX_* frames and whose fate the puppet has not decided yet"""
        return [(pn, names, fields) for pn, names, fields in self.subject_pns
                if pn not in self.lost_done and pn not in self.acked_done and any(n.startswith("MAX_") for n in names)]

    def _outstanding(self):
        """packet numbers the subject's loss recovery still tracks as in flight (application space).  A private
        read, used only to project the run to the model's op trace: a LimitLost / StreamLimitLost op is emitted
        for each MAX_* frame of a packet that left this set without having been acknowledged by the puppet."""
        try:
            return set(self.sub.conn._loss.spaces[-1].sent_packets.keys())
        except Exception:
            return set()

    def _declared_lost(self, before):
        """model tokens for the limit packets that were outstanding in `before`, are not any more, and were never
        acknowledged by the puppet: the subject declared them lost (delivery handlers ran with LOST)"""
        gone = before - self._outstanding()
        toks = []
        for pn, names, fields in self.subject_pns:
            if pn in gone and pn not in self.acked_done and pn not in self.lost_seen \
                    and any(n.startswith("MAX_") for n in names):
                self.lost_seen.add(pn)
                toks += self._loss_tokens(names, fields)
                self.stats["lost_limit_packets"] += 1
                self.stats["lost_limit_frames"] += sum(1 for n in names if n.startswith("MAX_"))
        return toks

    @staticmethod
    def _loss_tokens(names, fields):
        t = []
        for n, f in zip(names, fields):
            if n == "MAX_DATA":
                t += [5, 0]
            elif n == "MAX_STREAMS_BIDI":
                t += [5, 1]
            elif n == "MAX_STREAMS_UNI":
                t += [5, 2]
            elif n == "MAX_STREAM_DATA":
                t += [6, f["stream_id"]]
        return t

    def _ranges(self, pns):
        """ACK ranges (at most the 40 highest) for these packet numbers; what they cover is remembered as acknowledged"""
        ranges = []
        for p in sorted(pns):
            if ranges and ranges[-1][1] == p - 1:
                ranges[-1] = (ranges[-1][0], p)
            else:
                ranges.append((p, p))
        ranges = ranges[-40:]
        self.acked_done.update(p for p in pns if p >= ranges[0][0])
        return ranges

    def _deliver(self, outcome, how, order, frames, which=-1):
        """Decide the fate of one packet of the subject that carries MAX_DATA / MAX_STREAM_DATA / MAX_STREAMS frames
        and send the peer frames `frames` around the ACK frame that reveals it.
          outcome  "lost" | "acked"
          how      "pkt":   the ACK skips the packet and covers >= 3 later ones (packet threshold);
                   "time":  the ACK skips it and covers ONE later packet (gap < 3: time threshold only);
                   "late":  like "time" after 0.25 s of silence (the subject's PTO probes are in flight as well);
          order    "ack-first":  one packet [ACK, frames...]   (loss declared, then the frames, no write pass between)
                   "data-first": one packet [frames..., ACK]
                   "separate":   packet [ACK], then packet [frames...], no datagrams_to_send() in between
                   "write-between": packet [ACK], write pass (re-advertisement), packet [frames...]
          which    index into the undecided limit packets (-1 latest, 0 oldest)"""
        cand = self._limit_packets()
        pick = None
        if cand:
            pick = cand[which if -len(cand) <= which < len(cand) else -1]
            if any(n in self._OTHER_RETX for n in pick[1]):
                pick = None            # other retransmittable content: outside the model
        if pick is None:
            self.stats["deliver_no_limit_packet"] += 1
            if frames:
                self._packet(frames)
            return
        pn = pick[0]
        if outcome == "lost":
            if how == "late":
                self._write(0.25)           # the later packet is sent (and acknowledged) long after the limit packet
                self._packet([["G"]])
            need = 3 if how == "pkt" else 1
            guard = 0
            while max(p for p, _, _ in self.subject_pns) < pn + need and guard < 12:
                guard += 1
                self._packet([["G"]])
            allp = sorted({p for p, _, _ in self.subject_pns})
            if allp[-1] < pn + need:
                self.stats["deliver_no_later_packet"] += 1
                if frames:
                    self._packet(frames)
                return
            self.lost_done.add(pn)
            self.stats["ack_gap_%s" % (">=3" if allp[-1] - pn >= 3 else "<3")] += 1
        allp = sorted({p for p, _, _ in self.subject_pns})
        acked = [p for p in allp if p not in self.lost_done]     # no stragglers: everything else is acknowledged
        ackf = self.F.ack(self._ranges(acked))
        before = self._outstanding()

        def project(pos):
            toks = self._declared_lost(before)
            self.min_in[pos:pos] = toks
            if outcome == "lost":
                self.stats["loss_at_ack" if toks else "loss_not_at_ack"] += 1
            else:
                self.stats["acked_limit_packets"] += 1

        self.stats["deliver_%s_%s_%s" % (outcome, how if outcome == "lost" else "-", order)] += 1
        if order in ("ack-first", "data-first") and frames:
            self._packet(frames, ack=ackf, ack_first=(order == "ack-first"), on_received=project)
        else:
            self._packet([], write=(order == "write-between" or not frames), ack=ackf, on_received=project)
            if frames:
                self._packet(frames)

    def _lose(self):
        """the latest packet carrying MAX_* frames is declared lost (packet threshold); write pass right after"""
        self._deliver("lost", "pkt", "write-between", [])

    # -- the case ----------------------------------------------------------------------------
    def run(self):
        try:
            for op in self.case["ops"]:
                k = op[0]
                if k == "B":
                    self._packet(op[1])
                elif k == "Bn":
                    # a datagram after which the subject does NOT get to transmit (back-to-back arrival)
                    self._packet(op[1], write=False)
                elif k == "W":
                    if self._stash[0]:
                        self._write_judged()
                    else:
                        self._write()
                elif k == "A":
                    # ack everything the subject sent; the ACK packet is followed by a write pass
                    allp = sorted({p for p, _, _ in self.subject_pns if p not in self.lost_done})
                    if allp:
                        self._packet([], ack=self.F.ack(self._ranges(allp)))
                    else:
                        self._write()
                elif k == "O":
                    self.sub.send_stream_data(op[1], b"")
                    self.local_open.add(op[1])
                    self.min_in += [3, op[1]]
                elif k == "L":
                    self._lose()
                elif k == "K":
                    # bulk: the application queues op[1] bytes on a new stream of its own; the puppet acknowledges nothing,
                    # so the congestion window fills and the builder starts refusing in-flight frames
                    sid = self.sub.get_next_available_stream_id()
                    self.sub.send_stream_data(sid, bytes(op[1]), False)
                    self.local_open.add(sid)
                    self.min_in += [3, sid]
                    self.bulk_bytes += op[1]
                    self.congested = True
                    # let the window fill, then wait for the first PTO probe to go out: the next one is due twice as late,
                    # so the steps that follow see write passes with an exhausted window and no probe
                    def quiet():
                        n = len(self.subject_pns)
                        self._write()
                        return len(self.subject_pns) == n
                    phase, guard = 0, 0
                    while phase < 3 and guard < 14:
                        guard += 1
                        q = quiet()
                        if (phase in (0, 2) and q) or (phase == 1 and not q):
                            phase += 1
                    self.stats["cut_fill_steps"] += guard
                elif k == "D":
                    self._deliver(op[1], op[2], op[3], op[4], op[5] if len(op) > 5 else -1)
                elif k == "Pa":    # PATH_CHALLENGE frames from another source address (a path the model does not have)
                    self.multi_addr = True
                    dv = int.from_bytes(bytes([op[1] & 0xFF]) * 8, "big")
                    self.min_in += [11, op[1], op[2]] + [dv] * op[2]
                    data = self.pup.build_packet("1rtt", [self.F.path_challenge(bytes([op[1] & 0xFF]) * 8)] * op[2])
                    self.peek.frame_no = 0
                    self.sub.receive_datagram(data, ("10.9.%d.%d" % (op[1] // 250, op[1] % 250 + 1), 4000 + op[1]))
                    self.stats["packets"] += 1
                    self.peek.check("datagram #%d" % self.stats["packets"], frame=False)
                    self._events()
                    if len(op) > 3 and op[3]:
                        self.stats["nopump_datagrams"] += 1
                    else:
                        self._write()
                else:
                    self._packet([op])
                if op is not self.case["ops"][-1] and self.stats["packets"] % (8 if len(self.case["ops"]) < 100 else 96) == 0:
                    self._measure()
            if self._stash[0]:
                self._write_judged()
        except Closed:
            pass
        self._measure()
        return self


_CACHE = collections.OrderedDict()
_DELIVERY = collections.Counter()     # measured over all distinct cases of this run (goes into the evidence)
_CUT = collections.Counter()
_PEEK = collections.Counter()         # oracle (iii): checks performed
_PEEK_PEAK = {}                       # oracle (iii): largest size seen per capped collection
_DELIVERY_KEYS = ("lost_limit_packets", "lost_limit_frames", "loss_at_ack", "loss_not_at_ack", "loss_by_timer", "acked_limit_packets",
                  "ack_gap_>=3", "ack_gap_<3", "deliver_no_limit_packet", "deliver_no_later_packet")


def _run_case(case):
    key = json.dumps(case, sort_keys=True)
    r = _CACHE.get(key)
    if r is None:
        r = Runner(case).run()
        r_small = {"min": r.min_in, "mout": r.mout, "bad": r.bad, "closed": r.closed, "stats": dict(r.stats),
                   "growth": r.max_growth, "peak": dict(r.peek.peak)}
        _CACHE[key] = r_small
        _PEEK["cases"] += 1
        _PEEK["cases_hooked_per_frame"] += int(r.peek.hooked)
        _PEEK["checks"] += r.peek.checks
        _PEEK["checks_after_a_frame"] += r.peek.frame_checks
        _PEEK["nopump_datagrams"] += r.stats.get("nopump_datagrams", 0)
        for lab, v in r.peek.peak.items():
            _PEEK_PEAK[lab] = max(_PEEK_PEAK.get(lab, 0), v)
        for lab in r.peek.unavailable:
            _PEEK["unavailable_" + lab] += 1
        for k, v in r.stats.items():
            if k in _DELIVERY_KEYS or k.startswith("deliver_"):
                _DELIVERY[k] += v
            if k.startswith("cut_"):
                _CUT[k] += v
        if len(_CACHE) > 4096:
            _CACHE.popitem(last=False)
        r = r_small
    return r


def encode(case):
    return _run_case(case)["min"]


def impl(case):
    return _run_case(case)["mout"]


def oracle(case):
    return _run_case(case)["bad"]


# ------------------------------------------------------------------------------ generators
def _case(subject, msd, md, ops, seed=1, kind="generic"):
    return {"subject": subject, "msd": msd, "md": md, "seed": seed, "ops": ops, "kind": kind}


def _peer_sids(subject):
    """(peer bidi, peer uni, own bidi, own uni) first stream ids for this subject"""
    return (0, 2, 1, 3) if subject == "server" else (1, 3, 0, 2)


def gen_boundary():
    """limit-1 / limit / limit+1 / 2^62-1 for stream data, connection data, final sizes, stream count,
    on all four stream types, for both roles."""
    cases = []
    for subject in ("server", "client"):
        pb, pu, ob, ou = _peer_sids(subject)
        for sid in (pb, pu, ob, ou):
            pre = [["O", sid]] if sid in (ob, ou) else []
            for msd, md in ((1000, 4000), (3000, 2000)):
                lim = min(msd, md)
                for delta in (-1, 0, 1):
                    e = lim + delta
                    # one frame ending exactly at e (data), e by empty frame at offset e, FIN at e, RESET at e
                    cases.append(_case(subject, msd, md, pre + [["S", sid, e - 10, 10, 1, 0, 1]], kind="boundary"))
                    cases.append(_case(subject, msd, md, pre + [["S", sid, e, 0, 1, 1, 1]], kind="boundary"))
                    cases.append(_case(subject, msd, md, pre + [["R", sid, e]], kind="boundary"))
                    # after a raise: fill half, let the subject raise, then probe the new limit
                    half = lim // 2 + 1
                    cases.append(_case(subject, msd, md, pre + [["S", sid, 0, half, 2, 0, 0], ["W"],
                                                                ["S", sid, 2 * lim + delta - 5, 5, 3, 0, 1]], kind="boundary-raised"))
                for off, n in ((UVM, 0), (UVM - 1, 1), (UVM, 1), (UVM - 5, 20)):
                    cases.append(_case(subject, msd, md, pre + [["S", sid, off, n, 1, 0, 1]], kind="boundary-2^62"))
                cases.append(_case(subject, msd, md, pre + [["R", sid, UVM]], kind="boundary-2^62"))
        # stream count: 128th, 129th stream of each peer-initiated type; far beyond; MAX_STREAM_DATA / STREAM_DATA_BLOCKED creating streams
        for base in (pb, pu):
            for cnt in (127, 128, 129, 1 << 40):
                sid = base + 4 * (cnt - 1)
                cases.append(_case(subject, 1000, 4000, [["S", sid, 0, 3, 1, 0, 0]], kind="stream-count"))
                cases.append(_case(subject, 1000, 4000, [["R", sid, 3]], kind="stream-count"))
                cases.append(_case(subject, 1000, 4000, [["T", 0x15, sid]], kind="stream-count"))
            # raise MAX_STREAMS by using more than half, then probe the doubled limit
            s65 = base + 4 * 64
            for cnt in (256, 257):
                cases.append(_case(subject, 1000, 4000, [["S", s65, 0, 1, 1, 0, 0], ["S", base + 4 * (cnt - 1), 0, 1, 1, 0, 0]],
                                   kind="stream-count-raised"))
        # raise one stream-count limit, then probe the OTHER type at its own (unraised) limit, and at the raised value
        for a, b in ((pb, pu), (pu, pb)):
            for cnt in (128, 129, 256):
                cases.append(_case(subject, 1000, 4000, [["S", a + 4 * 64, 0, 1, 1, 0, 0], ["S", b + 4 * (cnt - 1), 0, 1, 1, 0, 0]],
                                   kind="stream-count-cross"))
            cases.append(_case(subject, 1000, 4000, [["S", a + 4 * 64, 0, 1, 1, 0, 0], ["R", b + 4 * 128, 0]], kind="stream-count-cross"))
        cases.append(_case(subject, 1000, 4000, [["T", 0x11, pb + 4 * 128]], kind="stream-count"))
        cases.append(_case(subject, 1000, 4000, [["T", 0x11, pu]], kind="direction"))
        cases.append(_case(subject, 1000, 4000, [["T", 0x11, ob]], kind="direction"))
    return cases


def gen_final_size():
    cases = []
    for subject in ("server", "client"):
        pb, pu, ob, ou = _peer_sids(subject)
        for sid in (pb, pu):
            c = lambda ops, kind="final-size": cases.append(_case(subject, 1000, 4000, ops, kind=kind))
            c([["S", sid, 0, 10, 1, 1, 0], ["S", sid, 10, 1, 1, 0, 1]])            # data beyond FIN (bidi only stays around)
            c([["S", sid, 5, 10, 1, 1, 1], ["S", sid, 0, 16, 1, 0, 0]])            # data beyond a buffered FIN
            c([["S", sid, 5, 10, 1, 1, 1], ["S", sid, 5, 9, 1, 1, 1]])             # FIN moved down
            c([["S", sid, 5, 10, 1, 1, 1], ["R", sid, 15]])                        # RESET agreeing with FIN
            c([["S", sid, 5, 10, 1, 1, 1], ["R", sid, 14]])                        # RESET disagreeing
            c([["S", sid, 5, 10, 1, 1, 1], ["R", sid, 16]])
            c([["R", sid, 20], ["R", sid, 21]])
            c([["S", sid, 5, 10, 1, 0, 1], ["R", sid, 9]])                         # RESET below data already received (accepted by the code)
            c([["S", sid, 5, 10, 1, 0, 1], ["S", sid, 0, 3, 1, 1, 0]])             # FIN below data already received (accepted)
            c([["B", [["S", sid, 0, 10, 1, 1, 0], ["S", sid, 0, 10, 1, 1, 0]]]])   # duplicate FIN frame in one packet
            c([["B", [["R", sid, 20], ["S", sid, 10, 10, 1, 0, 1]]]])              # reset then late data within the final size, same packet
            c([["R", sid, 20], ["S", sid, 10, 10, 1, 0, 1]])                       # ... next packet (uni: stream already discarded)
            c([["B", [["R", sid, 20], ["R", sid, 20]]]])                           # duplicate RESET in one packet
            cases.append(_case(subject, 1000, 700, [["B", [["S", sid, 0, 300, 1, 0, 0]] * 3]], kind="retransmission"))
            cases.append(_case(subject, 1000, 700, [["S", sid, 100, 300, 1, 0, 1]] * 4 + [["S", sid, 0, 400, 1, 0, 0]] * 2, kind="retransmission"))
    return cases


def gen_random(rng, n, deliveries=False):
    cases = []
    for _ in range(n):
        subject = rng.choice(["server", "client"])
        pb, pu, ob, ou = _peer_sids(subject)
        msd = rng.choice([64, 300, 1000, 2500])
        md = rng.choice([100, 700, 2000, 6000])
        ops = []
        sids = [pb, pb + 4, pu, pu + 4, pb + 8]
        if rng.random() < 0.4:
            ops.append(["O", ob])
            sids.append(ob)
        hi = {}
        lim_guess = {"msd": msd, "md": md}
        risky = rng.random() < 0.35
        for _ in range(rng.randint(3, 25)):
            r = rng.random()
            sid = rng.choice(sids)
            h = hi.get(sid, 0)
            if r < 0.55:      # in-limit-ish data: in order, with gaps, duplicates
                mode = rng.random()
                off = h if mode < 0.5 else (h + rng.choice([1, 3, 17]) if mode < 0.8 else rng.randint(0, h))
                nn = rng.choice([0, 1, 5, 40, 200, 900])
                fin = int(rng.random() < 0.1)
                if not risky:
                    room = min(lim_guess["msd"] - off, lim_guess["md"] - sum(hi.values()) - max(0, off - h))
                    if room < 0:
                        continue
                    nn = min(nn, max(0, room - max(0, 0)))
                fr = ["S", sid, off, nn, rng.randrange(256), fin, int(rng.random() < 0.5)]
                hi[sid] = max(h, off + nn)
            elif r < 0.65:    # boundary probe relative to the initial limits (may be above or below the current ones)
                tgt = rng.choice([msd, md, 2 * msd, 2 * md]) + rng.choice([-1, 0, 1])
                nn = rng.choice([0, 1, 7])
                fr = ["S", sid, max(0, tgt - nn), nn, 5, 0, 1]
                hi[sid] = max(h, max(0, tgt - nn) + nn)
            elif r < 0.72:
                fs = rng.choice([h, h, h + 1, h + 30, max(0, h - 1), msd, msd + 1])
                fr = ["R", sid, fs]
                hi[sid] = max(h, fs)
            elif r < 0.76:
                fr = ["T", rng.choice([0x11, 0x15]), rng.choice(sids + [pb + 12])]
            elif r < 0.80:
                fr = ["P", rng.getrandbits(64)]
            elif r < 0.83:
                ops.append(["W"])
                continue
            elif r < 0.86:
                ops.append(["A"])
                continue
            else:             # several frames in one packet (no write pass in between), half of the time together with
                              # the delivery outcome of a packet that advertised limits
                batch = []
                for _ in range(rng.randint(1, 4)):
                    s2 = rng.choice(sids)
                    h2 = hi.get(s2, 0)
                    n2 = rng.choice([1, 20, 150])
                    if not risky:
                        room = min(lim_guess["msd"] - h2, lim_guess["md"] - sum(hi.values()))
                        if room <= 0:
                            continue
                        n2 = min(n2, room)
                    elif rng.random() < 0.3:     # at the boundary of what has been advertised (as far as the generator can tell)
                        n2 = max(1, min(lim_guess["msd"] - h2, lim_guess["md"] - sum(hi.values())) + rng.choice([-1, 0, 0, 1]))
                        n2 = min(n2, 300)
                    batch.append(["S", s2, h2, n2, rng.randrange(256), 0, 1])
                    hi[s2] = h2 + n2
                if deliveries and rng.random() < 0.6:
                    outcome, how = rng.choice(DELIVERY_OUTCOMES)
                    ops.append(["D", outcome, how, rng.choice(DELIVERY_ORDERS[:2] * 2 + DELIVERY_ORDERS[2:]), batch, rng.choice([-1, -1, 0])])
                elif len(batch) > 1:
                    ops.append(["B", batch])
                else:
                    ops += batch
                if max(hi.values() or [0]) * 2 > lim_guess["msd"]:
                    lim_guess["msd"] *= 2
                if sum(hi.values()) * 2 > lim_guess["md"]:
                    lim_guess["md"] *= 2
                continue
            ops.append(fr)
            # the subject doubles a limit once more than half is used
            if max(hi.values() or [0]) * 2 > lim_guess["msd"]:
                lim_guess["msd"] *= 2
            if sum(hi.values()) * 2 > lim_guess["md"]:
                lim_guess["md"] *= 2
        cases.append(_case(subject, msd, md, ops, seed=rng.randint(1, 5),
                           kind=("random-delivery" if deliveries else "random") + ("-risky" if risky else "")))
    return cases


def gen_repetition(rng, thorough=False):
    cases = []
    for subject in ("server", "client"):
        pb, pu, ob, ou = _peer_sids(subject)
        # PATH_CHALLENGE: more than the cap in one packet, and across packets
        cases.append(_case(subject, 1000, 4000, [["B", [["P", 1000 + i] for i in range(40)]]], kind="path-challenge"))
        cases.append(_case(subject, 1000, 4000, [["B", [["P", 7] for i in range(33)]], ["P", 8], ["B", [["P", 9]] * 31]], kind="path-challenge"))
        # NEW_CONNECTION_ID: fill, over-fill, retire bursts
        # (the subject already holds sequence numbers 0..7 from the handshake)
        cases.append(_case(subject, 1000, 4000, [["N", i, 0] for i in range(1, 10)], kind="new-cid"))
        cases.append(_case(subject, 1000, 4000, [["N", 8, 1], ["N", 9, 2], ["N", 10, 2]], kind="new-cid"))
        cases.append(_case(subject, 1000, 4000, [["B", [["N", i, i] for i in range(1, 46)]]], kind="new-cid-retire"))
        cases.append(_case(subject, 1000, 4000, [["N", i, i] for i in range(1, 40)], kind="new-cid-retire"))
        cases.append(_case(subject, 1000, 4000, [["B", [["N", 8, 8]] + [["N", 8 + j, 8] for j in range(1, 8)] + [["N", 16, 16]] +
                                                  [["N", 16 + j, 16] for j in range(1, 8)] + [["N", 24, 24]] + [["N", 24 + j, 24] for j in range(1, 8)]
                                                  + [["N", 32, 32]] + [["N", 32 + j, 32] for j in range(1, 8)] + [["N", 40, 40]]]],
                           kind="new-cid-retire"))
        cases.append(_case(subject, 1000, 4000, [["N", 3, 4]], kind="new-cid"))
        cases.append(_case(subject, 1000, 4000, [["N", 5, 0], ["N", 5, 5], ["N", 5, 5], ["N", 2, 1], ["N", 9, 9], ["N", 9, 7]], kind="new-cid"))
        # never-completed streams: a gap at offset 0 on many streams, highest pushed to the limits
        ops = []
        for i in range(12):
            ops.append(["S", pu + 4 * i, 1, 300, i, 0, 1])
        for i in range(12):
            ops.append(["S", pb + 4 * i, 5, 300, i, 0, 1])
        cases.append(_case(subject, 1000, 4000, ops, kind="never-completed"))
        # one stream, gap at 0, repeatedly push the highest offset to the (doubling) limit with 1-byte frames
        ops = []
        lim = 500
        for i in range(10):
            ops.append(["S", pb, lim - 1, 1, 9, 0, 1])
            lim *= 2
        cases.append(_case(subject, 500, 500, ops, kind="never-completed-doubling"))
        # CRYPTO: out of order data (a gap is kept at the receiver's current offset so nothing reaches TLS)
        cases.append(_case(subject, 1000, 4000, [["C", 10, 100], ["C", 500, 700], ["C", 5, 600], ["C", 2000, 0],
                                                 ["C", 524288 - 1, 2]], kind="crypto"))
        cases.append(_case(subject, 1000, 4000, [["C", 3, 50], ["C", UVM - 10, 11]], kind="crypto"))
        cases.append(_case(subject, 1000, 4000, [["C", 70000, 1000], ["C", 524288, 1]], kind="crypto"))
        cases.append(_case(subject, 1000, 4000, [["C", 7, 10], ["C", 3000000, 10]], kind="crypto"))
        # in-order CRYPTO: a handshake message header announcing a body of L bytes, then part of the body
        for L in (524288 - 4, 524288 - 3, 70000, 0xFFFFFF):
            cases.append(_case(subject, 1000, 4000, [["Ct", 900, L]] * 40, kind="tls-reassembly"))
        cases.append(_case(subject, 1000, 4000, [["Ct", 3, 524288], ["Ct", 1, 524288], ["Ct", 10, 524288]], kind="tls-reassembly"))
    return cases


def gen_lost_limits():
    cases = []
    for subject in ("server", "client"):
        pb, pu, ob, ou = _peer_sids(subject)
        cases.append(_case(subject, 1000, 4000, [["S", pb, 0, 600, 1, 0, 0], ["L"], ["S", pb, 1990, 10, 1, 0, 1], ["S", pb, 2000, 1, 1, 0, 1]],
                           kind="lost-max-stream-data"))
        cases.append(_case(subject, 3000, 2000, [["S", pb, 0, 1001, 1, 0, 0], ["L"], ["S", pb, 1001, 1000, 1, 0, 1], ["L"],
                                                 ["S", pu, 0, 10, 1, 0, 0], ["S", pb, 3999, 2, 1, 0, 1]], kind="lost-max-data"))
        cases.append(_case(subject, 1000, 4000, [["S", pu + 4 * 64, 0, 1, 1, 0, 0], ["L"], ["S", pu + 4 * 255, 0, 1, 1, 0, 0], ["L"],
                                                 ["S", pu + 4 * 256, 0, 1, 1, 0, 0]], kind="lost-max-streams"))
    return cases


DELIVERY_OUTCOMES = (("lost", "pkt"), ("lost", "time"), ("lost", "late"), ("acked", "-"))
DELIVERY_ORDERS = ("ack-first", "separate", "data-first", "write-between")


def gen_delivery():
    """Delivery outcome (ACKED / LOST by packet threshold / LOST by time threshold) of the packet that advertised a
    raised limit x peer frames at the boundary old limit .. new limit x order of the revealing ACK frame and the peer
    frames (same datagram before / after, next datagram without a write pass, after the re-advertisement), for the
    connection-level limit (MAX_DATA), a per-stream limit (MAX_STREAM_DATA) and both stream-count limits (MAX_STREAMS).
    The limit in force is the largest value ever written to the wire, whatever happened to the packet."""
    cases = []

    def add(subject, msd, md, setup, probes, kind):
        for outcome, how in DELIVERY_OUTCOMES:
            for order in DELIVERY_ORDERS:
                for probe in probes:
                    fr = probe if isinstance(probe[0], list) else [probe]
                    cases.append(_case(subject, msd, md, setup + [["D", outcome, how, order, fr]], kind=kind))

    for subject in ("server", "client"):
        pb, pu, ob, ou = _peer_sids(subject)
        # ---- connection level: msd 3000, md L = 2000; 1001 bytes on pb -> MAX_DATA 4000 (no MAX_STREAM_DATA: 2002 <= 3000)
        L, used = 2000, 1001
        probes = []
        for total in (used + 1, L - 1, L, L + 1, 2 * L - 1, 2 * L, 2 * L + 1):
            e = total - used                                     # on another stream: the sum is what counts
            probes.append(["S", pu, e - min(e, 7), min(e, 7), 3, 0, 1])
        for total in (L, L + 1, 2 * L, 2 * L + 1):
            probes.append(["R", pu, total - used])
        probes.append(["S", pb, used, 0, 3, 0, 1])               # nothing new
        for total in (used + 1, L, L + 1):
            probes.append(["S", pb, total - 1, 1, 3, 0, 1])      # same stream
        probes.append(["S", pu, 2 * L - used - 3, 3, 3, 1, 1])   # FIN exactly at the new limit
        probes.append([["S", pu, 0, 500, 3, 0, 0], ["S", pb + 4, 2 * L - used - 500 - 5, 5, 4, 0, 1]])   # two frames filling the new window
        probes.append([["S", pu, 0, 500, 3, 0, 0], ["R", pb + 4, 2 * L - used - 500 + 1]])           # ... one byte too many
        add(subject, 3000, L, [["S", pb, 0, used, 1, 0, 0]], probes, "delivery-max-data")
        # ---- per-stream level: msd L = 1000, md 4000; 501 bytes on pb -> MAX_STREAM_DATA(pb, 2000) only
        L, used = 1000, 501
        probes = [["S", pb, used, 0, 3, 0, 1]]
        for e in (used + 1, L - 1, L, L + 1, 2 * L - 1, 2 * L, 2 * L + 1):
            probes.append(["S", pb, e - 1, 1, 3, 0, 1])
        for e in (L, L + 1, 2 * L, 2 * L + 1):
            probes.append(["R", pb, e])
        probes.append(["S", pb, 2 * L - 3, 3, 3, 1, 1])
        for e in (L, L + 1):                                     # another stream keeps its own (initial) limit
            probes.append(["S", pb + 4, e - 1, 1, 3, 0, 1])
        probes.append([["S", pb, L, 10, 3, 0, 1], ["S", pb, 2 * L - 1, 1, 3, 0, 1]])
        add(subject, L, 4000, [["S", pb, 0, used, 1, 0, 0]], probes, "delivery-max-stream-data")
        # ---- stream count: the 65th stream of a type -> MAX_STREAMS 256 for that type
        for base, other in ((pb, pu), (pu, pb)):
            probes = []
            for cnt in (128, 129, 256, 257):
                probes.append(["S", base + 4 * (cnt - 1), 0, 1, 3, 0, 0])
            for cnt in (129, 257):
                probes.append(["R", base + 4 * (cnt - 1), 0])
            for cnt in (256, 257):
                probes.append(["T", 0x15, base + 4 * (cnt - 1)])
            if base == pb:
                probes.append(["T", 0x11, base + 4 * 255])
                probes.append(["T", 0x11, base + 4 * 256])
            for cnt in (128, 129):                               # the other type keeps its own limit
                probes.append(["S", other + 4 * (cnt - 1), 0, 1, 3, 0, 0])
            add(subject, 1000, 4000, [["S", base + 4 * 64, 0, 1, 1, 0, 0]], probes, "delivery-max-streams")
        # ---- chains: an older (stale) advertisement lost after a newer one went out; a re-advertisement lost again;
        #      every limit of one packet lost at once
        for order in ("ack-first", "separate"):
            for how in ("pkt", "time"):
                c = lambda ops, md=2000, msd=3000: cases.append(_case(subject, msd, md, ops, kind="delivery-chain"))
                c([["S", pb, 0, 1001, 1, 0, 0], ["S", pu, 0, 1000, 2, 0, 0],                       # MAX_DATA 4000, then 8000
                   ["D", "lost", how, order, [["S", pu, 2994, 5, 3, 0, 1]], 0],                    # the stale one is lost
                   ["D", "lost", how, order, [["S", pb + 4, 2990, 10, 3, 0, 1]]],                  # then the newer one
                   ["S", pu + 4, 999, 1, 3, 0, 1], ["S", pb + 8, 0, 1, 3, 0, 0]])                  # 8000 reached, 8001 is over
                c([["S", pb, 0, 1001, 1, 0, 0], ["D", "lost", how, "write-between", []],           # re-advertisement ...
                   ["D", "lost", how, order, [["S", pu, 2990, 9, 3, 0, 1]]],                       # ... lost again
                   ["D", "acked", "-", order, [["R", pb + 4, 0]]], ["S", pb + 4, 0, 1, 1, 0, 0]])
                c([["S", pb, 0, 1001, 1, 0, 0], ["S", pu + 4 * 64, 0, 1, 1, 0, 0],                 # MAX_DATA + MAX_STREAM_DATA + MAX_STREAMS_UNI
                   ["D", "lost", how, order, [["S", pb, 1995, 5, 3, 0, 1], ["S", pu + 4 * 255, 0, 1, 3, 0, 0], ["S", pb + 4, 1994, 5, 3, 0, 1]]],
                   ["S", pu + 4 * 256, 0, 0, 3, 0, 0]], md=2000, msd=1000 * 2)
    return cases


def pick_delivery(cases, thorough):
    """quick tier: every case where a loss is revealed right before the peer frames (no write pass in between) by packet
    or time threshold, and every 4th of the rest"""
    if thorough:
        return cases
    out = []
    for i, c in enumerate(cases):
        d = [o for o in c["ops"] if o[0] == "D"]
        hot = any(o[1] == "lost" and o[2] in ("pkt", "time") and o[3] in ("ack-first", "separate") for o in d)
        if hot or i % 4 == 0:
            out.append(c)
    return out


def gen_cut():
    """Write passes cut short by QuicPacketBuilderStop: after a bulk step the subject's congestion window is exhausted and the
    builder refuses MAX_DATA / MAX_STREAM_DATA / MAX_STREAMS frames until a PTO probe (or an ACK) makes room.
    -> (cases, candidates): `cases` keep the peer within everything it saw on the wire, or go beyond the raised value as well
    (verdicts are unambiguous); `candidates` probe the window between the silently raised value and the advertised one."""
    cases, cand = [], []
    tail = [["W"], ["W"], ["W"], ["W"], ["A"], ["W"]]      # PTO probes / an ACK let the refused frames out
    for subject in ("server", "client"):
        pb, pu, ob, ou = _peer_sids(subject)
        c = lambda msd, md, ops, kind: _case(subject, msd, md, [["K", 60000]] + ops, kind=kind)
        # connection level: msd 3000, md 2000; 1001 bytes make used*2 > value; the MAX_DATA 4000 frame is refused
        for e, lst in ((1999, cases), (2000, cases), (2001, cand), (3000, cand), (4001 - 1000, cand)):
            lst.append(c(3000, 2000, [["S", pb, 0, 1001, 1, 0, 0], ["S", pb, e - 10, 10, 2, 0, 1]] + tail, "cut-max-data"))
        cases.append(c(3000, 2000, [["S", pb, 0, 1001, 1, 0, 0], ["S", pu, 2995, 5, 2, 0, 1], ["S", pb + 4, 5, 1, 2, 0, 1]] + tail,
                       "cut-max-data"))                                                           # 4001 > raised value as well
        cand.append(c(3000, 2000, [["S", pb, 0, 1001, 1, 0, 0], ["R", pu, 1500]] + tail, "cut-max-data"))
        cases.append(c(3000, 2000, [["S", pb, 0, 1001, 1, 0, 0], ["W"], ["W"], ["W"], ["W"], ["W"], ["S", pb, 3990, 10, 2, 0, 1],
                                    ["S", pu, 0, 1, 2, 0, 0], ["S", pu, 5, 1, 2, 0, 1]], "cut-max-data"))  # after the probe: 4000 advertised
        # per stream: msd 1000, md 4000; 600 bytes; MAX_STREAM_DATA 2000 refused
        for e, lst in ((999, cases), (1000, cases), (1001, cand), (2000, cand), (2001, cases)):
            lst.append(c(1000, 4000, [["S", pb, 0, 600, 1, 0, 0], ["S", pb, e - 10, 10, 2, 0, 1]] + tail, "cut-max-stream-data"))
        cases.append(c(1000, 4000, [["S", pb, 0, 600, 1, 0, 0], ["S", pb + 4, 390, 10, 2, 0, 1], ["S", pb + 4, 1000, 1, 2, 0, 1]] + tail,
                       "cut-max-stream-data"))                                                    # another stream keeps 1000
        cand.append(c(1000, 4000, [["S", pb, 0, 600, 1, 0, 0], ["R", pb, 1500]] + tail, "cut-max-stream-data"))
        # stream count: the 65th stream; MAX_STREAMS 256 refused
        for base in (pb, pu):
            for cnt, lst in ((128, cases), (129, cand), (256, cand), (257, cases)):
                lst.append(c(1000, 4000, [["S", base + 4 * 64, 0, 1, 1, 0, 0], ["S", base + 4 * (cnt - 1), 0, 1, 2, 0, 0]] + tail,
                             "cut-max-streams"))
        # PATH_CHALLENGE / retire bursts under an exhausted window: PATH_RESPONSE and RETIRE_CONNECTION_ID wait for room as well
        cases.append(c(1000, 4000, [["B", [["P", 100 + i] for i in range(5)]], ["S", pb, 0, 600, 1, 0, 0]] + tail, "cut-queues"))
        cases.append(c(1000, 4000, [["N", 8, 3], ["S", pb, 0, 600, 1, 0, 0]] + tail, "cut-queues"))
        # a finished stream under an exhausted window (discarding happens in the loop that writes STREAM frames)
        cases.append(c(1000, 4000, [["S", pu, 0, 10, 1, 1, 0], ["S", pu, 0, 11, 2, 0, 0], ["S", pb, 0, 600, 1, 0, 0]] + tail, "cut-discard"))
    return cases, cand


NCID_PER_DATAGRAM = 45       # NEW_CONNECTION_ID frames (<= 31 bytes each) that fit into one datagram of the puppet


def _deliver_burst(frames, mode, per=NCID_PER_DATAGRAM):
    """ops delivering `frames` faster than the subject can drain its queues:
      one        as many frames per datagram as fit, consecutive datagrams, NO datagrams_to_send() in between, then a write pass
      each       one frame per datagram, no write pass in between, then a write pass
      pump       one frame per datagram, a write pass after each (with an exhausted congestion window -- op K before -- the
                 builder refuses RETIRE_CONNECTION_ID / PATH_RESPONSE / MAX_*: the queues cannot drain either)
      chunk      `per` frames per datagram, a write pass after each datagram"""
    if mode == "one":
        return [["Bn", frames[i:i + per]] for i in range(0, len(frames), per)] + [["W"]]
    if mode == "each":
        return [["Bn", [f]] for f in frames] + [["W"]]
    if mode == "pump":
        return [list(f) for f in frames]
    if mode == "chunk":
        return [["B", frames[i:i + per]] for i in range(0, len(frames), per)]
    raise ValueError(mode)


def _ncid_class(cls, n, J):
    """n NEW_CONNECTION_ID frames of one class, to be sent after ["N", J, J] (Retire Prior To = J, active = J, seen 0..7 and J,
    nothing available).  Sequence number relative to Retire Prior To x raises it or not x seen before or not."""
    if cls == "late":             # below, never seen, field 0: retired at once, Retire Prior To unchanged
        return [["N", 8 + i, 0] for i in range(n)]
    if cls == "late-own-rpt":     # below, never seen, field = own sequence number (still below Retire Prior To)
        return [["N", 8 + i, 8 + i] for i in range(n)]
    if cls == "late-mixed-rpt":   # below, never seen, fields 0 / own / J alternate (J does not raise: rpt > seq is refused first)
        return [["N", 8 + i, (0, 8 + i, max(0, 7 + i))[i % 3]] for i in range(n)]
    if cls == "late-dup":         # every late number twice: the second one is known
        return [["N", 8 + i // 2, 0] for i in range(n)]
    if cls == "below-seen":       # retired numbers of the handshake again
        return [["N", i % 8, 0] for i in range(n)]
    if cls == "equal-seen":       # the active one again
        return [["N", J, (J, 0)[i % 2]] for i in range(n)]
    if cls == "above-new":        # above, never seen, does not raise: fills _peer_cid_available
        return [["N", J + 1 + i, (J, 0)[i % 2]] for i in range(n)]
    if cls == "above-raise":      # above, never seen, raises Retire Prior To to itself: retires the active one each time
        return [["N", J + 1 + i, J + 1 + i] for i in range(n)]
    if cls == "above-seen-raise":  # announced first, then announced again with a larger Retire Prior To
        out = []
        for i in range(0, n, 2):
            out += [["N", J + 1 + i, J + i], ["N", J + 1 + i, J + 1 + i]]
        return out[:n]
    if cls == "late-then-raise":  # late arrivals, every 10th frame raises Retire Prior To (the cap must not wait for it)
        out, top = [], J
        for i in range(n):
            if i % 10 == 9:
                top += 1
                out.append(["N", top, top])
            else:
                out.append(["N", 8 + i, 0])
        return out
    if cls == "leap":             # each frame raises Retire Prior To far ahead, the next ones fall below it
        out, top = [], J
        for i in range(n):
            if i % 4 == 0:
                top += 100
                out.append(["N", top, top])
            else:
                out.append(["N", top - 50 + i % 4, 0])
        return out
    raise ValueError(cls)


NCID_CLASSES = ("late", "late-own-rpt", "late-mixed-rpt", "late-dup", "below-seen", "equal-seen", "above-new", "above-raise",
                "above-seen-raise", "late-then-raise", "leap")


def gen_bursts(rng, thorough, cap_retire=32, cap_chal=32, cap_paths=8):
    """Bursts per bounded collection of `buffer_bounded`: more frames of the capped kind than the cap (up to 5x), arriving
    faster than the endpoint drains them -- in one datagram, in consecutive datagrams without a write pass, one by one
    with the congestion window exhausted -- and the same bursts with room to drain (a compliant-looking peer must not be
    accused).  The caps are the tree's (c07_consts.caps())."""
    cases = []
    J = 1000
    for subject in ("server", "client"):
        pb, pu, ob, ou = _peer_sids(subject)
        c = lambda ops, kind, msd=1000, md=4000: cases.append(_case(subject, msd, md, ops, kind=kind))
        # ---- NEW_CONNECTION_ID: class x delivery x count around the cap and up to 5x
        # after ["N", J, J] without a write pass 8 retirements (0..7) are queued already; with a write pass: none
        for cls in NCID_CLASSES:
            for mode, drained in (("one", False), ("one", True), ("each", False), ("each", True), ("pump", True), ("congested", False)):
                room = cap_retire - (0 if drained else 8)
                counts = (room - 1, room, room + 1, room + 2, 2 * cap_retire, 5 * cap_retire)
                if not thorough:
                    # quick tier: the whole table for back-to-back delivery on top of the leap, two counts for the rest
                    if mode == "pump":
                        counts = (room + 2,)
                    elif not (mode == "one" and not drained):
                        counts = (room + 1, 5 * cap_retire)
                    if subject == "client" and mode in ("each", "congested") and cls not in ("late", "above-raise", "late-then-raise"):
                        continue
                for n in counts:
                    frames = _ncid_class(cls, n, J)
                    if mode in ("one", "each"):
                        ops = [["N", J, J] if drained else ["Bn", [["N", J, J]]]] + _deliver_burst(frames, mode)
                    elif mode == "pump":
                        ops = [["N", J, J]] + _deliver_burst(frames, "pump")
                    else:
                        ops = [["K", 60000], ["N", J, J]] + _deliver_burst(frames, "pump")
                    c(ops + [["W"], ["A"], ["W"]], "burst-ncid-%s-%s" % (cls, mode))
        # the sequence number EQUAL to Retire Prior To and never seen: ["N", J + 5, J] makes Retire Prior To = J with J unknown
        for mode in ("one", "pump"):
            c([["Bn", [["N", J + 5, J]]]] + _deliver_burst([["N", J, 0], ["N", J, J], ["N", J, 0]] + _ncid_class("late", 40, J), mode) + [["W"]],
              "burst-ncid-equal-new-%s" % mode)
        # Retire Prior To above the sequence number inside a burst: PROTOCOL_VIOLATION, whatever is queued
        c([["Bn", [["N", J, J]] + _ncid_class("late", 10, J) + [["N", 500, 501]] + _ncid_class("late", 40, J)[10:]], ["W"]], "burst-ncid-invalid-one")
        # no leap at all: the handshake's connection IDs stay, numbers 8.. arrive with Retire Prior To 0 (available fills: cap 8)
        c(_deliver_burst([["N", 8 + i, 0] for i in range(12)], "one") + [["W"]], "burst-ncid-available-one")
        # ---- PATH_CHALLENGE on the active path: up to 5x the cap (excess is dropped silently, never more than the cap answered)
        for n in (cap_chal - 1, cap_chal, cap_chal + 1, 2 * cap_chal, 5 * cap_chal):
            fr = [["P", 5000 + i] for i in range(n)]
            c(_deliver_burst(fr, "one", per=160), "burst-challenge-one")
            c(_deliver_burst(fr, "one", per=20), "burst-challenge-one")
            if n in (cap_chal + 1, 5 * cap_chal) or thorough:
                c(_deliver_burst(fr, "each"), "burst-challenge-each")
                c([["K", 60000]] + _deliver_burst(fr, "chunk", per=11) + [["W"], ["A"], ["W"]], "burst-challenge-congested")
        # ---- PATH_CHALLENGE from other source addresses: 5x MAX_NETWORK_PATHS addresses, cap + 1 challenges each, no write pass
        c([["Pa", i, cap_chal + 1, 1] for i in range(5 * cap_paths)] + [["W"]], "burst-paths-nopump")
        c([["Pa", i % (cap_paths + 3), 7, i % 3] for i in range(5 * cap_paths)] + [["W"]], "burst-paths-mixed")
        # ---- CRYPTO out of order (nothing reaches TLS: a gap is kept at the current offset), without write passes
        fr = [["C", 10 + 997 * ((i * 37) % 60), 40] for i in range(60)]
        c(_deliver_burst(fr, "one", per=25), "burst-crypto-one")
        c(_deliver_burst(fr[:30] + [["C", 524288 - 40, 40]] + fr[30:] + [["C", 524288 - 39, 40]], "one", per=25), "burst-crypto-one")
        c([["K", 60000]] + _deliver_burst(fr[:20], "pump") + [["W"]], "burst-crypto-congested")
        # ---- in-order CRYPTO: an announced handshake message of (almost) the largest accepted size, body without write passes
        c(_deliver_burst([["Ct", 1100, 524288 - 4]] * 30, "each") , "burst-tls-each")
        # ---- STREAM: never-completed streams (gap at 0) pushed to the windows without a write pass (no window update can
        #      go out): within the windows -> accepted, buffers bounded by them; the first frame beyond -> close
        for total, kind in ((4000, "within"), (4001, "over")):
            fr = [["S", pb + 4 * i, 1000 - 1, 1, i, 0, 1] for i in range(3)] + [["S", pu, total - 3000 - 1, 1, 7, 0, 1]]
            c(_deliver_burst(fr + [["S", pu + 4 * i, 0, 0, 1, 0, 1] for i in range(20)], "one", per=30), "burst-stream-%s-one" % kind)
            c(_deliver_burst(fr, "each"), "burst-stream-%s-each" % kind)
            c([["K", 60000]] + _deliver_burst(fr, "pump") + [["W"], ["A"], ["W"]], "burst-stream-%s-congested" % kind)
        # 5x the connection window in one burst: 20 streams of 1000
        c(_deliver_burst([["S", pb + 4 * i, 999, 1, i, 0, 1] for i in range(20)], "one", per=10), "burst-stream-5x-one")
        # stream count: 5 x 128 streams opened by empty frames in consecutive datagrams (the 129th must close)
        for base in (pb, pu):
            c(_deliver_burst([["S", base + 4 * i, 0, 0, 1, 0, 0] for i in range(128)], "one", per=128), "burst-stream-count-one")
            c(_deliver_burst([["S", base + 4 * i, 0, 0, 1, 0, 0] for i in range(5 * 128)], "one", per=160), "burst-stream-count-one")
    # ---- random NEW_CONNECTION_ID histories: every frame drawn relative to the current Retire Prior To / known numbers,
    #      random delivery (same datagram, next datagram without write pass, write pass), with and without congestion
    for _ in range(150 if thorough else 40):
        subject = rng.choice(["server", "client"])
        rpt, seen, ops, batch = 0, set(range(8)), [], []
        if rng.random() < 0.25:
            ops.append(["K", 60000])
        greedy = rng.random() < 0.5          # mostly frames that queue a retirement
        for _ in range(rng.randint(20, 5 * cap_retire)):
            r = rng.random()
            top = max(seen)
            if r < (0.15 if greedy else 0.3):       # raises Retire Prior To: to itself / somewhere between
                seq = top + rng.choice([1, 1, 2, 50])
                new = rng.choice([seq, seq, rng.randint(rpt, seq)])
            elif r < (0.8 if greedy else 0.5):      # below Retire Prior To, never seen when possible
                free = [x for x in range(max(0, rpt - 60), rpt) if x not in seen]
                seq = rng.choice(free) if free else rng.randint(0, max(0, rpt - 1))
                new = rng.choice([0, seq, rng.randint(0, seq)])
            elif r < 0.9:                           # known number again (below / equal / above), sometimes with a larger field
                seq = rng.choice(sorted(seen))
                new = rng.choice([0, min(seq, rpt), seq])
            else:                                   # above, new, does not raise
                seq = top + 1
                new = rng.choice([0, rpt])
            if rng.random() < 0.02:
                new = seq + 1                       # invalid
            batch.append(["N", seq, new])
            seen.add(seq)
            rpt = max(rpt, new) if new <= seq else rpt
            d = rng.random()
            if d < 0.55 and len(batch) < NCID_PER_DATAGRAM:
                continue
            ops.append(["Bn", batch] if d < 0.9 else ["B", batch])
            batch = []
        if batch:
            ops.append(["Bn", batch])
        ops += [["W"], ["A"], ["W"]]
        cases.append(_case(subject, 1000, 4000, ops, seed=rng.randint(1, 5), kind="burst-ncid-random"))
    return cases


def gen_findings(thorough=False):
    """Inputs on which the unchanged tree violates the property (documented in docs/C07.md)."""
    cases = []
    for subject in (("server", "client") if thorough else ("server",)):
        pb, pu, ob, ou = _peer_sids(subject)
        # F-C07-1: RESET_STREAM charges the connection window without moving highest_offset
        cases.append(_case(subject, 4000, 4000, [["R", pb, 100], ["R", pb, 100], ["R", pb + 4, 3900]], kind="finding-reset-double-count"))
        cases.append(_case(subject, 4000, 4000, [["R", pb, 100], ["S", pb, 0, 100, 1, 0, 0], ["S", pb + 4, 3890, 10, 1, 0, 1]],
                           kind="finding-reset-double-count"))
        cases.append(_case(subject, 3000, 4000, [["B", [["R", pb, 2500], ["S", pb, 2400, 100, 1, 0, 1]]]], kind="finding-reset-double-count"))
        # F-C07-2: in-order CRYPTO data is buffered by the TLS layer up to the announced message length (2^24-1)
        cases.append(_case(subject, 1000, 4000, [["Ct", 1150]] * 470, kind="finding-tls-reassembly"))
        # F-C07-3: one remote_challenges queue per source address, the number of paths is not bounded
        cases.append(_case(subject, 1000, 4000, [["Pa", i, 32] for i in range(60)], kind="finding-paths"))
    return cases


# ------------------------------------------------------------------------------ driver
def _ops(c):
    return c["ops"]


def _rebuild(c, ops):
    d = dict(c)
    d["ops"] = ops
    return d


def _opname(o):
    return o[0]


def _nontrivial(c, out):
    # at least one frame was judged on the real connection and something observable happened
    return len(out) > 0 and any(o[0] in ("S", "R", "B", "Bn", "C", "Ct", "P", "Pa", "N", "T", "D", "K") for o in c["ops"])


def _simplify(op):
    if op[0] in ("B", "Bn") and len(op[1]) > 1:
        if len(op[1]) > 3:
            h = len(op[1]) // 2
            yield [op[0], op[1][:h]]
            yield [op[0], op[1][h:]]
        for i in range(len(op[1])):
            yield [op[0], op[1][:i] + op[1][i + 1:]]
    if op[0] == "D":
        for i in range(len(op[4])):
            if len(op[4]) > 1:
                yield op[:4] + [op[4][:i] + op[4][i + 1:]] + op[5:]
        if len(op) > 5 and op[5] != -1:
            yield op[:5]
        if op[2] == "late":
            yield [op[0], op[1], "time"] + op[3:]
        if op[3] == "separate":
            yield op[:3] + ["ack-first"] + op[4:]
    if op[0] == "S" and op[3] > 1:
        yield ["S", op[1], op[2] + op[3] - 1, 1, op[4], op[5], 1]


CANDIDATE_SIG = {"oracle": "over_limit", "congested": True, "got": None}


def run_candidates(ctx, s, cases):
    """The 22 inputs that probe the window between a limit doubled in memory and the value on the wire (finding C07-F4, fixed in
    /repo by 825d3fa).  They are REGRESSION WITNESSES: ordinary cases of the tie (model comparison, oracle (i) and (ii), shrinking,
    VIOLATION with a concrete replay).  On a tree that assigns a raised limit only next to the written frame every one of them
    closes with FLOW_CONTROL_ERROR / STREAM_LIMIT_ERROR; on a tree that raises before start_frame() the oracle reports "beyond an
    advertised limit ... stayed open" as impl-violations (the model follows the probed flag, so there is no disagreement)."""
    fams = collections.OrderedDict()
    for c in cases:
        fams.setdefault(c["kind"], []).append(c)
    for fam in fams.values():
        s.run(fam)
    hits = []
    for c in cases:
        bad = oracle(c)
        if bad is not None:
            hits.append({"what": bad[0], "signature": bad[1]})
    return {"cases": len(cases), "oracle_failures": len(hits), "signature_when_failing": CANDIDATE_SIG,
            "example": hits[0] if hits else None}


def suite(ctx):
    return corr.Suite(ctx, "connlimits", "exec_connlimits_cut", encode, impl, oracle, _ops, _rebuild,
                      nontrivial=_nontrivial, opname=_opname, simplify=_simplify)


def suite_long(ctx):
    """same tie, for the long repetition cases: no shrinking (one evaluation costs a second)"""
    return corr.Suite(ctx, "connlimits-long", "exec_connlimits_cut", encode, impl, oracle, None, None,
                      nontrivial=_nontrivial, opname=_opname)


def run(ctx):
    import resource
    try:   # the C10 receiver model zero-fills gaps with a non-tail-recursive list function: deep stack for the driver
        hard = resource.getrlimit(resource.RLIMIT_STACK)[1]
        resource.setrlimit(resource.RLIMIT_STACK, (hard, hard))
    except Exception:
        pass
    s = suite(ctx)
    sl = suite_long(ctx)
    s.run(corr.load_corpus("C07", s.name), "corpus")
    sl.run(corr.load_corpus("C07", sl.name), "corpus")
    rng = ctx.rng
    cases = gen_boundary() + gen_final_size() + gen_repetition(rng, ctx.thorough) + gen_lost_limits()
    # one batch per family: corr.Suite reports at most three failing cases per batch
    fams = collections.OrderedDict()
    for c in cases:
        fams.setdefault(c["kind"].split("-")[0] + ("-cross" if c["kind"].endswith("cross") else ""), []).append(c)
    for fam in fams.values():
        s.run(fam)
    # delivery outcomes of limit-advertising packets x boundary frames x order (docs/C07.md "Delivery outcomes")
    dfams = collections.OrderedDict()
    for c in pick_delivery(gen_delivery(), ctx.thorough):
        dfams.setdefault(c["kind"], []).append(c)
    for fam in dfams.values():
        s.run(fam)
    s.run(gen_random(rng, ctx.n(120, 3000)))
    s.run(gen_random(rng, ctx.n(150, 3000), deliveries=True))
    # write passes cut short by QuicPacketBuilderStop (docs/C07.md "Cut write passes")
    cut_cases, cut_cand = gen_cut()
    cfams = collections.OrderedDict()
    for c in cut_cases:
        cfams.setdefault(c["kind"], []).append(c)
    for fam in cfams.values():
        s.run(fam)
    candidates = run_candidates(ctx, s, cut_cand)
    # bursts per bounded collection, delivered faster than the endpoint drains them (docs/C07.md "Bursts")
    k = caps()
    bfams = collections.OrderedDict()
    for c in gen_bursts(rng, ctx.thorough, cap_retire=min(4 * k["LOCAL_ACTIVE_CID_LIMIT"], k["MAX_PENDING_RETIRES"]),
                        cap_chal=k["MAX_REMOTE_CHALLENGES"], cap_paths=k["NETWORK_PATHS_CAP"] or 8):
        key = c["kind"] if not c["kind"].startswith("burst-ncid-") else "burst-ncid-" + c["kind"].rsplit("-", 1)[1]
        bfams.setdefault(key, []).append(c)
    for fam in bfams.values():
        s.run(fam)
    found = gen_findings(ctx.thorough)
    for kind in ("finding-reset-double-count",):
        s.run([c for c in found if c["kind"] == kind])
    for kind in ("finding-tls-reassembly", "finding-paths"):
        sl.run([c for c in found if c["kind"] == kind])
    return corr.merge_coverage(
        [s, sl],
        "puppet-driven frame sequences on a real QuicConnection after a real handshake (boundary tables on all four stream types "
        "and both roles, final-size interplay, stream-count, repetition of PATH_CHALLENGE / NEW_CONNECTION_ID / CRYPTO, never-completed "
        "streams, delivery outcomes (ACKED / LOST by packet or time threshold) of the packets that advertised raised limits x frames at "
        "the boundary old..new limit x order of the revealing ACK and the frames, random mostly-within-limit histories interleaved with the "
        "subject's own limit raises and such delivery outcomes); distinct = distinct projected "
        "op trace, non-trivial = at least one peer frame processed and an observable produced",
        {"delivery_outcomes": dict(sorted(_DELIVERY.items())), "cut_passes": dict(sorted(_CUT.items())),
         "regression_witnesses_C07_F4": candidates,
         "cap_peek": dict(sorted(_PEEK.items()), caps=dict(k), peak=dict(sorted(_PEEK_PEAK.items())))})


def replay(ctx, rep):
    s = suite(ctx)
    case = rep["case"]
    d, e, g = s.disagree(case)
    return {"disagree": d, "impl": e, "model": g, "oracle": oracle(case)}
