"""C03 name matrix: WHICH identity is the server certificate validated FOR, and under which configuration are the
identity / chain checks skipped.

Property sentence checked (properties.jsonl C03): "A client reports handshake completion only after the server has
proved possession of the private key of a certificate that validates for the REQUESTED NAME".  The requested name is
the `server_name` the application CONFIGURED (tls.Context(server_name=...) / QuicConfiguration.server_name), not
whatever form of it is sent in the SNI extension (RFC 6066: IP literals are not sent) and not a private attribute.

A private CA generated at run time signs every leaf, so that chain validation passes and ONLY the identity differs.

Suites (all run against the CURRENT tree, implementation oracle independent of the Coq model):
  vc-names    tls.verify_certificate(certificate, chain, server_name, cadata|cafile|capath) called directly:
              names x subjectAltName shapes x CA source x validity period;
  tls-names   real tls.Context pairs (transport of c03_tls): names x SAN shapes x verify_mode x CA source;
  quic-names  real QuicConnection pairs through harness/sim: a sub-matrix.

Oracle (own RFC 6125 / RFC 9525 style matcher, own IP-literal parser - neither `ipaddress` nor service_identity):
  verdict(name, certificate) in
     "must_not"  the certificate is not valid for the configured name under the most liberal reading
                 -> the client must NOT complete (unless verify_mode is CERT_NONE);
     "should"    plain spelling, exact DNS-ID / wildcard / iPAddress match -> an honest run must complete (control);
     "may"       equivalent spellings (trailing dot, IDNA U-label, surrounding blanks, IPv6 zone id, upper case hex):
                 either outcome is compatible with C03.
  server_name None with CERT_REQUIRED: the application requested NO name, the identity clause of C03 is vacuous; what
  the code promises (and the oracle demands) is chain + validity: an untrusted issuer or an expired leaf must still
  be refused, every leaf of the trusted CA may be accepted.  (QuicConnection users get the name from connect(host).)
  An IP literal is a configured name like any other: it is validated against iPAddress SANs ONLY (an IP written in a
  dNSName or in the subject CN does not count, RFC 9525 section 6.2 / 6.4).

White-box diagnostics (labelled, never the only reason for a violation): the `server_name=` argument that reaches
tls.verify_certificate and which service_identity matcher was consulted with which name - used for the model tie
(`exec_c03vc`: sni_of_name / verify_name / verify_certificate decision structure) and printed with a violation.

Nothing from aioquic is imported at module top (the overlay of the tree under test is activated later).
"""
import datetime
import json
import os
import random
import shutil
import tempfile
import time

MAX_REPORT = 3

# ------------------------------------------------------------------------------------------------------------
# own IP-literal parser and matcher (the reference the oracle uses)

def ref_ipv4(s):
    parts = s.split(".")
    if len(parts) != 4:
        return None
    out = []
    for p in parts:
        if not p or len(p) > 3 or any(ch not in "0123456789" for ch in p) or (len(p) > 1 and p[0] == "0"):
            return None
        v = int(p)
        if v > 255:
            return None
        out.append(v)
    return bytes(out)


def ref_ipv6(s):
    if "%" in s:                       # zone id: same address on the link
        s, _, zone = s.partition("%")
        if not zone:
            return None
    if s.count("::") > 1 or ":::" in s:
        return None

    def groups(txt):
        if txt == "":
            return []
        out = []
        items = txt.split(":")
        for i, g in enumerate(items):
            if "." in g:
                if i != len(items) - 1:
                    return None
                v4 = ref_ipv4(g)
                if v4 is None:
                    return None
                out += [v4[0] << 8 | v4[1], v4[2] << 8 | v4[3]]
                continue
            if not (1 <= len(g) <= 4) or any(ch not in "0123456789abcdefABCDEF" for ch in g):
                return None
            out.append(int(g, 16))
        return out

    if "::" in s:
        a, b = s.split("::")
        ga, gb = groups(a), groups(b)
        if ga is None or gb is None or len(ga) + len(gb) > 7:
            return None
        g = ga + [0] * (8 - len(ga) - len(gb)) + gb
    else:
        g = groups(s)
        if g is None or len(g) != 8:
            return None
    return b"".join(x.to_bytes(2, "big") for x in g)


def ref_ip(s):
    """packed address if `s` is an IPv4 / IPv6 literal in the textual forms of RFC 3986 / RFC 4291 (no brackets)"""
    if not isinstance(s, str):
        return None
    return ref_ipv4(s) if ":" not in s else ref_ipv6(s)


def _dns_canon(name):
    """-> (canonical lower-case A-label form or None, was it already plain?)"""
    plain = True
    n = name.strip()
    if n != name:
        plain = False
    if n.endswith("."):
        n, plain = n[:-1], False
    try:
        n.encode("ascii")
    except UnicodeEncodeError:
        plain = False
        try:
            n = n.encode("idna").decode("ascii")
        except Exception:  # noqa: BLE001
            return None, False
    if n.lower() != n:
        n = n.lower()              # DNS names are case-insensitive: still a plain spelling
    if not n or any(ch in n for ch in "\x00 /\\*") or ".." in n:
        return None, False
    return n, plain


def _dns_match(pattern, host, strict):
    p, h = pattern.lower().rstrip("."), host
    if p == h:
        return True
    pl, hl = p.split("."), h.split(".")
    if pl[0] == "*" and len(pl) == len(hl) and len(pl) >= (3 if strict else 2) and pl[1:] == hl[1:] and hl[0]:
        return "*" not in "".join(pl[1:])
    return False


def ref_verdict(name, ident):
    """ident = {"dns": [...dNSName...], "ip": [...packed iPAddress...], "cn": ...} -> must_not | may | should"""
    if name is None:
        return "may"
    ip = ref_ip(name.strip())
    if ip is not None:
        if ip not in ident["ip"]:
            return "must_not"
        plain = name == name.strip() and "%" not in name
        return "should" if plain else "may"
    host, plain = _dns_canon(name)
    if host is None:
        return "must_not"
    if not any(_dns_match(p, host, False) for p in ident["dns"]):
        return "must_not"
    if plain and any(_dns_match(p, host, True) for p in ident["dns"]):
        return "should"
    return "may"


# ------------------------------------------------------------------------------------------------------------
# the matrix axes

NAMES = {
    # DNS
    "dns": "example.com", "dns-upper": "EXAMPLE.COM", "dns-dot": "example.com.", "dns-www": "www.example.com",
    "dns-deep": "a.b.example.com", "dns-other": "other.example", "dns-blank": " example.com", "dns-star": "*.example.com",
    "dns-nul": "example.com\x00.other.example", "dns-empty": "",
    "idna-u": "bücher.example", "idna-a": "xn--bcher-kva.example",
    # IPv4 / IPv6 literals and spellings
    "ip4": "192.0.2.10", "ip4-other": "198.51.100.7", "ip6": "2001:db8::1", "ip6-upper": "2001:DB8:0:0:0:0:0:1",
    "ip6-zeros": "2001:0db8::0001", "ip6-mapped": "::ffff:192.0.2.10", "ip6-zone": "fe80::1%eth0", "ip6-other": "2001:db8::2",
    # looks like an address, is not one
    "ip6-bracket": "[2001:db8::1]", "ip4-lead0": "192.0.2.010", "ip4-dot": "192.0.2.10.", "ip4-int": "3221225994",
    "ip4-hex": "0xC000020A", "ip4-zone": "192.0.2.10%eth0", "ip4-blank": " 192.0.2.10",
    "none": None,
}
# certificate identity shapes: (subject CN, [("dns", value) | ("ip", text)] or None = no subjectAltName extension)
SANS = {
    "dns": ("c03 leaf", [("dns", "example.com")]),
    "dns-other": ("c03 leaf", [("dns", "other.example")]),
    "wild": ("c03 leaf", [("dns", "*.example.com")]),
    "wild-tld": ("c03 leaf", [("dns", "*.com")]),
    "idna-a": ("c03 leaf", [("dns", "xn--bcher-kva.example")]),
    "ip4": ("c03 leaf", [("ip", "192.0.2.10")]),
    "ip6": ("c03 leaf", [("ip", "2001:db8::1")]),
    "ip4-other": ("c03 leaf", [("ip", "198.51.100.7"), ("dns", "other.example")]),
    "ip6-other": ("c03 leaf", [("ip", "2001:db8::2")]),
    "ip6-mapped": ("c03 leaf", [("ip", "::ffff:192.0.2.10")]),
    "ip6-ll": ("c03 leaf", [("ip", "fe80::1")]),
    "ip4-as-dns": ("c03 leaf", [("dns", "192.0.2.10")]),
    "ip6-as-dns": ("c03 leaf", [("dns", "2001:db8::1")]),
    "cn-dns": ("example.com", None),
    "cn-ip4": ("192.0.2.10", None),
    "cn-ip6": ("2001:db8::1", None),
    "cn-dns+other-san": ("example.com", [("dns", "other.example")]),
    "cn-ip4+other-san": ("192.0.2.10", [("ip", "198.51.100.7")]),
    "dns+ip4-other": ("c03 leaf", [("dns", "example.com"), ("ip", "198.51.100.7")]),
    "ip4+dns-other": ("c03 leaf", [("ip", "192.0.2.10"), ("dns", "other.example")]),
}
# spellings an honest deployment uses: with verification switched off the handshake itself must still work
PLAIN_NAMES = ("dns", "dns-upper", "dns-www", "dns-deep", "dns-other", "idna-a", "ip4", "ip4-other", "ip6", "ip6-upper",
               "ip6-zeros", "ip6-mapped", "ip6-other", "none")
LEAVES = ("good", "expired", "notyet", "otherca")          # validity period / issuer of the leaf
CA_SOURCES = ("cadata", "cafile", "capath", "cafile+capath", "default", "otherca")
VERIFY = ("default", "required", "optional", "none")

CORE_NAMES = ("dns", "ip4", "ip6", "ip6-upper", "none", "dns-upper", "dns-dot", "idna-u", "ip6-bracket", "ip4-lead0")
CORE_SANS = ("dns", "dns-other", "wild", "ip4", "ip6", "ip4-other", "ip6-other", "ip4-as-dns", "ip6-as-dns", "cn-dns", "cn-ip4")


_ENV = {}


def _now():
    return datetime.datetime.now(datetime.timezone.utc)


def _mk(cn, key, issuer=None, issuer_key=None, sans=None, ca=False, days=(2020, 2120)):
    """`days` = (first year, last year) of the validity period: absolute, because harness/sim runs on a virtual clock"""
    import ipaddress
    from cryptography import x509
    from cryptography.hazmat.primitives import hashes
    name = x509.Name([x509.NameAttribute(x509.NameOID.COMMON_NAME, cn)])
    b = (x509.CertificateBuilder().subject_name(name).issuer_name(issuer.subject if issuer is not None else name)
         .public_key(key.public_key()).serial_number(x509.random_serial_number())
         .not_valid_before(datetime.datetime(days[0], 1, 1, tzinfo=datetime.timezone.utc))
         .not_valid_after(datetime.datetime(days[1], 1, 1, tzinfo=datetime.timezone.utc))
         .add_extension(x509.BasicConstraints(ca=ca, path_length=None), critical=True))
    if sans is not None:
        gn = [x509.DNSName(v) if k == "dns" else x509.IPAddress(ipaddress.ip_address(v)) for k, v in sans]
        b = b.add_extension(x509.SubjectAlternativeName(gn), critical=False)
    return b.sign(issuer_key if issuer_key is not None else key, hashes.SHA256())


def n_env():
    """private CA, a second CA nobody trusts, one leaf key, one leaf certificate per (SAN shape, leaf kind); trust
    material as bytes, file and hashed directory (temporary directory, removed by n_close())."""
    if _ENV:
        return _ENV
    from cryptography.hazmat.primitives import serialization
    from cryptography.hazmat.primitives.asymmetric import ec
    from OpenSSL import crypto
    pem = lambda c: c.public_bytes(serialization.Encoding.PEM)
    cak, ca2k, leafk = (ec.generate_private_key(ec.SECP256R1()) for _ in range(3))
    ca = _mk("c03 names CA", cak, ca=True)
    ca2 = _mk("c03 names OTHER CA", ca2k, ca=True)
    tmp = tempfile.mkdtemp(prefix="c03names-")
    cafile = os.path.join(tmp, "ca.pem")
    with open(cafile, "wb") as f:
        f.write(pem(ca))
    other_cafile = os.path.join(tmp, "other.pem")
    with open(other_cafile, "wb") as f:
        f.write(pem(ca2))
    capath = os.path.join(tmp, "capath")
    os.mkdir(capath)
    h = crypto.X509.from_cryptography(ca).subject_name_hash()
    with open(os.path.join(capath, "%08x.0" % h), "wb") as f:
        f.write(pem(ca))
    empty = os.path.join(tmp, "empty")
    os.mkdir(empty)
    _ENV.update(ca=ca, ca2=ca2, cak=cak, ca2k=ca2k, leafk=leafk, capem=pem(ca), ca2pem=pem(ca2), tmp=tmp, cafile=cafile,
                other_cafile=other_cafile, capath=capath, empty=empty, leaves={}, idents={})
    return _ENV


def n_close():
    tmp = _ENV.get("tmp")
    _ENV.clear()
    if tmp:
        shutil.rmtree(tmp, ignore_errors=True)


def n_leaf(san, leaf="good"):
    e = n_env()
    key = (san, leaf)
    if key not in e["leaves"]:
        cn, sans = SANS[san]
        days = {"good": (2020, 2120), "otherca": (2020, 2120), "expired": (2020, 2021), "notyet": (2100, 2120)}[leaf]
        issuer, ik = (e["ca2"], e["ca2k"]) if leaf == "otherca" else (e["ca"], e["cak"])
        e["leaves"][key] = _mk(cn, e["leafk"], issuer=issuer, issuer_key=ik, sans=sans, days=days)
    return e["leaves"][key]


def n_ident(san):
    """what the certificate of this shape is valid for, read off the shape description (not off the certificate)"""
    cn, sans = SANS[san]
    return {"cn": cn, "dns": [v for k, v in (sans or []) if k == "dns"],
            "ip": [ref_ip(v) for k, v in (sans or []) if k == "ip"]}


def n_trust(ca_source):
    e = n_env()
    return {
        "cadata": dict(cadata=e["capem"]), "cafile": dict(cafile=e["cafile"]), "capath": dict(capath=e["capath"]),
        "cafile+capath": dict(cafile=e["other_cafile"], capath=e["capath"]),
        "default": {},                                            # certifi: the private CA is not in it
        "otherca": dict(cadata=e["ca2pem"]),
    }[ca_source]


def n_chain_expected(leaf, ca_source):
    """does the leaf chain to what the client trusts (by construction)"""
    if ca_source == "default":
        return False
    if ca_source == "otherca":
        return leaf == "otherca"
    if ca_source == "cafile+capath":
        return True                   # cafile holds the OTHER CA, capath the CA: load_locations() trusts both
    return leaf != "otherca"


def n_expect(case):
    """-> (may the client complete?, must an honest run complete?, why not)"""
    verify = case.get("verify", "default")
    if verify == "none":
        return True, case["name"] in PLAIN_NAMES, None
    leaf, src = case.get("leaf", "good"), case.get("ca", "cadata")
    if leaf in ("expired", "notyet"):
        return False, False, "the certificate is %s" % ("expired" if leaf == "expired" else "not valid yet")
    if not n_chain_expected(leaf, src):
        return False, False, "the certificate does not chain to a trusted CA (leaf issuer %s, trust %s)" % (
            "OTHER CA" if leaf == "otherca" else "CA", src)
    v = ref_verdict(NAMES[case["name"]], n_ident(case["san"]))
    if v == "must_not":
        cn, sans = SANS[case["san"]]
        return False, False, "the certificate (subject CN %r, subjectAltName %s) is not valid for the configured server_name %r" % (
            cn, "absent" if sans is None else ["%s:%s" % kv for kv in sans], NAMES[case["name"]])
    return True, v == "should", None


# ------------------------------------------------------------------------------------------------------------
# white-box probes (diagnostics + model tie): what reaches verify_certificate, which matcher is consulted

class _Probe(object):
    """wraps tls.verify_certificate and the two service_identity matchers for the duration of one case"""

    def __init__(self):
        self.vc_calls, self.matchers = [], []

    def __enter__(self):
        from aioquic import tls
        self.tls = tls
        self.si = tls.service_identity.cryptography
        self.saved = (tls.verify_certificate, self.si.verify_certificate_hostname, self.si.verify_certificate_ip_address)
        vc, vh, vi = self.saved

        def w_vc(*a, **kw):
            self.vc_calls.append(kw.get("server_name", a[2] if len(a) > 2 else None))
            return vc(*a, **kw)

        def w_vh(cert, name, *a, **kw):
            self.matchers.append(["host", name])
            return vh(cert, name, *a, **kw)

        def w_vi(cert, name, *a, **kw):
            self.matchers.append(["ip", name])
            return vi(cert, name, *a, **kw)

        tls.verify_certificate = w_vc
        self.si.verify_certificate_hostname = w_vh
        self.si.verify_certificate_ip_address = w_vi
        return self

    def __exit__(self, *exc):
        self.tls.verify_certificate, self.si.verify_certificate_hostname, self.si.verify_certificate_ip_address = self.saved
        return False


def _matcher_verdict(fn, cert, name):
    """0 matched | 1 CertificateError / VerificationError | 2 any other exception  (the oracle values of the model)"""
    import service_identity
    try:
        fn(cert, name)
        return 0
    except (service_identity.CertificateError, service_identity.VerificationError):
        return 1
    except Exception:  # noqa: BLE001
        return 2


def _is_ip(name):
    import ipaddress
    try:
        ipaddress.ip_address(name)
        return 1
    except ValueError:
        return 0


def _stop(ex):
    from aioquic import tls
    if isinstance(ex, tls.Alert):
        try:
            return {"alert": int(ex.description), "exception": type(ex).__name__}
        except Exception:  # noqa: BLE001
            return {"alert": -1, "exception": type(ex).__name__}
    return {"alert": None, "exception": type(ex).__name__}


# ------------------------------------------------------------------------------------------------------------
# vc-names: verify_certificate called directly

def vc_run(case):
    from aioquic import tls
    import service_identity.cryptography as sic
    e = n_env()
    name = NAMES[case["name"]]
    cert = n_leaf(case["san"], case.get("leaf", "good"))
    obs = {"ok": False, "stop": None}
    with _Probe() as p:
        try:
            tls.verify_certificate(certificate=cert, chain=[], server_name=name, **n_trust(case.get("ca", "cadata")))
            obs["ok"] = True
        except Exception as ex:  # noqa: BLE001
            obs["stop"] = _stop(ex)
        obs["matchers"] = list(p.matchers)
    # oracle values for the model of verify_certificate's decision structure
    now = _now()
    obs["model_in"] = [
        int(now < cert.not_valid_before_utc), int(now > cert.not_valid_after_utc),
        0 if name is None else 1, 0 if name is None else _is_ip(name),
        0 if name is None else _matcher_verdict(sic.verify_certificate_hostname, cert, name),
        0 if name is None or not _is_ip(name) else _matcher_verdict(sic.verify_certificate_ip_address, cert, name),
        int(n_chain_expected(case.get("leaf", "good"), case.get("ca", "cadata"))),
    ]
    return obs


def vc_oracle(case, obs):
    may, should, why = n_expect(dict(case, verify="required"))
    sig = {"suite": "vc-names", "name": case["name"], "san": case["san"]}
    if obs["ok"] and not may:
        return ("verify_certificate(server_name=%r) returned normally although %s" % (NAMES[case["name"]], why),
                dict(sig, kind="certificate-accepted-for-other-identity" if "configured server_name" in why
                     else "invalid-certificate-accepted"))
    if should and not obs["ok"]:
        return ("control: verify_certificate(server_name=%r) refused a certificate valid for that name: %s" % (
            NAMES[case["name"]], obs["stop"]), dict(sig, kind="honest-run-failed"))
    if not obs["ok"] and obs["stop"].get("alert") is None:
        return None      # an exception other than an Alert escaping is C05's business; the certificate was not accepted
    return None


# ------------------------------------------------------------------------------------------------------------
# tls-names: real tls.Context pairs

VERIFY_MODE = {"default": None, "required": 2, "optional": 1, "none": 0}     # ssl.CERT_* values


def tls_run(case):
    from aioquic import tls
    from aioquic.buffer import Buffer
    from props import c03_tls
    e = n_env()
    name = NAMES[case["name"]]
    cert = n_leaf(case["san"], case.get("leaf", "good"))
    obs = {"client_complete": False, "server_complete": False, "client_stop": None, "server_stop": None, "sni": None,
           "sni_present": None, "vc_names": [], "matchers": [], "setup_error": None}
    try:
        client = tls.Context(is_client=True, server_name=name, verify_mode=VERIFY_MODE[case.get("verify", "default")],
                             **n_trust(case.get("ca", "cadata")))
        server = tls.Context(is_client=False)
        server.certificate, server.certificate_private_key = cert, e["leafk"]
        if case.get("leaf") == "otherca" or case.get("send_chain"):
            server.certificate_chain = [e["ca2"] if case.get("leaf") == "otherca" else e["ca"]]
    except Exception as ex:  # noqa: BLE001
        obs["setup_error"] = "%s: %s" % (type(ex).__name__, str(ex)[:120])
        return obs
    with _Probe() as p:
        r = c03_tls._drive(client, server, None)
        obs["vc_names"], obs["matchers"] = list(p.vc_calls), list(p.matchers)
    obs["client_complete"] = client.state == tls.State.CLIENT_POST_HANDSHAKE
    obs["server_complete"] = server.state == tls.State.SERVER_POST_HANDSHAKE
    obs["client_stop"], obs["server_stop"] = r["stop"]["c"], r["stop"]["s"]
    if r["sent"]["c"]:
        try:
            hello = tls.pull_client_hello(Buffer(data=r["sent"]["c"][0]))
            obs["sni"], obs["sni_present"] = hello.server_name, hello.server_name is not None
        except Exception as ex:  # noqa: BLE001
            obs["sni"] = "unparsable:%s" % type(ex).__name__
    return obs


def _completion_oracle(case, obs, suite, completed, stop):
    may, should, why = n_expect(case)
    sig = {"suite": suite, "name": case["name"], "san": case["san"], "verify": case.get("verify", "default")}
    if completed and not may:
        return ("the client (server_name=%r, verify_mode %s, trust %s) reported completion although %s  "
                "[diagnostic: verify_certificate was given server_name=%s; matchers consulted: %s]" % (
                    NAMES[case["name"]], case.get("verify", "default"), case.get("ca", "cadata"), why,
                    obs.get("vc_names"), obs.get("matchers")),
                dict(sig, kind="completed-with-certificate-for-other-identity" if "configured server_name" in why
                     else "completed-with-invalid-certificate"))
    if should and not completed:
        return ("control: an honest run with a certificate valid for the configured server_name %r did not complete (%s)" % (
            NAMES[case["name"]], stop), dict(sig, kind="honest-run-failed"))
    return None


def tls_oracle(case, obs):
    if obs.get("setup_error"):
        return None                      # the configuration was refused up front: nobody completed
    return _completion_oracle(case, obs, "tls-names", obs["client_complete"], obs["client_stop"])


# ------------------------------------------------------------------------------------------------------------
# quic-names: real QuicConnection pairs through harness/sim

def quic_run(case):
    import logging
    import ssl
    from props import c03_quic
    from sim import ApiRaised, Pair, SimStall
    from sim.det import Identity
    from aioquic.quic import events as qevents
    logging.getLogger("quic").setLevel(logging.CRITICAL)
    e = n_env()
    name = NAMES[case["name"]]
    leaf = case.get("leaf", "good")
    cert = n_leaf(case["san"], leaf)
    trust = n_trust(case.get("ca", "cadata"))
    ident = Identity(kind="names", certificate=cert, private_key=e["leafk"],
                     chain=[e["ca2"]] if leaf == "otherca" else [], cadata=trust.get("cadata"), cafile=trust.get("cafile"),
                     server_name="placeholder.invalid")
    ccfg = {"server_name": name, "alpn_protocols": ["sim"]}
    if trust.get("capath"):
        ccfg["capath"] = trust["capath"]
    vm = VERIFY_MODE[case.get("verify", "default")]
    if vm is not None:
        ccfg["verify_mode"] = {0: ssl.CERT_NONE, 1: ssl.CERT_OPTIONAL, 2: ssl.CERT_REQUIRED}[vm]
    obs = {"client_complete": False, "server_complete": False, "client_term": None, "server_term": None, "error": None,
           "vc_names": [], "matchers": []}
    try:
        with _Probe() as p:
            pair = Pair(seed=int(case.get("seed", 7)), client_config=ccfg, server_config={"alpn_protocols": ["sim"]},
                        cert=ident, client_qlog=False, server_qlog=False, spin_quantum=c03_quic.SPIN_QUANTUM)

            def settled(pr):
                return all(ep.conn is not None and (ep.handshake_completed or ep.terminated is not None)
                           for ep in (pr.client, pr.server))
            try:
                pair.connect()
                if pair.run(settled, max_time=4.0) == "until":
                    pair.run(None, max_time=1.0)
            except ApiRaised as exc:
                obs["error"] = "ApiRaised:%s@%s.%s" % (type(exc.exc).__name__, exc.call.endpoint, exc.call.name)
            except SimStall:
                obs["error"] = "SimStall"
            obs["vc_names"], obs["matchers"] = list(p.vc_calls), list(p.matchers)
        full = {}
        c03_quic._endpoint_obs(full, "client", pair.client, qevents)
        c03_quic._endpoint_obs(full, "server", pair.server, qevents)
        for k in ("client_complete", "server_complete", "client_term", "server_term"):
            obs[k] = full[k]
    except Exception as exc:  # noqa: BLE001   harness or sim failure: reported, never raised
        obs["error"] = "HarnessError:%s:%s" % (type(exc).__name__, str(exc)[:160])
    return obs


def quic_oracle(case, obs):
    if obs.get("error") and str(obs["error"]).startswith("HarnessError"):
        return ("harness error: %s" % obs["error"], {"suite": "quic-names", "kind": "harness-error"})
    return _completion_oracle(case, obs, "quic-names", obs["client_complete"], obs.get("client_term") or obs.get("error"))


# ------------------------------------------------------------------------------------------------------------
# case lists

def vc_cases(rng, tier):
    cases = []
    for n in NAMES:
        for s in SANS:
            cases.append({"suite": "vc-names", "name": n, "san": s})
    names = list(NAMES) if tier == "thorough" else list(CORE_NAMES)
    sans = list(SANS) if tier == "thorough" else list(CORE_SANS)
    for src in CA_SOURCES:
        for leaf in LEAVES:
            if src == "cadata" and leaf == "good":
                continue
            for n in names:
                for s in (sans if tier == "thorough" else rng.sample(sans, 4) + ["dns", "ip4"]):
                    cases.append({"suite": "vc-names", "name": n, "san": s, "ca": src, "leaf": leaf})
    return cases


def tls_cases(rng, tier):
    cases = []
    for n in NAMES:                       # every name x every certificate shape, default verify mode, cadata
        for s in SANS:
            cases.append({"suite": "tls-names", "name": n, "san": s})
    names = list(NAMES) if tier == "thorough" else list(CORE_NAMES)
    sans = list(SANS) if tier == "thorough" else list(CORE_SANS)
    for v in ("required", "optional", "none"):
        for n in names:
            for s in sans:
                cases.append({"suite": "tls-names", "name": n, "san": s, "verify": v})
    for src in CA_SOURCES:
        for leaf in LEAVES:
            if src == "cadata" and leaf == "good":
                continue
            for v in ("default", "none"):
                for n in ("dns", "ip4", "ip6", "none"):
                    for s in ("dns", "ip4", "ip6", "dns-other", "ip4-other"):
                        cases.append({"suite": "tls-names", "name": n, "san": s, "ca": src, "leaf": leaf, "verify": v})
    return cases


def quic_cases(rng, tier):
    cases = []
    names = ("dns", "ip4", "ip6", "ip6-upper", "dns-upper", "none") if tier != "thorough" else CORE_NAMES
    sans = ("dns", "dns-other", "ip4", "ip6", "ip4-other", "ip6-other", "ip4-as-dns", "cn-dns", "cn-ip4", "wild")
    k = 0
    for n in names:
        for s in sans:
            for v in (("default", "none", "optional") if tier == "thorough" or n in ("dns", "ip4", "ip6") else ("default",)):
                k += 1
                cases.append({"suite": "quic-names", "name": n, "san": s, "verify": v, "seed": 300 + k})
    for src, leaf in (("capath", "good"), ("cafile", "good"), ("default", "good"), ("cadata", "otherca"), ("cadata", "expired")):
        for n, s in (("dns", "dns"), ("ip4", "ip4"), ("ip4", "ip4-other"), ("none", "dns")):
            k += 1
            cases.append({"suite": "quic-names", "name": n, "san": s, "ca": src, "leaf": leaf, "seed": 300 + k})
    return cases


# ------------------------------------------------------------------------------------------------------------
# running

RUNNERS = {"vc-names": (vc_run, vc_oracle), "tls-names": (tls_run, tls_oracle), "quic-names": (quic_run, quic_oracle)}


def _outcome(suite, obs):
    if suite == "vc-names":
        return "ok" if obs["ok"] else ("alert_%s" % obs["stop"]["alert"] if obs["stop"].get("alert") is not None
                                      else "exc_%s" % obs["stop"]["exception"])
    if obs.get("setup_error"):
        return "setup:" + obs["setup_error"].split(":")[0]
    if obs.get("client_complete"):
        return "completed"
    if suite == "tls-names":
        st = obs.get("client_stop")
        if not st:
            return "no-progress"
        return "alert_%s" % st["alert"] if st.get("alert") is not None else "exc_%s" % st["exception"]
    t = obs.get("client_term")
    return "term_0x%x" % t["error_code"] if t else ("error:%s" % str(obs.get("error")).split(":")[0] if obs.get("error") else "timeout")


def run_suite(ctx, suite, cases):
    t0 = time.time()
    run, oracle = RUNNERS[suite]
    st = {"cases": 0, "completed_or_ok": 0, "must_not": 0, "should": 0, "may": 0, "verify_none": 0, "oracle_failures": 0,
          "failure_kinds": {}, "outcomes": {}, "by_name_kind": {}}
    keep, seen, reported = [], set(), 0
    for case in cases:
        obs = run(case)
        st["cases"] += 1
        may, should, _why = n_expect(case if suite != "vc-names" else dict(case, verify="required"))
        st["verify_none" if case.get("verify") == "none" else ("should" if should else ("may" if may else "must_not"))] += 1
        o = _outcome(suite, obs)
        st["outcomes"][o] = st["outcomes"].get(o, 0) + 1
        done = obs.get("ok") or obs.get("client_complete")
        st["completed_or_ok"] += int(bool(done))
        nk = "none" if NAMES[case["name"]] is None else ("ip" if ref_ip(NAMES[case["name"]].strip()) else "dns")
        d = st["by_name_kind"].setdefault(nk, {"cases": 0, "accepted": 0, "refused": 0})
        d["cases"] += 1
        d["accepted" if done else "refused"] += 1
        bad = oracle(case, obs)
        if bad:
            st["oracle_failures"] += 1
            st["failure_kinds"][bad[1]["kind"]] = st["failure_kinds"].get(bad[1]["kind"], 0) + 1
            key = (bad[1]["kind"], nk, case.get("verify"))
            if reported < MAX_REPORT and key not in seen:
                seen.add(key)
                reported += 1
                ctx.violation("impl-violation", "%s: %s" % (suite, bad[0]), case, signature=bad[1])
        keep.append((case, dict(obs, skipped=False)))
    st["wall_s"] = round(time.time() - t0, 2)
    return st, keep


def model_tie(ctx, core, keep):
    """exec_c03vc (extracted from model/TlsVerifyCert.v):
         op 1: verify_certificate's decision structure on the oracle values observed for the case
               -> [outcome, host matcher consulted, ip matcher consulted, chain verified]
         op 2: the name flow of tls.Context: (name present, is IP literal, verify) -> [SNI present, verify_certificate
               called, name handed to it present]"""
    st = {"cases": 0, "disagreements": 0, "vc_cases": 0, "flow_cases": 0, "skipped_model_not_built": False, "model_outcomes": {}}
    if not ctx.proof_ok() or not os.path.exists(core.DRIVER):
        st["skipped_model_not_built"] = True
        return st
    toks, exps, cases = [], [], []
    for case, obs in keep:
        if case["suite"] == "vc-names":
            if not obs["ok"] and obs["stop"].get("alert") is None:
                continue
            consulted = [m[0] for m in obs["matchers"]]
            exps.append([0 if obs["ok"] else int(obs["stop"]["alert"]), int("host" in consulted), int("ip" in consulted)])
            toks.append([1] + [int(x) for x in obs["model_in"]])
            cases.append(case)
            st["vc_cases"] += 1
        elif case["suite"] == "tls-names" and not obs.get("setup_error") and obs.get("sni_present") is not None:
            name = NAMES[case["name"]]
            try:
                name_ascii = name is None or bool(name.encode("ascii"))
            except UnicodeEncodeError:
                continue
            reached = bool(obs["vc_names"]) or obs["client_complete"]
            if not reached:
                continue                  # the handshake stopped before CertificateVerify was checked
            verify = case.get("verify", "default") != "none"
            toks.append([2, 0 if name is None else 1, 0 if name is None else _is_ip(name), int(verify)])
            vc = obs["vc_names"]
            exps.append([int(bool(obs["sni_present"])), int(bool(vc)), int(bool(vc) and vc[0] is not None),
                         int(bool(vc) and vc[0] == name) if vc else 0])
            cases.append(case)
            st["flow_cases"] += 1
    got = core.run_model("exec_c03vc", toks) if toks else []
    reported = 0
    for case, exp, g in zip(cases, exps, got):
        st["cases"] += 1
        k = "%s:%s" % (case["suite"], g[0] if g else "?")
        st["model_outcomes"][k] = st["model_outcomes"].get(k, 0) + 1
        if list(g)[:len(exp)] != exp:
            st["disagreements"] += 1
            if reported < MAX_REPORT:
                reported += 1
                what = ("model verify_certificate decision (outcome, hostname matcher consulted, IP matcher consulted) and "
                        "tls.verify_certificate disagree" if case["suite"] == "vc-names" else
                        "model name flow (SNI present, verify_certificate called, name handed over present, name handed over "
                        "is the configured server_name) and tls.Context disagree")
                ctx.violation("correspondence", what, case, signature={"suite": "model-names", "kind": "correspondence", "of": case["suite"]},
                              extra={"impl_output": exp, "model_output": g, "correspondence": "exec_c03vc"}, no_input=True)
    return st


def n_run(ctx, rng=None):
    rng = rng or random.Random(ctx.rng.getrandbits(64))
    out = {"_obs": []}
    try:
        n_env()
        for suite, gen, label in (("vc-names", vc_cases, "vc_names"), ("tls-names", tls_cases, "tls_names")):
            st, keep = run_suite(ctx, suite, gen(rng, ctx.tier))
            out[label] = st
            out["_obs"] += keep
    finally:
        n_close()
    return out


def nq_run(ctx, rng):
    """QUIC-level part (runs in the forked child of c03.py together with the other QUIC suites)"""
    try:
        n_env()
        st, keep = run_suite(ctx, "quic-names", quic_cases(rng, ctx.tier))
    finally:
        n_close()
    return {"quic_names": st, "_obs": keep}


def n_replay(ctx, case):
    try:
        n_env()
        run, oracle = RUNNERS[case["suite"]]
        obs = run(case)
        return {"case": case, "obs": obs, "oracle": oracle(case, obs)}
    finally:
        n_close()
