"""C12  Acknowledgements are sound and timely.

Tie: real QuicConnection pairs (harness/sim).  Every public API call on a traced endpoint is projected onto
the op trace of coq/model/AckQueue.v (one model space per packet number space: decrypted packets with their
packet number / ack-eliciting flag / arrival time / the acknowledgements of our own ACK frames they carry,
handshake completion, discards, close, and the ACK part of every datagrams_to_send with the room left in the
packet and the pacer's verdict) and the extracted model must predict

* the exact bytes of every ACK frame that appears on the wire (decrypted by the wire observer), or that none
  appears / the builder stopped;
* after every call: ack_at, largest_received_packet and the ack_queue of all three spaces.

The same runs are projected a second time onto coq/model/RecvAck.v (suite "recvack", exec_recvack): one op per packet with
its decryption verdict and the effects of its payload in the order they fired, then the recording tail in the order of the
code; compared after every call: ack_at, largest_received_packet, expected_packet_number, ack_queue of the three spaces.

Three suites: "natural" (both endpoints of a pair traced from the first datagram under generated loss /
duplication / reordering / delay, application traffic), "puppet" (after a real handshake the peer is replaced by
a key-holding puppet that sends packets with chosen packet numbers -- gaps, reordering, duplicates, corrupted
copies, frames that are connection errors -- and acknowledges any subset of the subject's ACK-bearing packets;
sends at arbitrary instants, timers honoured), "writer" (direct calls of QuicConnection._write_ack_frame /
_on_ack_delivery on real packet builders with every room around the capacity boundary; exact bytes).

Implementation oracle (independent of the model, wire + public events only), on every run:
  O1 every packet number in an ACK frame sent in a space was delivered to the endpoint, genuine, in that space;
  O2 after handshake completion every accepted ack-eliciting packet carrying a new largest packet number in the
     application space is covered by an ACK frame sent no later than arrival + advertised max_ack_delay
     (timers are fired when asked), and get_timer() never exceeds that deadline while the ACK is owed;
  O3 Initial / Handshake: such a packet is covered by the next packet sent in that space;
  O4 no API call raises."""
import json
import logging
from fractions import Fraction

from vlib import core, corr

GENERATORS = ["c12_consts", "c12_recv_order"]
DEPENDS = ["AckQueue", "AckQueueP", "AckQueueP2", "AckQueueP3", "RecvAck", "RecvAckP", "RecvAckT", "RecvAckD", "RangeSet", "RangeSetP", "AckFrame",
           "AckFrameProofs", "C12Consts", "C12RecvOrder", "Base", "Tok", "C12"]
TRUSTED_BASE = [
    "Coq kernel; extraction (ExtrOcamlBasic only; Z kept inductive) + coq/extract/driver.ml for running coq/model/AckQueue.v",
    "harness/sim (Pair driver loop mirroring aioquic.asyncio, wire observer with its own frame parser, puppet) and "
    "harness/props/c12.py (projection of a run onto the model's op trace; decides what 'agree' means)",
    "times: doubles are mapped to integers in units of 2^-52 s (exact for every double >= 1); now + _ack_delay and the "
    "encoded ACK delay field are evaluated by the harness in Python float arithmetic from the generated constants and "
    "handed to the model as data",
    "LABELLED INSTRUMENTATION used to build model inputs: calls of _on_ack_delivery (which of our ACK frames a packet "
    "acknowledged), entry of _write_ack_frame (room = builder.remaining_buffer_space), entry of _write_application, "
    "QuicPacketBuilder.start_packet outcomes (could a packet of the space be started), the pacer's verdict "
    "(_loss._pacer.next_send_time(now), idempotent), _handshake_complete, space.discarded, _close_pending/_state; "
    "LABELLED PEEKS compared with the model: ack_at, largest_received_packet, ack_queue of the three spaces; per-packet "
    "acceptance is read from the endpoint's own qlog packet_received events",
    "modelled, not verified: connection.py / recovery.py / packet.py acknowledgement logic as Gallina functions",
    "coq/model/RecvAck.v (suite recvack): the per-packet decryption verdict is read from the endpoint's own qlog "
    "(packet_received / packet_dropped key_unavailable | payload_decrypt_error), the reserved-bits close from the close "
    "reason, the ORDER of the payload's effects from the number of frames the packet had logged when each labelled "
    "_on_ack_delivery / discard_space call fired; the statement order of receive_datagram is read by "
    "tools/gen/c12_recv_order.py (ast; trusted to recognise the statement forms it lists, fails closed on others)",
]
ASSUMPTIONS = [
    "the caller fires handle_timer / datagrams_to_send no later than get_timer() (the property's own premise)",
    "packet numbers handed over by decrypt_packet lie in [0, 2^62) (checked on every op fed to the model)",
    "delivery handlers run only for frames that were written (C08; checked on every op fed to the model)",
    "the clock is monotone; the encoded ACK delay is in [0, 2^62)",
    "composed theorems (creach): a decrypted packet number lies in [0, 2^62) -- the ONLY premise; in particular no premise "
    "that acknowledged ACK frames were written (an unknown handler argument has no handler in the model)",
    "composed timeliness (creach_t, ack_timely_composed): ONE clock for the whole connection that never goes back over "
    "packets and sends of all three spaces, every d = fl(now + _ack_delay) - now in [0, dmax], encodable delay, at most "
    "MAX_ACK_RANGES ranges queued at a send (same premise as reach_t); no premise on verdicts, payload effects, discards",
    "composed discipline (creach_d, ack_timely_cap_composed): as creach_t without the range-count premise; per space, no "
    "further packet of the space is handed to the connection before a send of that space with room for the ACK frame was "
    "made (any pacer verdict); CAP_ACK_NOW and PACING_LE true (tree with docs/C12-fix-2.patch)",
    "ack_timely: at most MAX_ACK_RANGES ranges are queued when the ACK is written; with docs/C12-fix-2.patch (CAP_ACK_NOW, "
    "PACING_LE probed from the source) this premise is discharged by the driver discipline 'a datagrams_to_send with room "
    "after every receive_datagram' (ack_timely_cap); otherwise / without the discipline ack_timely_cap_refuted applies",
]

SCALE = 1 << 52
SPIDX = {"initial": 0, "handshake": 1, "app": 2}
QLOG_SP = {"initial": 0, "handshake": 1, "0RTT": 2, "1RTT": 2}
PKT_SP = {"initial": 0, "handshake": 1, "0rtt": 2, "1rtt": 2}
NON_ELICITING = ("ack", "padding", "connection_close")
BIG_ROOM = 1 << 20
_CONSTS = None


def consts():
    global _CONSTS
    if _CONSTS is None:
        import importlib.util
        import os
        spec = importlib.util.spec_from_file_location("c12_consts", os.path.join(core.VERIF, "tools", "gen", "c12_consts.py"))
        m = importlib.util.module_from_spec(spec)
        spec.loader.exec_module(m)
        try:
            _CONSTS = m.read_consts()
        except Exception:
            # the translator failed closed (reported by the build as a proof violation); the oracle and the
            # correspondence still run, with the constants of the tree the model was written for
            _CONSTS = {"ACK_FRAME_CAPACITY": 64, "MAX_ACK_RANGES": 32, "UINT_VAR_MAX_SIZE": 8, "FT_ACK": 2,
                       "MIN_FRAME_CAPACITY": 2, "LOCAL_ACK_DELAY_EXPONENT": 3, "ACK_DELAY_US": 1000,
                       "ADV_MAX_ACK_DELAY_MS": 25, "CAP_ACK_NOW": False, "PACING_LE": False}
    return _CONSTS


def enc(x):
    f = Fraction(float(x)) * SCALE
    if f.denominator != 1:
        raise ValueError("time %r is not on the 2^-52 grid" % (x,))
    return int(f)


def opt(v):
    return [0] if v is None else [1, enc(v)]


def dump_ranges(incl):
    out = [len(incl)]
    for a, b in incl:
        out += [a, b + 1]
    return out


# ======================================================================================
# tracing one endpoint

_CURRENT = [None]          # the tracer whose endpoint is inside an API call (for the class-level builder hook)
_PATCHED = [False]


def _patch_builder():
    if _PATCHED[0]:
        return
    from aioquic.quic import packet_builder as pb
    orig = pb.QuicPacketBuilder.start_packet

    def start_packet(self, packet_type, crypto):
        tr = _CURRENT[0]
        try:
            r = orig(self, packet_type, crypto)
        except pb.QuicPacketBuilderStop:
            if tr is not None:
                tr.starts.append((packet_type, False))
            raise
        if tr is not None:
            tr.starts.append((packet_type, True))
        return r

    pb.QuicPacketBuilder.start_packet = start_packet
    orig_sf = pb.QuicPacketBuilder.start_frame

    def start_frame(self, frame_type, *a, **k):
        try:
            return orig_sf(self, frame_type, *a, **k)
        except pb.QuicPacketBuilderStop:
            tr = _CURRENT[0]
            if tr is not None:
                tr.frame_stops.append((int(frame_type), len(tr.starts), len(tr.ackcalls)))
            raise

    pb.QuicPacketBuilder.start_frame = start_frame
    _PATCHED[0] = True


class Pending:
    """Expected tokens of a Send op, resolved when the observer has seen the datagrams."""

    def __init__(self, sp, datagrams, entered):
        self.sp, self.datagrams, self.entered = sp, datagrams, entered


class Tracer:
    def __init__(self, pair, ep):
        self.pair, self.ep, self.name = pair, ep, ep.name
        self.tin, self.tout, self.log = [], [], []
        self.tin2, self.tout2 = [], []      # the same run projected onto coq/model/RecvAck.v (exec_recvack)
        self.cur2 = []
        self.cur_frames = None
        self.hist = []
        self.bad = []
        self.hooked = None
        self.cur = []
        self.starts = []
        self.ackcalls = []
        self.frame_stops = []
        self.wa_entered = False
        self.lrp = [-1, -1, -1]
        self.lrt = [None, None, None]
        self.written = [set(), set(), set()]
        self.complete = False
        self.closing = False
        self.disc = [False, False, False]
        self.nops = 0
        self.counts = {"recv": 0, "send": 0, "frames": 0, "dels": 0, "stop": 0, "dup": 0, "reordered": 0, "paced": 0}
        self.seen = [set(), set(), set()]
        self.ack_tx = []            # (datagrams, space, largest recorded at the write) of sends that entered _write_ack_frame
        self.tx_h = {}              # (space, subject pn) -> largest recorded when that ACK frame was written
        self.tx_done = set()
        self.wire_seen = 0
        self.wire_idx = {}
        self.c = consts()
        self._orig = ep.call
        ep.call = self.call
        _patch_builder()

    # ---- hooks ------------------------------------------------------------------------------
    def hook(self):
        c = self.ep.conn
        if c is None or self.hooked is c:
            return
        self.hooked = c
        me = self
        from aioquic.quic.packet_builder import QuicDeliveryState
        spaces = c._loss.spaces

        def spi(space):
            for i, s in enumerate(c._loss.spaces):
                if s is space:
                    return i
            return -1

        o_del = c._on_ack_delivery

        def on_ack_delivery(delivery, space, *rest):
            # robust against a changed handler signature: without the argument the harness reconstructs which frame was
            # acknowledged from the wire (see on_receive)
            if delivery == QuicDeliveryState.ACKED:
                me.cur.append(("del", spi(space), rest[0] if rest else None))
                me.cur2.append(("del", spi(space), len(me.cur_frames) if me.cur_frames is not None else 0))
            return o_del(delivery, space, *rest)

        c._on_ack_delivery = on_ack_delivery
        o_w = c._write_ack_frame

        def write_ack_frame(builder, space, now):
            me.ackcalls.append((spi(space), builder.remaining_buffer_space))
            return o_w(builder=builder, space=space, now=now)

        c._write_ack_frame = write_ack_frame
        o_wa = c._write_application

        def write_application(builder, network_path, now):
            me.wa_entered = True
            return o_wa(builder, network_path, now)

        c._write_application = write_application
        o_ds = c._loss.discard_space

        def discard_space(space):
            me.cur.append(("disc", spi(space)))
            me.cur2.append(("disc", spi(space), len(me.cur_frames) if me.cur_frames is not None else 0))
            return o_ds(space)

        c._loss.discard_space = discard_space
        tr = c._quic_logger
        if tr is not None:
            o_log = tr.log_event

            def log_event(*, category, event, data):
                if event == "packet_received" and "packet_number" in data.get("header", {}) and "frames" in data:
                    me.cur.append(("pkt", data["header"]["packet_type"], data["header"]["packet_number"], data["frames"]))
                    me.cur2.append(("pkt",))
                    me.cur_frames = data["frames"]
                elif event == "packet_dropped" and data.get("trigger") in ("key_unavailable", "payload_decrypt_error"):
                    me.cur2.append(("drop", 1 if data["trigger"] == "key_unavailable" else 2))
                    me.cur_frames = None
                return o_log(category=category, event=event, data=data)

            tr.log_event = log_event
        del spaces

    def resolve_tx(self):
        net, obs = self.pair.network, self.pair.observer
        for rec in net.wire_log[self.wire_seen:]:
            self.wire_idx.setdefault(bytes(rec.data), rec.index)
        self.wire_seen = len(net.wire_log)
        rest = []
        for (datagrams, sp, h) in self.ack_tx:
            found = False
            for data in datagrams:
                for p in obs.by_datagram.get(self.wire_idx.get(data), []):
                    if p.decrypted and PKT_SP.get(p.type) == sp and any(f.name in ("ACK", "ACK_ECN") for f in p.frames):
                        self.tx_h.setdefault((sp, p.pn), h)
                        found = True
            if not found:
                rest.append((datagrams, sp, h))
        self.ack_tx = rest[-50:]

    def peek(self):
        c = self.ep.conn
        from aioquic.quic.connection import END_STATES
        return {"closing": bool(c._close_pending or c._state in END_STATES), "complete": bool(c._handshake_complete),
                "disc": [bool(s.discarded) for s in c._loss.spaces]}

    def obs(self):
        out = []
        for i, s in enumerate(self.ep.conn._loss.spaces):
            self.tin += [i, 7]
            self.tout += opt(s.ack_at) + [s.largest_received_packet] + dump_ranges([(r.start, r.stop - 1) for r in s.ack_queue])
            self.tin2 += [i, 7]
            self.tout2 += opt(s.ack_at) + [s.largest_received_packet, s.expected_packet_number] + \
                dump_ranges([(r.start, r.stop - 1) for r in s.ack_queue])
        return out

    def flips(self, before, after):
        if after["complete"] and not self.complete:
            self.complete = True
            self.tin += [0, 0]
            self.tout += [0]
            self.tin2 += [0, 0]
            self.tout2 += [0]
            self.log.append("complete")
            self.hist.append(("complete", self.pair.clock.now))
        for i in range(3):
            if after["disc"][i] and not self.disc[i]:
                self.disc[i] = True
                self.tin += [i, 3]
                self.tout += [0]
                self.tin2 += [i, 3]
                self.tout2 += [0]
                self.log.append("discard %d" % i)
                self.hist.append(("discard", self.pair.clock.now, i))
        if after["closing"] and not self.closing:
            self.closing = True
            self.hist.append(("closing", self.pair.clock.now))

    # ---- the wrapped call -------------------------------------------------------------------------
    def call(self, name, *args, **kwargs):
        if self.ep.conn is None:
            return self._orig(name, *args, **kwargs)
        self.hook()
        now = self.pair.clock.now
        if name == "receive_datagram":
            return self.on_receive(now, args, kwargs)
        if name == "datagrams_to_send":
            return self.on_send(now, args, kwargs)
        n_raised = len(self.ep.raised)
        before = self.peek()
        _CURRENT[0] = self
        try:
            r = self._orig(name, *args, **kwargs)
        finally:
            _CURRENT[0] = None
        self.raised(n_raised, name)
        if name == "get_timer":
            self.hist.append(("timer", now, r))
        elif name == "close":
            after = self.peek()
            if after["closing"] and not self.closing:
                self.tin += [0, 4]
                self.tout += [0]
                self.tin2 += [0, 4]
                self.tout2 += [0]
                self.log.append("close")
            self.flips(before, after)
        elif name in ("handle_timer", "connect"):
            self.flips(before, self.peek())
        return r

    def raised(self, n0, name):
        for c in self.ep.raised[n0:]:
            self.bad.append(("API call %s raised %s" % (name, c.exc_type),
                             {"oracle": "O4", "api": name, "exception": c.exc_type}))
            self.hist.append(("raised", self.pair.clock.now, name, c.exc_type))

    def timed_premise(self, t, d):
        """premises of creach_t (proofs/RecvAckT.v, ack_timely_composed): ONE clock for all spaces that never goes back,
        and every acknowledgement delay fl(now + _ack_delay) - now within dmax = the advertised max_ack_delay"""
        last = getattr(self, "last_t", None)
        if last is not None and t < last:
            self.bad.append(("the clock went back between two API calls (%r < %r)" % (t, last), {"oracle": "premise"}))
        self.last_t = t
        if d is not None:
            dmax = self.c["ADV_MAX_ACK_DELAY_MS"] * SCALE // 1000
            if not (0 <= d <= dmax):
                self.bad.append(("acknowledgement delay %r outside [0, dmax = %r]" % (d, dmax), {"oracle": "premise"}))
            self.counts["timed_premise_checked"] = self.counts.get("timed_premise_checked", 0) + 1

    def on_receive(self, now, args, kwargs):
        before = self.peek()
        self.cur = []
        self.cur2 = []
        self.cur_frames = None
        n_raised = len(self.ep.raised)
        _CURRENT[0] = self
        try:
            r = self._orig("receive_datagram", *args, **kwargs)
        finally:
            _CURRENT[0] = None
        self.raised(n_raised, "receive_datagram")
        self.hist.append(("rx", now, bytes(args[0])))
        after = self.peek()
        t = enc(now)
        d = enc(now + self.c["ACK_DELAY_US"] / 1000000) - t
        self.timed_premise(t, d)
        pkts = []
        for e in self.cur:
            if e[0] == "pkt":
                pkts.append([e, [], []])
            elif e[0] == "disc":
                if pkts:
                    pkts[-1][2].append(e[1])
            elif pkts:
                pkts[-1][1].append(e)
            else:
                self.bad.append(("ACK delivery outside a packet", {"oracle": "premise"}))
        became_closing = after["closing"] and not before["closing"]
        # the same call for model/RecvAck.v: per packet the decryption verdict and the effects of the payload in the order
        # they happened (each labelled event remembers how many frames had been logged when it fired)
        groups, lead = [], []
        for e2 in self.cur2:
            if e2[0] == "pkt":
                groups.append({"drops": lead, "evs": []})
                lead = []
            elif e2[0] == "drop":
                lead.append(e2[1])
            elif groups:
                groups[-1]["evs"].append(e2)
        trailing_drops = lead
        ce = self.ep.conn._close_event
        reserved_close = became_closing and getattr(ce, "reason_phrase", "") == "Reserved bits must be zero"
        for k, (e, dels, discs) in enumerate(pkts):
            _, ptype, pn, frames = e
            sp = QLOG_SP.get(ptype)
            for v in (groups[k]["drops"] if k < len(groups) else []):
                self.tin2 += [2, 1, v, 0, 0, t, d, 0]
                self.tout2 += [0]
            if sp is None:
                continue
            # a space discarded while this very packet is processed is discarded before the packet is recorded
            for dsp in discs:
                if not self.disc[dsp]:
                    self.disc[dsp] = True
                    self.tin += [dsp, 3]
                    self.tout += [0]
                    self.log.append("discard %d (during packet)" % dsp)
                    self.hist.append(("discard", now, dsp))
            ok = not before["closing"] and not (became_closing and k == len(pkts) - 1)
            elic = any(f.get("frame_type") not in NON_ELICITING for f in frames)
            hs = []
            if any(h is None for _, _dsp, h in dels):
                # handler called without highest_acked: take it from the wire -- the ACK-bearing packets of ours that this
                # packet's ACK frames newly acknowledge, in increasing order (the order on_ack_received uses)
                self.resolve_tx()
                cands = []
                for f in frames:
                    if f.get("frame_type") == "ack":
                        for a, b in f.get("acked_ranges", []):
                            cands += [q for (s2, q) in self.tx_h if s2 == sp and a <= q <= b and (sp, q) not in self.tx_done]
                cands = sorted(set(cands))
                fixed = []
                for _, dsp, h in dels:
                    if h is None and cands:
                        q = cands.pop(0)
                        self.tx_done.add((sp, q))
                        fixed.append(("del", dsp, self.tx_h[(sp, q)]))
                    elif h is not None:
                        fixed.append(("del", dsp, h))
                dels = fixed
            for _, dsp, h in dels:
                if dsp != sp:
                    self.bad.append(("ACK delivery for another space", {"oracle": "premise"}))
                if h not in self.written[sp]:
                    self.bad.append(("ACK delivery for a frame that was not written (highest %r)" % (h,), {"oracle": "premise"}))
                hs.append(h)
            if not (0 <= pn < (1 << 62)):
                self.bad.append(("packet number %r out of range" % (pn,), {"oracle": "premise"}))
            self.tin += [sp, 1, pn, int(elic), t, d, len(hs)] + hs + [int(ok)]
            self.tout += [0]
            fx = self.effects(frames, groups[k]["evs"] if k < len(groups) else [], hs, ok)
            rsv = int(reserved_close and k == len(pkts) - 1 and not frames)
            self.tin2 += [sp, 1, 0, pn, rsv, t, d, len(fx) // 2] + fx
            self.tout2 += [0]
            self.nops += 1
            self.counts["recv"] += 1
            self.counts["dels"] += len(hs)
            if pn in self.seen[sp]:
                self.counts["dup"] += 1
            elif pn < self.lrp[sp]:
                self.counts["reordered"] += 1
            self.seen[sp].add(pn)
            self.log.append("recv sp=%d pn=%d elic=%d ok=%d dels=%s t=%.6f" % (sp, pn, elic, ok, hs, now))
            recorded = ok and not self.disc[sp]
            self.hist.append(("acc", now, sp, pn, elic, recorded, self.complete))
            if recorded and pn > self.lrp[sp]:
                self.lrp[sp] = pn
                self.lrt[sp] = now
        for v in trailing_drops:
            self.tin2 += [2, 1, v, 0, 0, t, d, 0]
            self.tout2 += [0]
        self.flips(before, after)
        self.obs()
        return r

    def effects(self, frames, evs, hs, ok):
        """Effect tokens (kind, argument) of one payload for exec_recvack: 0 h FxAck | 1 e FxFrame | 3 j FxDiscard |
        4 _ FxPeerClose | 5 _ FxError.  An event that fired when p frames had been logged belongs to the handler of frame
        p - 1 (handlers log their frame first), or precedes the payload (p = 0: the server discards Initial before it
        handles a Handshake payload)."""
        out = []
        hs = list(hs)
        by_pos = {}
        for ev in evs:
            by_pos.setdefault(ev[2], []).append(ev)

        def flush(pos):
            for ev in by_pos.pop(pos, []):
                if ev[0] == "del":
                    if hs:
                        out.extend([0, hs.pop(0)])
                else:
                    out.extend([3, ev[1]])
        flush(0)
        for f, fr in enumerate(frames):
            flush(f + 1)
            if not ok and fr.get("frame_type") == "connection_close":
                out.extend([4, 0])
            out.extend([1, int(fr.get("frame_type") not in NON_ELICITING)])
        for pos in sorted(by_pos):
            flush(pos)
        if not ok and not any(fr.get("frame_type") == "connection_close" for fr in frames):
            out.extend([5, 0])
        return out

    def on_send(self, now, args, kwargs):
        c = self.ep.conn
        before = self.peek()
        self.starts, self.ackcalls, self.wa_entered, self.frame_stops = [], [], False, []
        try:
            blocked = c._loss._pacer.next_send_time(now=now) is not None
        except Exception:
            blocked = False
        from aioquic import tls
        keys = [c._cryptos[tls.Epoch.INITIAL].send.is_valid() if tls.Epoch.INITIAL in c._cryptos else False,
                c._cryptos[tls.Epoch.HANDSHAKE].send.is_valid() if tls.Epoch.HANDSHAKE in c._cryptos else False,
                (c._cryptos[tls.Epoch.ONE_RTT].send.is_valid() or c._cryptos[tls.Epoch.ZERO_RTT].send.is_valid())
                if tls.Epoch.ONE_RTT in c._cryptos else False]
        n_raised = len(self.ep.raised)
        _CURRENT[0] = self
        try:
            r = self._orig("datagrams_to_send", *args, **kwargs)
        finally:
            _CURRENT[0] = None
        self.raised(n_raised, "datagrams_to_send")
        after = self.peek()
        datagrams = [bytes(x[0]) for x in (r or [])]
        txinfo = {"start_failed": False, "pending": None}
        self.hist.append(("tx", now, datagrams, txinfo))
        from aioquic.quic.packet import QuicPacketType
        tsp = {QuicPacketType.INITIAL: 0, QuicPacketType.HANDSHAKE: 1, QuicPacketType.ZERO_RTT: 2, QuicPacketType.ONE_RTT: 2}
        first = {}
        for ptype, okk in self.starts:
            first.setdefault(tsp[ptype], okk)
        rooms = {}
        for sp, room in self.ackcalls:
            rooms.setdefault(sp, room)
        t = enc(now)
        self.timed_premise(t, None)
        # a frame written before the ACK in the first application packet (PATH_CHALLENGE on an unvalidated path) made
        # the builder stop: the ACK branch was not reached (premise of the model's Send op: it is reached)
        app_starts = [i for i, (pt, okk) in enumerate(self.starts) if tsp[pt] == 2 and okk]
        early_stop = bool(app_starts) and 2 not in rooms and any(
            ft != self.c["FT_ACK"] and ns == app_starts[0] + 1 for ft, ns, _na in self.frame_stops)
        txinfo["start_failed"] = (first.get(2) is False or early_stop
                                  or (not self.wa_entered and any(not okk for _, okk in self.starts)))
        if not before["closing"]:
            for sp in range(3):
                if sp < 2:
                    emit = first.get(sp) is True
                else:
                    emit = self.wa_entered and keys[2] and first.get(2) is not False and not early_stop
                if not emit:
                    continue
                if self.lrt[sp] is None:
                    delay = 0
                else:
                    delay = int((now - self.lrt[sp]) * 1000000) >> self.c["LOCAL_ACK_DELAY_EXPONENT"]
                if not (0 <= delay < (1 << 62)):
                    self.bad.append(("encoded ACK delay %r out of range" % (delay,), {"oracle": "premise"}))
                room = rooms.get(sp, BIG_ROOM)
                self.tin += [sp, 2, t, delay, room, int(blocked and sp == 2)]
                self.tout.append(Pending(sp, datagrams, sp in rooms))
                self.tin2 += [sp, 2, t, delay, room, int(blocked and sp == 2)]
                self.tout2.append(self.tout[-1])
                if sp == 2:
                    txinfo["pending"] = self.tout[-1]
                    self.counts["paced"] += int(blocked)
                self.nops += 1
                self.counts["send"] += 1
                if sp in rooms:
                    self.written[sp].add(self.lrp[sp])
                    self.ack_tx.append((datagrams, sp, self.lrp[sp]))
                self.log.append("send sp=%d t=%.6f delay=%d room=%d blocked=%d entered=%d" %
                                (sp, now, delay, room, blocked, sp in rooms))
        self.flips(before, after)
        self.obs()
        return r

    # ---- after the run ------------------------------------------------------------------------------
    def finalize(self, index_of):
        """Resolve pending Send outputs from the observer's view of the datagrams."""
        obs = self.pair.observer
        out = []
        for x in self.tout:
            if not isinstance(x, Pending):
                out.append(x)
                continue
            x.tokens = None
            frame = None
            for data in x.datagrams:
                idx = index_of.get(data)
                for p in obs.by_datagram.get(idx, []) if idx is not None else []:
                    if p.decrypted and PKT_SP.get(p.type) == x.sp and frame is None:
                        for f in p.frames:
                            if f.name in ("ACK", "ACK_ECN"):
                                frame = f.raw
                                break
            if frame is not None:
                x.tokens = [13, len(frame)] + list(frame)
                self.counts["frames"] += 1
                x.result = "frame"
            elif x.entered:
                x.tokens = [11]
                self.counts["stop"] += 1
                x.result = "stop"
            else:
                x.tokens = [10]
                x.result = "none"
            out += x.tokens
        self.tout = out
        out2 = []
        for x in self.tout2:
            if isinstance(x, Pending):
                out2 += x.tokens
            else:
                out2.append(x)
        self.tout2 = out2
        return out


# ======================================================================================
# the implementation oracle (wire + public events; independent of the model and of the peeks)


def oracle_endpoint(pair, ep, tracer, index_of, end_time, max_ack_delay):
    """Returns a list of (what, signature)."""
    bad = list(tracer.bad)
    obs = pair.observer
    me = ep.name
    sdir = "c2s" if me == "client" else "s2c"
    rdir = "s2c" if me == "client" else "c2s"
    # what was delivered to me, genuine, per space (independent parse of the delivered datagrams)
    delivered = [[], [], []]      # (time, pn)
    for h in tracer.hist:
        if h[0] != "rx":
            continue
        idx = index_of.get(h[2])
        for p in obs.by_datagram.get(idx, []) if idx is not None else []:
            if p.decrypted and p.type in PKT_SP and p.direction == rdir:
                delivered[PKT_SP[p.type]].append((h[1], p.pn))
    # what I sent: (time, sp, pn, ranges|None, close)
    sent = []
    for h in tracer.hist:
        if h[0] != "tx":
            continue
        for data in h[2]:
            idx = index_of.get(data)
            for p in obs.by_datagram.get(idx, []) if idx is not None else []:
                if not p.decrypted or p.type not in PKT_SP:
                    continue
                rngs = None
                close = False
                for f in p.frames:
                    if f.name in ("ACK", "ACK_ECN"):
                        rngs = list(f.fields["ranges"])
                    if f.name == "CONNECTION_CLOSE":
                        close = True
                sent.append((h[1], PKT_SP[p.type], p.pn, rngs, close))
    # O1 soundness
    for (u, sp, pn, rngs, _close) in sent:
        if not rngs:
            continue
        have = {q for (t, q) in delivered[sp] if t <= u}
        for a, b in rngs:
            if b - a > 100000:
                bad.append(("ACK frame in packet %d (space %d) reports a range of %d packets" % (pn, sp, b - a + 1),
                            {"oracle": "O1", "space": sp}))
                continue
            for q in range(a, b + 1):
                if q not in have:
                    bad.append(("ACK frame in packet %d (space %d, t=%.6f) lists packet number %d which was never "
                                "delivered in that space" % (pn, sp, u, q), {"oracle": "O1", "space": sp}))
                    break
    closing_at = None
    for h in tracer.hist:
        if h[0] == "closing":
            closing_at = h[1]
            break
    for (u, sp, pn, rngs, close) in sent:
        if close and (closing_at is None or u < closing_at):
            closing_at = u
    timers = [(i, h[1], h[2]) for i, h in enumerate(tracer.hist) if h[0] == "timer"]
    discard_at = {}
    for h in tracer.hist:
        if h[0] == "discard":
            discard_at.setdefault(h[2], h[1])
    # O2 / O3 timeliness
    largest = [-1, -1, -1]
    cap = consts()["MAX_ACK_RANGES"]
    for hi, h in enumerate(tracer.hist):
        if h[0] != "acc":
            continue
        _, t, sp, pn, elic, recorded, complete = h
        if not recorded:
            continue
        new_largest = pn > largest[sp]
        if new_largest:
            largest[sp] = pn
        if not (elic and new_largest) or sp != 2:
            continue
        if True:
            if not complete:
                continue
            deadline = t + max_ack_delay
            if closing_at is not None and closing_at <= deadline:
                continue
            if end_time < deadline:
                continue
            cover = [s for s in sent if s[1] == 2 and t <= s[0] <= deadline and s[3]
                     and any(a <= pn <= b for a, b in s[3])]
            if not cover:
                # the theorem's premise: a packet of the space can be started and has room for the frame.  When the last
                # datagrams_to_send before the deadline was stopped by the packet builder (anti-amplification budget on an
                # unvalidated path, sim.md S2), the ACK cannot be sent: exempt, counted.
                lasttx = None
                for h2 in tracer.hist[hi:]:
                    if h2[0] == "tx" and h2[1] <= deadline:
                        lasttx = h2
                if lasttx is not None and (lasttx[3]["start_failed"] or
                                           (lasttx[3]["pending"] is not None and getattr(lasttx[3]["pending"], "result", "") == "stop")):
                    tracer.counts["exempt_builder_stop"] = tracer.counts.get("exempt_builder_stop", 0) + 1
                    continue
                acks = [s for s in sent if s[1] == 2 and t <= s[0] <= deadline and s[3]]
                capped = bool(acks) and all(len(s[3]) >= cap and min(a for a, _ in s[3]) > pn for s in acks)
                sig = {"oracle": "O2", "cause": "ack-range-cap" if capped else "not-acknowledged-in-time"}
                if capped:
                    # the driver discipline of ack_timely_cap: was every receive_datagram since the packet arrived followed by
                    # a datagrams_to_send before the next receive_datagram (up to the first capped ACK)?
                    first_capped = min(s[0] for s in acks)
                    pending, discipline = True, True
                    for h2 in tracer.hist[hi + 1:]:
                        if h2[1] > first_capped:
                            break
                        if h2[0] == "rx":
                            if pending:
                                discipline = False
                            pending = True
                        elif h2[0] == "tx":
                            pending = False
                    sig["discipline"] = discipline
                bad.append(("ack-eliciting packet %d (largest so far, application space) accepted at %.6f is not covered by "
                            "any ACK frame sent by %.6f%s" % (pn, t, deadline, (" (dropped by the MAX_ACK_RANGES cap; a send after "
                            "every receive: %s)" % sig["discipline"]) if capped else ""), sig))
                continue
            first_cover = min(s[0] for s in cover)
            for (ti, tt, v) in timers:
                if ti > hi and tt < first_cover and (v is None or v > deadline):
                    bad.append(("get_timer() = %r at %.6f while the ACK for packet %d (accepted %.6f) is owed by %.6f"
                                % (v, tt, pn, t, deadline), {"oracle": "O2", "cause": "timer-late"}))
                    break
    # O3: Initial / Handshake -- walk the history in order
    owed = {0: None, 1: None}
    largest = [-1, -1, -1]
    closing = False
    for h in tracer.hist:
        if h[0] == "closing":
            closing = True
        elif h[0] == "acc":
            _, t, sp, pn, elic, recorded, complete = h
            if recorded and pn > largest[sp]:
                largest[sp] = pn
                if elic and sp < 2:
                    owed[sp] = (pn, t)
        elif h[0] == "discard":
            if h[2] < 2:
                owed[h[2]] = None
        elif h[0] == "tx":
            for data in h[2]:
                idx = index_of.get(data)
                for p in obs.by_datagram.get(idx, []) if idx is not None else []:
                    if not p.decrypted or PKT_SP.get(p.type) not in (0, 1):
                        continue
                    sp = PKT_SP[p.type]
                    if owed[sp] is None:
                        continue
                    pn, t = owed[sp]
                    owed[sp] = None
                    names = p.frame_names()
                    if closing or "CONNECTION_CLOSE" in names:
                        continue
                    rngs = []
                    for f in p.frames:
                        if f.name in ("ACK", "ACK_ECN"):
                            rngs = list(f.fields["ranges"])
                    if not any(a <= pn <= b for a, b in rngs):
                        bad.append(("ack-eliciting packet %d (largest so far, space %d) accepted at %.6f is not acknowledged by "
                                    "the next packet sent in that space (packet %d at %.6f: %s)" % (pn, sp, t, p.pn, h[1], names),
                                    {"oracle": "O3", "space": sp}))
    return bad


# ======================================================================================
# running one case


def wire_index(pair):
    idx = {}
    for rec in pair.network.wire_log:
        idx.setdefault(bytes(rec.data), rec.index)
    return idx


class Run:
    def __init__(self, case):
        import sim  # noqa: F401
        logging.getLogger("quic").setLevel(logging.CRITICAL)
        self.case = case
        self.tracers = []
        self.max_ack_delay = consts()["ADV_MAX_ACK_DELAY_MS"] / 1000.0
        getattr(self, "run_" + case["kind"])()

    # ---- natural: both endpoints real, lossy network ----------------------------------------------
    def run_natural(self):
        import random
        from sim import Pair, Fates, adversarial_then_fair, gen_script
        c = self.case
        rng = random.Random(c["seed"])
        fates = adversarial_then_fair(Fates.random(random.Random(c["seed"] + 1), c["drop"], c["dup"], c["reorder"], c["delay"]),
                                      fair_after_time=c.get("fair_after", 4.0))
        pair = Pair(c["seed"], fates=fates, capture_exceptions=True,
                    congestion_control_algorithm=c.get("cc", "reno"), retry=bool(c.get("retry", False)))
        self.pair = pair
        self.tracers = [Tracer(pair, pair.client), Tracer(pair, pair.server)]
        pair.handshake(max_time=c.get("hs_time", 30.0))
        if c.get("profile"):
            try:
                pair.run_script(gen_script(rng, c["profile"]), on_api_error="record", max_time=c.get("max_time", 40.0))
            except Exception as e:  # a stalled script is not this property's business
                self.note = repr(e)
        pair.run_until_idle(max_time=c.get("idle_time", 20.0))
        self.end_time = pair.clock.now

    # ---- puppet: the peer is a key-holding puppet after the handshake ------------------------------
    def run_puppet(self):
        from sim import Pair, Puppet, F
        c = self.case
        role = c["role"]
        hidden = "server" if role == "client" else "client"
        pair = Pair(c["seed"], capture_exceptions=True)
        self.pair = pair
        subject = pair.endpoint(role)
        tr = Tracer(pair, subject)
        self.tracers = [tr]
        pair.handshake()
        pair.run_until_idle()
        if c.get("bulk"):
            # drain the pacer: the subject sends a burst of stream data to the (real) peer first
            sid = subject.get_next_available_stream_id()
            subject.send_stream_data(sid, bytes(c["bulk"]), True)
            pair.pump(subject)
            pair.run_until_idle()
        puppet = Puppet(pair, hidden)
        puppet.isolate_real()
        self.puppet = puppet
        src = pair.endpoint(hidden).addr
        net, clock = pair.network, pair.clock
        from sim.net import WireRecord, deliver
        rdir = "s2c" if role == "client" else "c2s"
        sdir = "c2s" if role == "client" else "s2c"
        base = puppet.next_pn("1rtt")
        acked_upto = -1           # subject packets at or below this were offered for acknowledgement already

        def inject(data):
            rec = WireRecord(len(net.wire_log), clock.now, rdir, src, subject.addr, data, [deliver(0.0)], None, True)
            net.wire_log.append(rec)
            for tap in net.taps:
                tap(rec)
            net.delivered.append((clock.now, rec.index, src, subject.addr))
            subject.receive_datagram(data, src)

        def send():
            out = subject.datagrams_to_send()
            for data, addr in out:
                net.send(data, subject, addr)
            subject.drain_events()
            return len(out)

        def advance(dt):
            target = clock.now + dt
            guard = 0
            while guard < 200:
                guard += 1
                tm = subject.get_timer()
                if tm is None or tm > target:
                    break
                clock.advance_to(max(tm, clock.now))
                subject.handle_timer()
                n = send()
                tm2 = subject.get_timer()
                if n == 0 and tm2 is not None and tm2 <= clock.now:
                    # an already-due timer after a no-op: re-fire one microsecond later (asyncio: call_at(past))
                    clock.advance_to(clock.now + 0.000001)
                    subject.handle_timer()
                    send()
            clock.advance_to(max(target, clock.now))

        for st in c["steps"]:
            if subject.conn._state.name in ("CLOSING", "DRAINING", "TERMINATED") and st[0] != "adv":
                continue
            k = st[0]
            if k == "adv":
                advance(st[1] / 1000000.0)
            elif k == "pkt":
                pn = base + st[1]
                what = st[2]
                if what == "ping":
                    frames = [F.ping()]
                elif what == "pad":
                    frames = [F.padding(3)]
                elif what == "data":
                    frames = [F.max_data(1 << 20)]
                elif what == "err":
                    frames = [F.ping(), F.raw(b"\x40\x21")]
                elif what == "cclose":
                    # the peer closes: _close_begin -> DRAINING in the middle of the payload, the frame loop goes on
                    frames = [F.ping(), F.connection_close(0), F.ping()]
                else:
                    frames = [F.ping()]
                data = puppet.build_packet("1rtt", frames, pn, reserved_bits=1 if what == "rsv" else 0)
                if what == "bad":
                    data = data[:-1] + bytes([data[-1] ^ 0x5A])
                inject(data)
            elif k == "ack":
                # acknowledge a subset (bit mask) of the subject's packets sent since the previous ack step
                pns = sorted({p.pn for p in pair.observer.packets
                              if p.direction == sdir and p.decrypted and p.type == "1rtt" and not p.injected
                              and p.pn > acked_upto})
                if not pns:
                    continue
                acked_upto = pns[-1]
                pick = [q for i, q in enumerate(pns) if (st[2] >> (i % 16)) & 1]
                if not pick:
                    continue
                rs = []
                for q in pick:
                    if rs and rs[-1][1] == q - 1:
                        rs[-1] = (rs[-1][0], q)
                    else:
                        rs.append((q, q))
                frames = [F.ack(rs)] + ([F.ping()] if st[3] else [])
                inject(puppet.build_packet("1rtt", frames, base + st[1]))
            elif k == "send":
                send()
            elif k == "close":
                subject.close(0, None, "c12")
        advance(0.06)
        self.end_time = clock.now

    def results(self):
        index_of = wire_index(self.pair)
        res = []
        for tr in self.tracers:
            exp = tr.finalize(index_of)
            bad = oracle_endpoint(self.pair, tr.ep, tr, index_of, self.end_time, self.max_ack_delay)
            res.append({"tin": tr.tin, "tout": exp, "tin2": tr.tin2, "tout2": tr.tout2, "bad": bad, "log": tr.log,
                        "counts": tr.counts, "name": tr.name})
        return res


_CACHE = {}


def _key(case):
    return json.dumps(case, sort_keys=True)


def execute(case):
    k = _key(case)
    if k not in _CACHE:
        if len(_CACHE) > 4000:
            _CACHE.clear()
        try:
            _CACHE[k] = Run(case).results()
        except Exception as e:
            import traceback
            _CACHE[k] = [{"tin": [], "tout": ["RUN-EXCEPTION", repr(e), traceback.format_exc()[-800:]], "bad": [],
                          "tin2": [], "tout2": ["RUN-EXCEPTION", repr(e)], "log": [], "counts": {}, "name": "?"}]
    return _CACHE[k]


def c_encode(case):
    out = []
    for r in execute(case):
        out += r["tin"]
    return out


def c_impl(case):
    out = []
    for r in execute(case):
        out += r["tout"]
    return out


# a connection-level case holds one trace per traced endpoint; the model runs each endpoint separately
def split_cases(case):
    return [{"of": case, "ep": i} for i in range(len(execute(case)))]


def e_encode(sub):
    return execute(sub["of"])[sub["ep"]]["tin"]


def e_impl(sub):
    return execute(sub["of"])[sub["ep"]]["tout"]


def e2_encode(sub):
    return execute(sub["of"])[sub["ep"]]["tin2"]


def e2_impl(sub):
    return execute(sub["of"])[sub["ep"]]["tout2"]


def e_oracle(sub):
    bad = execute(sub["of"])[sub["ep"]]["bad"]
    if bad:
        return bad[0]
    return None


def e_ops(sub):
    return sub["of"].get("steps", [])


def e_rebuild(sub, ops):
    c = dict(sub["of"])
    c["steps"] = list(ops)
    return {"of": c, "ep": sub["ep"]}


def e_opname(o):
    return o[0] if o[0] != "pkt" else "pkt:" + o[2]


def e_nontrivial(sub, out):
    return 13 in out


# ======================================================================================
# generators


def gen_puppet(rng, n):
    cases = []
    for _ in range(n):
        role = rng.choice(["client", "server"])
        steps = []
        nsteps = rng.choice([4, 8, 16, 30, 60])
        hi = 0
        style = rng.choice(["inorder", "gaps", "reorder", "dups", "mixed", "mixed"])
        for _ in range(nsteps):
            r = rng.random()
            if r < 0.45:
                if style == "inorder":
                    off = hi + 1
                elif style == "gaps":
                    off = hi + rng.choice([1, 2, 2, 3, 5])
                elif style == "reorder":
                    off = max(0, hi + rng.choice([-3, -2, -1, 1, 2, 4]))
                elif style == "dups":
                    off = max(0, hi + rng.choice([0, 0, -1, 1, 1]))
                else:
                    off = max(0, hi + rng.choice([-6, -3, -2, -1, 0, 0, 1, 1, 1, 2, 3, 7]))
                hi = max(hi, off)
                what = rng.choices(["ping", "pad", "data", "bad", "err"], [60, 20, 10, 8, 2 if rng.random() < 0.2 else 0])[0]
                if what == "err" and rng.random() < 0.6:
                    # reserved header bits set: close(PROTOCOL_VIOLATION) right after decryption / CONNECTION_CLOSE from the peer
                    what = rng.choice(["rsv", "rsv", "cclose"])
                steps.append(["pkt", off, what])
            elif r < 0.60:
                steps.append(["send"])
            elif r < 0.85:
                steps.append(["adv", rng.choice([0, 1, 100, 500, 999, 1000, 1001, 1500, 3000, 26000, 200000])])
            elif r < 0.97:
                mask = rng.getrandbits(16) | (1 if rng.random() < 0.5 else 0)
                if rng.random() < 0.3:
                    # the acknowledgement of the subject's ACK frames rides in a packet that RE-USES an old packet number (a
                    # duplicate number or one from a gap): the receiver cannot tell it from reordering; the in-payload
                    # pruning then covers the number of the carrier itself (RecvAck.v: carrier_survives_prunes)
                    steps.append(["ack", max(0, hi + rng.choice([-3, -2, -1, 0, 0, 0])), mask | (0xFFFF if rng.random() < 0.5 else 0),
                                  int(rng.random() < 0.7)])
                else:
                    hi += 1
                    steps.append(["ack", hi, mask, int(rng.random() < 0.3)])
            else:
                steps.append(["close"] if rng.random() < 0.15 else ["send"])
        c = {"kind": "puppet", "role": role, "seed": rng.randrange(1, 1 << 16), "steps": steps}
        if rng.random() < 0.15:
            c["bulk"] = rng.choice([20000, 60000])
        cases.append(c)
    return cases


def boundary_puppet():
    """Hand-written boundary cases: the ack delay boundary (now == ack_at, one microsecond around it), bursts at one
    instant (pacer), exactly MAX_ACK_RANGES ranges, duplicates of the largest, ACK-of-ACK racing a reordered packet."""
    cases = []
    for role in ("client", "server"):
        for dt in (999, 1000, 1001):
            cases.append({"kind": "puppet", "role": role, "seed": 11, "steps": [["pkt", 1, "ping"], ["adv", dt], ["send"], ["adv", 30000]]})
        cases.append({"kind": "puppet", "role": role, "seed": 12,
                      "steps": [["pkt", 5, "ping"], ["adv", 2000], ["pkt", 3, "ping"], ["ack", 6, 0xFFFF, 0], ["adv", 2000],
                                ["pkt", 2, "ping"], ["adv", 30000]]})
        cases.append({"kind": "puppet", "role": role, "seed": 13,
                      "steps": sum([[["pkt", 2 * i, "ping"]] for i in range(1, 33)], []) + [["adv", 2000], ["adv", 30000]]})
        cases.append({"kind": "puppet", "role": role, "seed": 14,
                      "steps": sum([[["pkt", i, "ping"], ["send"]] for i in range(1, 25)], []) + [["adv", 30000]]})
        cases.append({"kind": "puppet", "role": role, "seed": 15, "bulk": 60000,
                      "steps": sum([[["pkt", i, "ping"], ["adv", 1000]] for i in range(1, 12)], []) + [["adv", 30000]]})
        cases.append({"kind": "puppet", "role": role, "seed": 16,
                      "steps": [["pkt", 4, "ping"], ["pkt", 4, "ping"], ["pkt", 4, "pad"], ["adv", 1000], ["pkt", 4, "ping"],
                                ["adv", 5000], ["pkt", 9, "bad"], ["adv", 5000], ["pkt", 9, "pad"], ["adv", 30000], ["pkt", 10, "err"],
                                ["adv", 1000], ["pkt", 11, "ping"], ["adv", 30000]]})
        # the acknowledgement of our ACK of packet 1 rides, with a PING, in a packet that re-uses number 1 (and once more
        # after a gap); then a packet with reserved header bits
        cases.append({"kind": "puppet", "role": role, "seed": 17,
                      "steps": [["pkt", 1, "ping"], ["adv", 2000], ["ack", 1, 0xFFFF, 1], ["adv", 30000], ["pkt", 4, "ping"],
                                ["adv", 2000], ["ack", 2, 0xFFFF, 1], ["send"], ["adv", 30000], ["pkt", 6, "rsv"], ["adv", 30000]]})
        cases.append({"kind": "puppet", "role": role, "seed": 18,
                      "steps": [["pkt", 1, "ping"], ["adv", 2000], ["ack", 1, 0xFFFF, 0], ["adv", 2000], ["pkt", 3, "ping"],
                                ["adv", 500], ["ack", 0, 0xFFFF, 1], ["adv", 30000], ["pkt", 5, "ping"], ["pkt", 7, "cclose"],
                                ["adv", 30000]]})
    return cases


def gen_natural(rng, n):
    cases = []
    for _ in range(n):
        lvl = rng.choice([0, 1, 1, 2, 3])
        cases.append({"kind": "natural", "seed": rng.randrange(1, 1 << 16),
                      "drop": [0.0, 0.05, 0.2, 0.3][lvl], "dup": rng.choice([0.0, 0.1, 0.3]) if lvl else 0.0,
                      "reorder": rng.choice([0.0, 0.2, 0.4]) if lvl else 0.0,
                      "delay": rng.choice([0.0, 0.005, 0.03, 0.2]) if lvl else 0.0,
                      "profile": rng.choice(["small", "small", "mixed", None]), "cc": rng.choice(["reno", "cubic"]),
                      "retry": rng.random() < 0.15})
    return cases


# ======================================================================================
# suite "writer": _write_ack_frame / _on_ack_delivery called directly on real builders


def w_run(case):
    """case: {"pns": [...] recorded in this order, "room_delta": room - capacity, "delay_us", "pre": PING frames before,
    "short": 1-RTT header, "dels": [highest...]}.  Returns (model tokens, implementation tokens, result of the write)."""
    from aioquic.quic.configuration import QuicConfiguration
    from aioquic.quic.connection import QuicConnection
    from aioquic.quic.crypto import CryptoPair
    from aioquic.quic.packet import QuicPacketType, QuicProtocolVersion
    from aioquic.quic.packet_builder import QuicPacketBuilder, QuicPacketBuilderStop, QuicDeliveryState
    from aioquic.quic.recovery import QuicPacketSpace
    from aioquic.buffer import BufferWriteError
    conn = QuicConnection(configuration=QuicConfiguration(is_client=True))
    space = QuicPacketSpace()
    t0 = 1000.0
    tin, tout = [0], []          # is_app = 0 (Initial/Handshake style writer: whenever ack_at is set)
    # build the queue through the model ops and directly on the RangeSet (the record step itself is covered by
    # the connection-level suites): one Recv per packet number, in the order given
    lrp = -1
    for pn in case["pns"]:
        space.ack_queue.add(pn)
        if pn > space.largest_received_packet:
            space.largest_received_packet = pn
            space.largest_received_time = t0
        if space.ack_at is None:
            space.ack_at = t0 + 0.001
        if consts()["CAP_ACK_NOW"] and len(space.ack_queue) >= consts()["MAX_ACK_RANGES"]:
            space.ack_at = min(space.ack_at, t0)      # the record step is emulated here (see below), patch included
        tin += [1, pn, 1, enc(t0), enc(t0 + 0.001) - enc(t0), 0, 1]
        tout += [0] + opt(space.ack_at) + [space.largest_received_packet] + \
            dump_ranges([(r.start, r.stop - 1) for r in space.ack_queue])
        lrp = max(lrp, pn)
    now = t0 + case["delay_us"] / 1000000.0
    crypto = CryptoPair()
    crypto.setup_initial(cid=bytes(8), is_client=True, version=QuicProtocolVersion.VERSION_1)
    mds = case.get("mds", 1200)
    builder = QuicPacketBuilder(host_cid=bytes(8), peer_cid=bytes(8), version=QuicProtocolVersion.VERSION_1,
                                is_client=True, max_datagram_size=mds)
    builder.start_packet(QuicPacketType.ONE_RTT if case.get("short") else QuicPacketType.HANDSHAKE, crypto)
    for _ in range(case.get("pre", 0)):
        builder.start_frame(0x01)
    # shrink the room to the requested distance from the capacity by padding
    nranges = min(len(space.ack_queue), consts()["MAX_ACK_RANGES"])
    capacity = consts()["ACK_FRAME_CAPACITY"] + 2 * consts()["UINT_VAR_MAX_SIZE"] * (nranges - 1)
    want_room = capacity + case["room_delta"]
    pad = builder.remaining_buffer_space - want_room
    if pad > 0:
        buf = builder.start_frame(0x00, capacity=1)
        buf.push_bytes(bytes(pad - 1))
    room = builder.remaining_buffer_space
    delay = int((now - t0) * 1000000) >> consts()["LOCAL_ACK_DELAY_EXPONENT"]
    tin += [2, enc(now), delay, room, 0]
    before = builder._buffer.tell()
    res = None
    try:
        conn._write_ack_frame(builder=builder, space=space, now=now)
        after = builder._buffer.tell()
        frame = builder._buffer.data_slice(before, after)
        # the ACK-of-ACK trigger PING (one byte) may follow the ACK frame: cut it off by re-parsing the length
        from sim.wire import parse_frames
        fr = parse_frames(bytes(frame))
        raw = fr[0].raw
        tout += [13, len(raw)] + list(raw)
        res = ("frame", bytes(raw), room)
    except QuicPacketBuilderStop:
        tout += [11]
        res = ("stop",)
    except IndexError:
        tout += [12, 100]
        res = ("exn", "IndexError")
    except BufferWriteError:
        tout += [12, 3]
        res = ("exn", "BufferWriteError")
    except ValueError:
        tout += [12, 2]
        res = ("exn", "ValueError")
    tout += opt(space.ack_at) + [space.largest_received_packet] + dump_ranges([(r.start, r.stop - 1) for r in space.ack_queue])
    # delivery of the frame just written (or of an arbitrary highest)
    for h in case.get("dels", []):
        try:
            conn._on_ack_delivery(QuicDeliveryState.ACKED, space, h)
            st = [0]
        except AssertionError:
            st = [1, 101]
        except TypeError:          # a changed handler signature: reported as a disagreement, not as a harness crash
            st = [1, 102]
        # the model's Recv couples deliveries with a packet: use a non-recorded one (ok = 0) to see the bare effect
        tin += [1, 0, 0, enc(now), 0, 1, h, 0]
        tout += st + opt(space.ack_at) + [space.largest_received_packet] + dump_ranges([(r.start, r.stop - 1) for r in space.ack_queue])
    return tin, tout, res


_WCACHE = {}


def w_exec(case):
    k = _key(case)
    if k not in _WCACHE:
        if len(_WCACHE) > 20000:
            _WCACHE.clear()
        _WCACHE[k] = w_run(case)
    return _WCACHE[k]


def w_oracle(case):
    """the writer never raises; a written frame parses (independent parser) to ranges that are all among the recorded
    packet numbers, contains the largest one, and is no longer than the room the builder had."""
    _tin, _tout, res = w_exec(case)
    if res[0] == "exn":
        return ("_write_ack_frame raised %s" % res[1], {"oracle": "writer", "exception": res[1]})
    if res[0] == "frame":
        from sim.wire import parse_frames
        f = parse_frames(res[1])[0]
        have = set(case["pns"])
        for a, b in f.fields["ranges"]:
            for q in range(a, b + 1):
                if q not in have:
                    return ("ACK frame lists %d which was not recorded" % q, {"oracle": "O1", "space": "writer"})
        if max(b for _, b in f.fields["ranges"]) != max(have):
            return ("ACK frame does not cover the largest recorded packet number", {"oracle": "writer-largest"})
        if len(res[1]) > res[2]:
            return ("ACK frame of %d bytes written into a room of %d" % (len(res[1]), res[2]), {"oracle": "writer-fits"})
    return None


def gen_writer(rng, n):
    cases = []
    for _ in range(n):
        k = rng.choice([1, 1, 2, 3, 5, 8, 16, 31, 32, 33, 34, 40, 70])
        base = rng.choice([0, 0, 1, 60, 16380, (1 << 30) - 40, (1 << 62) - 400])
        pns = []
        cur = base
        for _ in range(k):
            run = rng.choice([1, 1, 1, 2, 3])
            pns += list(range(cur, cur + run))
            cur += run + rng.choice([1, 1, 2, 5, 70, 20000])
            if cur >= (1 << 62) - 4:
                break
        rng.shuffle(pns) if rng.random() < 0.5 else None
        c = {"pns": pns, "room_delta": rng.choice([-40, -1, 0, 1, 5, 200, 100000]), "delay_us": rng.choice([0, 7, 1000, 25000, 10 ** 7]),
             "pre": rng.choice([0, 0, 1]), "short": rng.random() < 0.5}
        if rng.random() < 0.5:
            c["dels"] = [rng.choice([max(pns), max(pns) - 1, min(pns), 0, max(pns) + 1])]
        cases.append(c)
    return cases


def boundary_writer():
    cases = []
    for k in (1, 2, 31, 32, 33, 64):
        pns = [3 * i for i in range(k)]
        for delta in (-1, 0, 1):
            cases.append({"pns": pns, "room_delta": delta, "delay_us": 1000, "pre": 0, "short": True, "dels": [pns[-1]]})
    # worst-case varints: 8-byte gaps and lengths
    big = [(1 << 61) // 40 * i for i in range(1, 36)]
    cases.append({"pns": big, "room_delta": 0, "delay_us": 10 ** 9, "pre": 0, "short": False})
    cases.append({"pns": [0], "room_delta": 0, "delay_us": 0, "pre": 0, "short": False, "dels": [0]})
    cases.append({"pns": [(1 << 62) - 1], "room_delta": 0, "delay_us": 0, "pre": 1, "short": True, "dels": [(1 << 62) - 1]})
    return cases


# ======================================================================================


def suites(ctx):
    s_conn = corr.Suite(ctx, "ackconn", "exec_ackconn", e_encode, e_impl, e_oracle, e_ops, e_rebuild,
                        nontrivial=e_nontrivial, opname=e_opname)
    s_w = corr.Suite(ctx, "writer", "exec_ackqueue", lambda c: w_exec(c)[0], lambda c: w_exec(c)[1], w_oracle,
                     nontrivial=lambda c, out: 13 in out)
    # the same runs against the composed model (coq/model/RecvAck.v): decryption verdict, payload effects in order, tail;
    # the property oracle already runs in "ackconn" on every one of these cases
    s_ra = corr.Suite(ctx, "recvack", "exec_recvack", e2_encode, e2_impl, None, e_ops, e_rebuild,
                      nontrivial=e_nontrivial, opname=e_opname)
    return s_conn, s_w, s_ra


def _batch(s, cases):
    subs = []
    for c in cases:
        subs += split_cases(c)
    for i in range(0, len(subs), 100):
        s.run(subs[i:i + 100])
        _CACHE.clear()


TOTALS = {}
WITNESS = {}


def run_witnesses(ctx, s_conn):
    """corpus cases of suite "witness": the Coq witnesses of prune_uncovered_refuted / ack_timely_cap_refuted replayed on
    real connections.  The model must agree with the implementation step by step (ordinary correspondence), and the
    wire must show the refuted behaviour: the packet is accepted, ack-eliciting, and never covered by any ACK frame."""
    listed = any(k.get("property") == "C12" and k.get("status") == "open" and k.get("match", {}).get("cause") == "ack-range-cap"
                 for k in ctx.known)

    def w_oracle_conn(sub):
        # the cap witness IS a violation of the timeliness sentence (docs/C12.md F2).  Until known_findings.json lists it
        # (match {"oracle": "O2", "cause": "ack-range-cap"}) it is reported in the evidence, not as a VIOLATION, and only
        # for this fixed corpus case: the generated suites keep the full oracle.
        bad = [b for b in execute(sub["of"])[sub["ep"]]["bad"] if listed or b[1].get("cause") != "ack-range-cap"]
        return bad[0] if bad else None

    s_wit = corr.Suite(ctx, "witness", "exec_ackconn", e_encode, e_impl, w_oracle_conn, e_ops, e_rebuild,
                       nontrivial=e_nontrivial, opname=e_opname)
    for case in corr.load_corpus("C12", "witness"):
        subs = split_cases(case)
        s_wit.run(subs)
        WITNESS["_correspondence"] = {"disagreements": s_wit.stats["disagreements"], "cases": s_wit.stats["cases"]}
        r = Run(case)
        res = r.results()[0]
        tr = r.tracers[0]
        index_of = wire_index(r.pair)
        target = min(h[3] for h in tr.hist if h[0] == "acc" and h[4] and h[5] and h[1] > 1000.05)
        covered = False
        for h in tr.hist:
            if h[0] != "tx":
                continue
            for data in h[2]:
                for p in r.pair.observer.by_datagram.get(index_of.get(data), []):
                    for f in p.frames:
                        if f.name == "ACK" and p.type == "1rtt" and any(a <= target <= b for a, b in f.fields["ranges"]):
                            covered = True
        queued = any(rg.start <= target < rg.stop for rg in tr.ep.conn._loss.spaces[2].ack_queue)
        reproduced = (not covered) and (not queued) and tr.ep.conn._loss.spaces[2].ack_at is None
        # "cap-discipline" (a send after every receive) must NOT reproduce on a tree with docs/C12-fix-2.patch
        # (CAP_ACK_NOW, theorem ack_timely_cap); the other witnesses are refuted theorems that hold for every tree
        expected = (not consts()["CAP_ACK_NOW"]) if case["expect"].startswith("cap-discipline") else True
        WITNESS[case.get("name", case["expect"])] = {"reproduced": reproduced, "expected": expected, "packet": target,
                                                      "oracle": [b[1] for b in res["bad"]][:3]}
        if reproduced != expected:
            ctx.notes.append("witness %s: reproduced=%s, expected %s on this tree" % (case.get("name", case["expect"]), reproduced, expected))


def source_tie(ctx):
    """The source-order obligations of coq/props/C12.v (recv_order_as_modelled, ack_handler_as_modelled), re-read here for
    the evidence and for a readable diagnosis: which step of receive_datagram moved.  The verdict itself is Coq's (the
    theorems are `vm_compute; reflexivity` over the generated fragment); main.py reports a broken proof only when no concrete
    failing input was found, so when there IS one the proof violation is reported here, beside it."""
    import importlib.util
    import os
    spec = importlib.util.spec_from_file_location("c12_recv_order", os.path.join(core.VERIF, "tools", "gen", "c12_recv_order.py"))
    m = importlib.util.module_from_spec(spec)
    spec.loader.exec_module(m)
    names = {1: "gate", 2: "decrypt", 3: "reserved-bits close", 4: "expected_packet_number", 5: "_payload_received",
             6: "largest_received", 7: "ack_queue.add", 8: "ack_at arm", 9: "ack_at cap"}
    want = [(1, 10), (2, 0), (3, 11), (4, 12), (5, 13), (1, 10), (6, 21), (7, 20), (8, 22)] + \
        ([(9, 23)] if consts()["CAP_ACK_NOW"] else [])
    try:
        o = m.read_order()
    except Exception as e:
        info = {"generator_error": repr(e), "as_modelled": False}
    else:
        info = {"recv_order": [names.get(a, str(a)) for a, _ in o["RECV_ORDER"]],
                "recv_order_as_modelled": [list(x) for x in o["RECV_ORDER"]] == [list(x) for x in want],
                "handler_prune_ok": o["HANDLER_PRUNE_OK"], "handler_args_ok": o["HANDLER_ARGS_OK"],
                "writer_order_ok": o["WRITER_ORDER"] == [1, 2, 3, 4]}
        info["as_modelled"] = all(info[k] for k in ("recv_order_as_modelled", "handler_prune_ok", "handler_args_ok", "writer_order_ok"))
    if not ctx.proof_ok() and any(not v["no_input"] for v in ctx.violations):
        broken = ctx.broken_deps()
        if ctx.props and not ctx.props["ok"]:
            broken.append("coq/props/C12.v no longer checks: %s" % (ctx.props.get("log") or "")[-600:])
        ctx.violation("proof", "proof obligation or model build no longer checks (reported beside the concrete failing inputs): "
                      "%s" % ("the source of receive_datagram / _on_ack_delivery / _write_ack_frame is not the one the C12 theorems "
                              "are proved for" if not info["as_modelled"] else "see broken"),
                      None, signature={"kind": "proof", "source_tie": info.get("as_modelled")},
                      extra={"broken": broken, "source_tie": info}, no_input=True)
    return info


def _count(cases):
    for c in cases:
        for r in execute(c):
            for k, v in r["counts"].items():
                TOTALS[k] = TOTALS.get(k, 0) + v


def run(ctx):
    import sim  # noqa: F401
    consts()
    s_conn, s_w, s_ra = suites(ctx)
    rng = ctx.rng
    corpus = corr.load_corpus("C12", "ackconn")
    groups = [corpus, boundary_puppet(), gen_puppet(rng, ctx.n(700, 9000)), gen_natural(rng, ctx.n(50, 600))]
    for g in groups:
        for i in range(0, len(g), 50):
            part = g[i:i + 50]
            subs = []
            for c in part:
                subs += split_cases(c)
            _count(part)
            s_conn.run(subs)
            s_ra.run(subs)
            _CACHE.clear()
    run_witnesses(ctx, s_conn)
    for case in corr.load_corpus("C12", "witness"):
        s_ra.run(split_cases(case))
    _CACHE.clear()
    wc = corr.load_corpus("C12", "writer") + boundary_writer() + gen_writer(rng, ctx.n(1500, 20000))
    for i in range(0, len(wc), 500):
        s_w.run(wc[i:i + 500])
        _WCACHE.clear()
    tie = source_tie(ctx)
    return corr.merge_coverage(
        [s_conn, s_ra, s_w],
        "ackconn: real client/server pairs (harness/sim); puppet runs = after a real handshake a key-holding puppet sends "
        "1-RTT packets with chosen packet numbers (gaps, reordering, duplicates, corrupted copies, connection errors) and "
        "acknowledges arbitrary subsets of the subject's ACK-bearing packets, sends at arbitrary instants incl. exactly "
        "ack_at and bursts that empty the pacer, timers honoured; natural runs = both endpoints traced from the first "
        "datagram (Initial, Handshake and application spaces) under generated loss/duplication/reordering/delay with "
        "application traffic.  writer: QuicConnection._write_ack_frame / _on_ack_delivery on real packet builders with the "
        "room around the reserved capacity, 1..70 ranges, 8-byte varints.  recvack: the ackconn runs projected onto the "
        "composed model coq/model/RecvAck.v (per packet: decryption verdict from the endpoint's qlog packet_received / "
        "packet_dropped events, the payload's effects in the order they fired -- acknowledgements of our ACK frames, "
        "discards, CONNECTION_CLOSE, connection error --, then the tail), compared after every call: ack_at, largest, "
        "expected_packet_number, ack_queue of the three spaces and every ACK frame's bytes.  distinct = distinct op-token encoding, "
        "non-trivial = at least one ACK frame was written",
        {"op_totals": dict(TOTALS), "refuted_witnesses_on_implementation": dict(WITNESS), "source_tie": tie,
         "tree_flags": {"CAP_ACK_NOW": consts()["CAP_ACK_NOW"], "PACING_LE": consts()["PACING_LE"]}})


def replay(ctx, rep):
    import sim  # noqa: F401
    s_conn, s_w, s_ra = suites(ctx)
    case = rep["case"]
    if isinstance(case, dict) and "of" in case:
        d, e, g = s_conn.disagree(case)
        d2, e2, g2 = s_ra.disagree(case)
        r = execute(case["of"])[case["ep"]]
        return {"ackconn": {"disagree": d, "impl": e, "model": g, "oracle": e_oracle(case), "log": r["log"]},
                "recvack": {"disagree": d2, "impl": e2, "model": g2}}
    d, e, g = s_w.disagree(case)
    return {"writer": {"disagree": d, "impl": e, "model": g, "oracle": w_oracle(case)}}
