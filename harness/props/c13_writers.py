"""C13 writer tie: coq/model/Writers.v (extracted exec_writers) against connection.py's frame writers.

While the recorder is installed, QuicConnection builds its datagrams with a recording subclass of QuicPacketBuilder and every
_write_* method of QuicConnection is wrapped.  One *session* = one builder from construction to flush():
    ["sp", packet_type, outcome, obs]                          builder.start_packet as called by connection.py
    ["w", writer id, field values, outcome, frames, obs]       one outermost _write_* call; frames = per start_frame it made
                                                               (frame type, capacity, bytes pushed after the type)
    ["flush", outcome, obs, datagram lengths]
The field values are read from the arguments before the call (for CRYPTO / STREAM: next_offset, and the frame that
stream.sender.get_frame returned, through a hook).  The model replays the session: the model writer with the same field
values, in the builder model's own state, must produce the same outcome, the same (type, capacity, pushed bytes) sequence
and the same remaining_buffer_space / remaining_flight_space / packet_is_empty / packet_number after every op.

Implementation oracle (independent of the model): no writer raises anything but QuicPacketBuilderStop; a fixed frame pushes
at most the capacity it declared; a CRYPTO / STREAM frame at most max(capacity, remaining_flight_space before the call);
sender.get_frame(max_size) returned at most max(0, max_size) bytes (the C10 bound the proofs use)."""
import inspect

from vlib import core

WIDS = {"_write_ack_frame": 0, "_write_connection_close_frame": 1, "_write_connection_limits": 2, "_write_crypto_frame": 3,
        "_write_datagram_frame": 4, "_write_handshake_done_frame": 5, "_write_new_connection_id_frame": 6,
        "_write_path_challenge_frame": 7, "_write_path_response_frame": 8, "_write_ping_frame": 9,
        "_write_reset_stream_frame": 10, "_write_retire_connection_id_frame": 11, "_write_stop_sending_frame": 12,
        "_write_stream_frame": 13, "_write_stream_limits": 14, "_write_streams_blocked_frame": 15}
NAMES = {v: k for k, v in WIDS.items()}
SESSIONS = []          # recorded sessions (dicts {"cfg":..., "ops":...})
MAX_SESSIONS = 60000
_STATE = {"installed": False, "depth": 0, "gf": None, "on": True}
NON_IN_FLIGHT = (2, 3, 28, 29)


def _code(exc):
    from aioquic._crypto import CryptoError
    from aioquic.buffer import BufferWriteError
    from aioquic.quic.packet_builder import QuicPacketBuilderStop
    if exc is None:
        return 0
    if isinstance(exc, QuicPacketBuilderStop):
        return 1
    if isinstance(exc, BufferWriteError):
        return 2
    if isinstance(exc, AssertionError):
        return 3
    if isinstance(exc, AttributeError):
        return 4
    if isinstance(exc, CryptoError):
        return 6
    if isinstance(exc, ValueError):
        return 5
    return 9


def _obs(b):
    o = []
    try:
        o += [1, b.remaining_buffer_space, b.remaining_flight_space]
    except AttributeError:
        o += [0]
    try:
        o += [1, int(b.packet_is_empty)]
    except AssertionError:
        o += [0]
    o += [b.packet_number]
    return o


def _ack_fields(conn, space, delay):
    rs = [(r.start, r.stop) for r in space.ack_queue]
    if not rs:
        return None
    last = rs[-1]
    rest, start = [], last[0]
    for a, b in reversed(rs[:-1]):
        rest += [start - b - 1, b - a - 1]
        start = a
    return [last[1] - 1, delay, last[1] - 1 - last[0], len(rs) - 1] + rest


def _fields_pre(name, conn, args):
    """field values that can be read before the call; None entries are filled in after it"""
    from aioquic import tls
    b = args.get("builder")
    if name == "_write_ack_frame":
        sp, now = args["space"], args["now"]
        return {"delay": int((now - sp.largest_received_time) * 1000000) >> conn._local_ack_delay_exponent}
    if name == "_write_connection_close_frame":
        early = args["epoch"] in (tls.Epoch.INITIAL, tls.Epoch.HANDSHAKE)
        ft, reason, code = args["frame_type"], args["reason_phrase"], args["error_code"]
        if ft is None and early:
            reason = ""
        rb = reason.encode("utf8")
        maxr = max(0, b.remaining_buffer_space - 25)
        loss = 0
        if len(rb) > maxr:
            loss = maxr - len(rb[:maxr].decode("utf8", "ignore").encode("utf8"))
        return [int(early), int(code), 0 if ft is None else 1, 0 if ft is None else int(ft), len(args["reason_phrase"].encode("utf8")), loss]
    if name == "_write_connection_limits":
        out = []
        for l in (conn._local_max_data, conn._local_max_streams_bidi, conn._local_max_streams_uni):
            v = l.value
            if l.used * 2 > v:
                v *= 2
            if v != l.sent:
                out += [int(l.frame_type), v]
        return [len(out) // 2] + out
    if name == "_write_crypto_frame":
        return [args["stream"].sender.next_offset]
    if name == "_write_datagram_frame":
        return [len(args["data"])]
    if name == "_write_new_connection_id_frame":
        cid = args["connection_id"]
        return [cid.sequence_number, len(cid.cid)]
    if name == "_write_reset_stream_frame":
        s = args["stream"]
        return [s.stream_id, s.sender._reset_error_code, s.sender.highest_offset]
    if name == "_write_retire_connection_id_frame":
        return [args["sequence_number"]]
    if name == "_write_stop_sending_frame":
        s = args["stream"]
        return [s.stream_id, s.receiver._stop_error_code]
    if name == "_write_stream_frame":
        s = args["stream"]
        return [s.stream_id, s.sender.next_offset]
    if name == "_write_stream_limits":
        s = args["stream"]
        v = s.max_stream_data_local
        if v and s.receiver.highest_offset * 2 > v:
            v *= 2
        return [1, s.stream_id, v] if s.max_stream_data_local_sent != v else [0]
    if name == "_write_streams_blocked_frame":
        return [int(args["frame_type"]), args["limit"]]
    return []


def install():
    """idempotent; composes with any QuicPacketBuilder subclass already installed in aioquic.quic.connection"""
    if _STATE["installed"]:
        return
    import aioquic.quic.connection as qc
    import aioquic.quic.stream as qs
    base = qc.QuicPacketBuilder

    class RecW(base):
        _c13_writer_recorder = True

        def __init__(self, **kw):
            super().__init__(**kw)
            self._w_cfg = {"client": int(kw["is_client"]), "mds": kw["max_datagram_size"], "peer": len(kw["peer_cid"]),
                           "host": len(kw["host_cid"]), "token": len(kw.get("peer_token", b"") or b""),
                           "pn": kw.get("packet_number", 0)}
            self._w_ops = []
            self._w_frames = None      # frames of the writer call in progress
            self._w_mark = 0

        def _w_sync(self):
            if self._w_frames:
                f = self._w_frames[-1]
                if f[2] is None:
                    f[2] = self._buffer.tell() - self._w_mark

        def start_packet(self, packet_type, crypto):
            exc = None
            try:
                return super().start_packet(packet_type, crypto)
            except Exception as e:
                exc = e
                raise
            finally:
                if _STATE["on"]:
                    self._w_ops.append(["sp", int(packet_type.value), _code(exc), _obs(self)])

        def start_frame(self, frame_type, capacity=1, handler=None, handler_args=[]):
            if self._w_frames is None:
                # a frame written outside any _write_* method: recorded as an unknown writer so that the tie reports it
                self._w_ops.append(["w", 99, [int(frame_type), capacity], 0, [], _obs(self)])
                return super().start_frame(frame_type, capacity, handler, handler_args)
            self._w_sync()
            self._w_frames.append([int(frame_type), capacity, None])
            try:
                r = super().start_frame(frame_type, capacity, handler, handler_args)
                self._w_mark = self._buffer.tell()
                return r
            except Exception:
                self._w_frames[-1][2] = 0
                raise

        def flush(self):
            exc, res = None, None
            try:
                res = super().flush()
                return res
            except Exception as e:
                exc = e
                raise
            finally:
                if _STATE["on"]:
                    self._w_ops.append(["flush", _code(exc), _obs(self), [len(d) for d in (res[0] if res else [])]])
                    if any(o[0] == "w" for o in self._w_ops) and len(SESSIONS) < MAX_SESSIONS:
                        SESSIONS.append({"cfg": dict(self._w_cfg, mf=self.max_flight_bytes, mt=self.max_total_bytes),
                                         "ops": self._w_ops})

    qc.QuicPacketBuilder = RecW

    orig_gf = qs.QuicStreamSender.get_frame

    def get_frame(self, max_size, max_offset=None):
        r = orig_gf(self, max_size, max_offset)
        _STATE["gf"] = (max_size, None if r is None else (r.offset, len(r.data), int(r.fin)))
        return r
    qs.QuicStreamSender.get_frame = get_frame

    def wrap(name, wid):
        orig = getattr(qc.QuicConnection, name)
        sig = inspect.signature(orig)

        def w(self, *a, **kw):
            args = sig.bind(self, *a, **kw).arguments
            b = args.get("builder")
            if not getattr(b, "_c13_writer_recorder", False) or _STATE["depth"] > 0 or not _STATE["on"]:
                return orig(self, *a, **kw)
            try:
                pre = _fields_pre(name, self, args)
            except Exception as e:      # the recorder could not read a field: the call is recorded as unreadable
                pre = ["unreadable", repr(e)]
            rfs0 = None
            try:
                rfs0 = b.remaining_flight_space
            except Exception:
                pass
            _STATE["depth"] += 1
            _STATE["gf"] = None
            b._w_frames = []
            exc = None
            try:
                return orig(self, *a, **kw)
            except Exception as e:
                exc = e
                raise
            finally:
                _STATE["depth"] -= 1
                b._w_sync()
                frames = [list(f) for f in b._w_frames]
                b._w_frames = None
                if name == "_write_ack_frame":
                    f = _ack_fields(self, args["space"], pre["delay"])
                    pre = f if f is not None else ["unreadable", "empty ack queue"]
                extra = {}
                if name in ("_write_crypto_frame", "_write_stream_frame"):
                    gf = _STATE["gf"]
                    if gf is None or gf[1] is None:
                        pre = pre + [0]
                    else:
                        pre = pre + [1] + list(gf[1])
                    if gf is not None:
                        extra = {"max_size": gf[0], "rfs0": rfs0}
                op = ["w", wid, pre, _code(exc), frames, _obs(b)]
                if extra:
                    op.append(extra)
                b._w_ops.append(op)
        setattr(qc.QuicConnection, name, w)

    for name, wid in WIDS.items():
        wrap(name, wid)
    _STATE["installed"] = True


# ------------------------------------------------------------------------------------------- model side
def encode(sess, cmax=1500):
    c = sess["cfg"]
    t = [int(c["client"]), c["mds"], c["peer"], c["host"], c["token"]]
    for k in ("mf", "mt"):
        t += [0] if c[k] is None else [1, c[k]]
    t += [0] if c["mds"] > cmax else [1, cmax]
    t += [c.get("pn", 0)]
    for op in sess["ops"]:
        if op[0] == "sp":
            t += [0, op[1]]
        elif op[0] == "w":
            a = [int(x) if isinstance(x, (int, bool)) else -1 for x in op[2]]
            t += [1, op[1], len(a)] + a
        elif op[0] == "flush":
            t += [3]
    return t


def expected(sess):
    out = []
    for op in sess["ops"]:
        if op[0] == "sp":
            out += [op[2]] + op[3]
        elif op[0] == "w":
            out += [op[3], len(op[4])]
            for f in op[4]:
                out += [f[0], f[1], f[2] if f[2] is not None else 0]
            out += op[5]
        elif op[0] == "flush":
            out += [op[1]] + op[2] + [len(op[3])] + op[3]
    return out


def oracle(sess):
    """the discipline stated on the implementation's own observations -> None | (what, signature)"""
    for op in sess["ops"]:
        if op[0] != "w":
            continue
        wid, args, code, frames = op[1], op[2], op[3], op[4]
        name = NAMES.get(wid, "writer %d" % wid)
        if wid == 99:
            return ("start_frame(%r) outside any _write_* method" % (args,), {"rule": "unknown_writer"})
        if args and args[0] == "unreadable":
            return ("%s: recorder could not read the field values: %s" % (name, args[1]), {"rule": "unreadable", "writer": name})
        if code not in (0, 1):
            return ("%s raised outcome %d (not QuicPacketBuilderStop) with field values %r" % (name, code, args),
                    {"rule": "writer_raises", "writer": name, "outcome": code})
        extra = op[6] if len(op) > 6 else None
        for ft, cap, pushed in frames:
            tsz = 1 if ft < 64 else 2
            room = cap
            if extra is not None and extra.get("rfs0") is not None:
                room = max(cap, extra["rfs0"])
            if pushed is not None and tsz + pushed > room:
                return ("%s: frame type %d declared capacity %d but wrote %d bytes" % (name, ft, cap, tsz + pushed),
                        {"rule": "capacity", "writer": name})
        if extra is not None and args and args[-4:-3] == [1]:
            ln = args[-2]
            if ln > max(0, extra["max_size"]):
                return ("%s: get_frame(max_size=%d) returned %d bytes" % (name, extra["max_size"], ln),
                        {"rule": "get_frame_bound", "writer": name})
    return None


def challenge_before_ack(sess):
    """number of packets of the session in which a non-in-flight frame (ACK / CLOSE) follows an in-flight frame"""
    n, inflight, counted = 0, False, False
    for op in sess["ops"]:
        if op[0] in ("sp", "flush"):
            inflight, counted = False, False
        elif op[0] == "w":
            for ft, cap, pushed in op[4]:
                if pushed is None:
                    continue
                if ft in NON_IN_FLIGHT:
                    if inflight and not counted:
                        n += 1
                        counted = True
                elif not (pushed == 0 and op[3] == 1 and [ft, cap, pushed] == op[4][-1]):
                    inflight = True
    return n


def key(sess):
    return repr((sorted(sess["cfg"].items(), key=lambda kv: kv[0]), [(o[0], o[1], o[2] if o[0] == "w" else None) for o in sess["ops"]]))


# ------------------------------------------------------------------------------------------- drivers
class _Fake:
    def __init__(self, **kw):
        self.__dict__.update(kw)


def _direct_conn():
    from aioquic.quic.configuration import QuicConfiguration
    from aioquic.quic.connection import QuicConnection
    return QuicConnection(configuration=QuicConfiguration(is_client=True))


def direct_session(spec, crypto):
    """Drive the writers directly on a real (recording) builder: spec = {"cfg":..., "calls": [[name, kwargs-spec], ...]}.
    Used for field values at the edge of their wire ranges and for spaces at the edge of the capacities."""
    import aioquic.quic.connection as qc
    from aioquic import tls
    from aioquic.quic.packet import QuicPacketType, QuicProtocolVersion
    from aioquic.quic.packet_builder import QuicPacketBuilderStop
    from aioquic.quic.rangeset import RangeSet
    from aioquic.quic.stream import QuicStream
    cfg = spec["cfg"]
    b = qc.QuicPacketBuilder(host_cid=bytes(cfg["host"]), peer_cid=bytes(cfg["peer"]), version=QuicProtocolVersion.VERSION_1,
                             is_client=bool(cfg["client"]), max_datagram_size=cfg["mds"], packet_number=cfg.get("pn", 0),
                             peer_token=bytes(cfg["token"]))
    b.max_flight_bytes = cfg["mf"]
    b.max_total_bytes = cfg["mt"]
    conn = _direct_conn()
    conn._quic_logger = None
    try:
        b.start_packet(QuicPacketType(spec.get("pt", 5)), crypto)
        for name, a in spec["calls"]:
            try:
                if name == "ack":
                    rs = RangeSet()
                    for x, y in a["ranges"]:
                        rs.add(x, y)
                    space = _Fake(ack_queue=rs, largest_received_time=0.0, largest_received_packet=0, ack_at=0.0)
                    conn._write_ack_frame(builder=b, space=space, now=a["now"])
                elif name == "close":
                    conn._write_connection_close_frame(builder=b, epoch=tls.Epoch(a["epoch"]), error_code=a["code"],
                                                       frame_type=a["ft"], reason_phrase=a["reason"])
                elif name == "limits":
                    for l, (v, u, s) in zip((conn._local_max_data, conn._local_max_streams_bidi, conn._local_max_streams_uni), a["l"]):
                        l.value, l.used, l.sent = v, u, s
                    conn._write_connection_limits(builder=b, space=None)
                elif name == "datagram":
                    conn._write_datagram_frame(builder=b, data=bytes(a["len"]), frame_type=qc.QuicFrameType.DATAGRAM_WITH_LENGTH)
                elif name == "hs_done":
                    conn._write_handshake_done_frame(builder=b)
                elif name == "new_cid":
                    cid = qc.QuicConnectionId(cid=bytes(a["cidlen"]), sequence_number=a["seq"], stateless_reset_token=bytes(16))
                    conn._write_new_connection_id_frame(builder=b, connection_id=cid)
                elif name == "challenge":
                    conn._write_path_challenge_frame(builder=b, challenge=bytes(8))
                elif name == "response":
                    conn._write_path_response_frame(builder=b, challenge=bytes(8))
                elif name == "ping":
                    conn._write_ping_frame(b)
                elif name == "retire":
                    conn._write_retire_connection_id_frame(builder=b, sequence_number=a["seq"])
                elif name == "blocked":
                    conn._write_streams_blocked_frame(builder=b, frame_type=qc.QuicFrameType(a["ft"]), limit=a["limit"])
                elif name in ("reset", "stop", "stream", "slimit", "crypto"):
                    st = QuicStream(stream_id=a.get("sid", 0), max_stream_data_local=a.get("msdl", 1 << 20),
                                    max_stream_data_remote=1 << 62)
                    if name == "reset":
                        st.sender.highest_offset = a["final"]
                        st.sender.reset(a["code"])
                        conn._write_reset_stream_frame(builder=b, stream=st)
                    elif name == "stop":
                        st.receiver.stop(a["code"])
                        conn._write_stop_sending_frame(builder=b, stream=st)
                    elif name == "slimit":
                        st.receiver.highest_offset = a.get("recv", 0)
                        st.max_stream_data_local_sent = a.get("sent", 0)
                        conn._write_stream_limits(builder=b, space=None, stream=st)
                    else:
                        # a sender whose pending data starts at a large offset: everything below is acknowledged
                        snd = st.sender
                        base = a.get("offset", 0)
                        snd._buffer_start = snd._buffer_stop = base
                        snd.highest_offset = base
                        if a.get("data", 0) or a.get("fin"):
                            snd.write(bytes(a.get("data", 0)), end_stream=bool(a.get("fin")))
                        if name == "stream":
                            conn._write_stream_frame(builder=b, space=None, stream=st, max_offset=a.get("mo", 1 << 62))
                        else:
                            conn._write_crypto_frame(builder=b, space=None, stream=st)
            except QuicPacketBuilderStop:
                break
            except Exception:          # recorded by the wrapper with its outcome code; the oracle reports it
                break
    except QuicPacketBuilderStop:
        pass
    n0 = len(SESSIONS)
    b.flush()
    return SESSIONS[-1] if len(SESSIONS) > n0 else None


V62 = (1 << 62) - 1


def direct_specs(rng, n):
    """boundary table + random direct sessions"""
    specs = []
    big = [V62, V62 - 1, 1 << 61, (1 << 30), (1 << 30) - 1, 16384, 16383, 64, 63, 0]

    def cfgs():
        for mds, mf, mt in ((1200, None, None), (1200, 200, None), (1200, None, 90), (1350, 64, 4000), (1200, 1200, 1200)):
            yield {"client": 1, "mds": mds, "peer": 8, "host": 8, "token": 0, "mf": mf, "mt": mt, "pn": 8}
    fixed = [
        ["reset", {"sid": V62 - 3, "code": V62, "final": V62}],
        ["stop", {"sid": V62 - 3, "code": V62}],
        ["slimit", {"sid": V62 - 3, "msdl": 1 << 60, "recv": 1 << 60, "sent": 0}],
        ["limits", {"l": [(1 << 60, 1 << 60, 0), (1 << 60, 0, 0), (V62, 0, 0)]}],
        ["new_cid", {"seq": V62, "cidlen": 20}],
        ["retire", {"seq": V62}],
        ["blocked", {"ft": 22, "limit": V62}],
        ["blocked", {"ft": 23, "limit": 1 << 60}],
        ["ack", {"ranges": [(i * (1 << 32), i * (1 << 32) + (1 << 31)) for i in range(1, 33)], "now": 4000.0}],
        ["ack", {"ranges": [(0, 1)], "now": 0.001}],
        ["ack", {"ranges": [(5, 9), (20, 21)], "now": 0.5}],
        ["close", {"epoch": 3, "code": V62, "ft": V62, "reason": "x" * 3000}],
        ["close", {"epoch": 3, "code": 0x100, "ft": None, "reason": "€" * 700}],
        ["close", {"epoch": 0, "code": 0x100, "ft": None, "reason": "early application close"}],
        ["close", {"epoch": 2, "code": 10, "ft": 6, "reason": ""}],
        ["datagram", {"len": 0}], ["datagram", {"len": 63}], ["datagram", {"len": 64}], ["datagram", {"len": 1100}],
        ["datagram", {"len": 5000}],
        ["stream", {"sid": V62 - 3, "offset": 1 << 61, "data": 5000}],
        ["stream", {"sid": 0, "offset": 0, "data": 5000}],
        ["stream", {"sid": 4, "offset": 16383, "data": 0, "fin": 1}],
        ["stream", {"sid": 4, "offset": 0, "data": 10, "fin": 1, "mo": 4}],
        ["crypto", {"offset": 1 << 61, "data": 3000}],
        ["crypto", {"offset": 0, "data": 3000}],
        ["hs_done", {}], ["challenge", {}], ["response", {}], ["ping", {}],
    ]
    for cfg in cfgs():
        for call in fixed:
            specs.append({"cfg": cfg, "calls": [call]})
            specs.append({"cfg": cfg, "calls": [["ping", {}], call, call]})
    # spaces at the edge of each capacity: max_total_bytes chosen so that remaining_buffer_space is cap-1 / cap / cap+1
    for call in fixed:
        for room in (0, 1, 2, 3, 8, 9, 10, 16, 17, 18, 24, 25, 26, 53, 54, 55, 63, 64, 65):
            cfg = {"client": 1, "mds": 1200, "peer": 8, "host": 8, "token": 0, "mf": None, "mt": 11 + 16 + room, "pn": 1}
            specs.append({"cfg": cfg, "calls": [call]})
            cfg = {"client": 1, "mds": 1200, "peer": 8, "host": 8, "token": 0, "mf": 11 + 16 + room, "mt": None, "pn": 1}
            specs.append({"cfg": cfg, "calls": [call, ["ping", {}]]})
    names = [c[0] for c in fixed]
    for _ in range(n):
        cfg = {"client": rng.randrange(2), "mds": rng.choice([1200, 1280, 1452]), "peer": rng.choice([0, 8, 20]), "host": 8, "token": 0,
               "mf": rng.choice([None, None, rng.randrange(0, 1500)]), "mt": rng.choice([None, None, rng.randrange(0, 1500)]),
               "pn": rng.randrange(0, 64)}
        calls = []
        for _ in range(rng.randrange(1, 9)):
            k = rng.choice(names)
            v = lambda: rng.choice(big + [rng.randrange(0, 1 << 62), rng.randrange(0, 70000)])  # noqa: E731
            if k == "reset":
                a = {"sid": v() & ~3, "code": v(), "final": v()}
            elif k == "stop":
                a = {"sid": v() & ~3, "code": v()}
            elif k == "slimit":
                m = rng.choice([0, 1000, 1 << 20, 1 << 60])
                a = {"sid": v() & ~3, "msdl": m, "recv": rng.choice([0, m, m // 2 + 1]), "sent": rng.choice([0, m])}
            elif k == "limits":
                a = {"l": [(rng.choice([1 << 20, 1 << 60, 100]), rng.choice([0, 1 << 20, 60]), rng.choice([0, 1 << 20, 100])) for _ in range(3)]}
            elif k == "new_cid":
                a = {"seq": v(), "cidlen": rng.randrange(0, 21)}
            elif k == "retire":
                a = {"seq": v()}
            elif k == "blocked":
                a = {"ft": rng.choice([22, 23]), "limit": v()}
            elif k == "ack":
                m = rng.randrange(1, 40)
                step = rng.choice([3, 100, 1 << 20, 1 << 40])
                a = {"ranges": [(i * step, i * step + rng.randrange(1, max(2, step - 1))) for i in range(1, m + 1)],
                     "now": rng.choice([0.0, 0.025, 1.0, 1e6])}
            elif k == "close":
                a = {"epoch": rng.choice([0, 2, 3]), "code": v(), "ft": rng.choice([None, 0, 6, v()]),
                     "reason": rng.choice(["", "bye", "é" * rng.randrange(0, 900), "z" * rng.randrange(0, 2000)])}
            elif k == "datagram":
                a = {"len": rng.choice([0, 1, 63, 64, rng.randrange(0, 1500)])}
            elif k in ("stream", "crypto"):
                a = {"sid": v() & ~3, "offset": rng.choice([0, 0, 63, 64, 16383, 16384, 1 << 30, 1 << 61]),
                     "data": rng.choice([0, 1, 10, 1000, 5000]), "fin": rng.randrange(2), "mo": rng.choice([1 << 62, 0, 5, 1 << 61])}
                if k == "crypto":
                    a["fin"] = 0
            else:
                a = {}
            calls.append([k, a])
        specs.append({"cfg": cfg, "calls": calls})
    return specs


def api_scenario(rng, mk_pair, caddr, saddr):
    """A real handshake followed by API calls that make every frame writer run: stream data at several offsets, FIN, reset,
    stop_sending, DATAGRAM frames, PING, connection-id change, flow-control updates, migration, close with a long reason."""
    from aioquic.quic.configuration import QuicConfiguration  # noqa: F401
    client, server, _, _ = mk_pair({"mds_c": rng.choice([1200, 1350]), "mds_s": rng.choice([1200, 1452]), "chain": 1,
                                    "cc": rng.choice(["reno", "cubic"])})
    for c in (client, server):
        c._configuration.max_datagram_frame_size = 65536
    now = [1.0]
    ca = [caddr]

    def pump(rounds=4):
        for _ in range(rounds):
            now[0] += rng.choice([0.001, 0.03, 0.3])
            for d, _a in client.datagrams_to_send(now[0]):
                if rng.random() > 0.05:
                    server.receive_datagram(d, ca[0], now[0])
            if server._network_paths:
                for d, _a in server.datagrams_to_send(now[0]):
                    if rng.random() > 0.05:
                        client.receive_datagram(d, saddr, now[0])
            for c in (client, server):
                while c.next_event() is not None:
                    pass
                t = c.get_timer()
                if t is not None and t <= now[0]:
                    c.handle_timer(now[0])
    client._remote_max_datagram_frame_size = 65536
    client.connect(saddr, now=now[0])
    pump(6)
    server._remote_max_datagram_frame_size = 65536
    client._remote_max_datagram_frame_size = 65536
    sids = []
    for _ in range(rng.randrange(4, 14)):
        act = rng.choice(["stream", "stream", "big", "fin", "reset", "stop", "dgram", "ping", "cid", "migrate", "srv", "uni"])
        who = rng.choice([client, server])
        try:
            if act in ("stream", "big", "fin", "uni"):
                sid = who.get_next_available_stream_id(is_unidirectional=(act == "uni")) if (not sids or rng.random() < 0.5) else rng.choice(sids)
                n = rng.choice([1, 100, 1500, 20000]) if act != "big" else rng.choice([60000, 200000])
                who.send_stream_data(sid, bytes(n), end_stream=(act == "fin"))
                sids.append(sid)
            elif act == "reset" and sids:
                who.reset_stream(rng.choice(sids), rng.choice([0, 7, V62]))
            elif act == "stop" and sids:
                who.stop_stream(rng.choice(sids), rng.choice([0, 9, V62]))
            elif act == "dgram":
                for _k in range(rng.randrange(1, 4)):
                    who.send_datagram_frame(bytes(rng.choice([0, 10, 500, 1100, 1300])))
            elif act == "ping":
                who.send_ping(rng.randrange(1000))
            elif act == "cid":
                who.change_connection_id()
            elif act == "migrate":
                ca[0] = (caddr[0], caddr[1] + rng.randrange(1, 50))
                client.send_ping(1)
            elif act == "srv":
                server.send_stream_data(server.get_next_available_stream_id(), bytes(rng.choice([10, 30000])))
        except Exception:
            pass     # API misuse by the script (stream of the wrong direction, finished stream): not a writer matter
        pump(rng.randrange(1, 4))
    closer = rng.choice([client, server])
    closer.close(error_code=rng.choice([0, 0x100, V62]), frame_type=rng.choice([None, 6, 0x1d]),
                 reason_phrase=rng.choice(["", "done", "€" * 600, "r" * 2500]))
    pump(2)


# ------------------------------------------------------------------------------------------- the tie
def run_tie(ctx, sessions, stats, max_report=3, max_model=None):
    """model vs recorded sessions; the oracle runs on every session whether or not the model is runnable"""
    import time
    t0 = time.time()
    seen, uniq = set(), []
    for s in sessions:
        k = key(s)
        if k not in seen:
            seen.add(k)
            uniq.append(s)
    stats["sessions"] = stats.get("sessions", 0) + len(sessions)
    stats["distinct_sessions"] = stats.get("distinct_sessions", 0) + len(uniq)
    reported = 0
    hist = stats.setdefault("writer_calls", {})
    for s in uniq:
        for op in s["ops"]:
            if op[0] == "w":
                nm = NAMES.get(op[1], str(op[1]))
                hist[nm] = hist.get(nm, 0) + 1
                if op[3] == 1:
                    stats["stops"] = stats.get("stops", 0) + 1
        bad = oracle(s)
        if bad:
            stats["oracle_failures"] = stats.get("oracle_failures", 0) + 1
            if reported < max_report:
                reported += 1
                ctx.violation("impl-violation", "writers: " + bad[0], {"suite": "writers", "case": s},
                              signature=dict(bad[1], level="writer"))
    stats["oracle_wall_s"] = round(time.time() - t0, 1)
    if max_model is not None and len(uniq) > max_model:
        # the first max_model/3 sessions (corpus, then the simulated runs in order) plus a seeded sample of the rest
        head = uniq[:max_model // 3]
        rest = uniq[max_model // 3:]
        ctx.rng.shuffle(rest)
        uniq = head + rest[:max_model - len(head)]
    stats["model_sessions"] = stats.get("model_sessions", 0) + len(uniq)
    t1 = time.time()
    try:
        gots = core.run_model("exec_writers", [encode(s) for s in uniq])
    except core.BuildError as e:
        core.log("C13 writer model not runnable (%s): implementation oracle only" % (str(e)[:200],))
        stats["model_runnable"] = False
        return
    stats["model_runnable"] = True
    stats["model_wall_s"] = round(time.time() - t1, 1)
    for s, got in zip(uniq, gots):
        exp = expected(s)
        stats["ops"] = stats.get("ops", 0) + len(s["ops"])
        if exp != got:
            stats["disagreements"] = stats.get("disagreements", 0) + 1
            if reported < max_report:
                reported += 1
                i = next((j for j, (x, y) in enumerate(zip(exp, got)) if x != y), min(len(exp), len(got)))
                which = first_bad_op(s, i)
                ctx.violation("correspondence", "writers: model and implementation disagree at token %d (%s): implementation %r, model %r"
                              % (i, which, exp[max(0, i - 3):i + 6], got[max(0, i - 3):i + 6]),
                              {"suite": "writers", "case": s}, signature={"rule": "writer_model", "level": "writer", "writer": which})


def first_bad_op(sess, tok_index):
    n = 0
    for op in sess["ops"]:
        if op[0] == "sp":
            n += 1 + len(op[3])
            name = "start_packet"
        elif op[0] == "w":
            n += 2 + 3 * len(op[4]) + len(op[5])
            name = NAMES.get(op[1], str(op[1]))
        else:
            n += 1 + len(op[2]) + 1 + len(op[3])
            name = "flush"
        if tok_index < n:
            return name
    return "end"


# ------------------------------------------------------------------------------------------- former finding C08-F14 (fixed by 7b299f1)
def f14_scenario(mk_pair, caddr, caddr2, saddr, n_bytes, pings=0):
    """Public API only.  Handshake; the server fills its congestion window with n_bytes of stream data that are lost; the
    client (optionally after `pings` PINGs of which every other one is lost, to give the server several ACK ranges) sends 600
    bytes of stream data from a NEW address; 30 ms later (delayed ACK due) the server calls datagrams_to_send():
    before fix 7b299f1 _write_application wrote PATH_CHALLENGE (checked against the flight space) and then ACK (not checked)
    into one packet, which was in flight and exceeded the window; now the ACK comes first.  Returns the ledger before / after (private attributes are only read)."""
    client, server, _, _ = mk_pair({"mds_c": 1200, "mds_s": 1200, "chain": 1, "cc": "reno"})
    now = 1.0
    client.connect(saddr, now=now)
    for _ in range(6):
        now += 0.001
        for d, _a in client.datagrams_to_send(now):
            server.receive_datagram(d, caddr, now)
        for d, _a in server.datagrams_to_send(now):
            client.receive_datagram(d, saddr, now)
    sid = server.get_next_available_stream_id()
    server.send_stream_data(sid, bytes(n_bytes))
    for _ in range(400):
        now += 0.002
        server.datagrams_to_send(now)          # lost
    for i in range(pings):
        client.send_ping(i)
        now += 0.0001
        for d, _a in client.datagrams_to_send(now):
            if i % 2 == 0:
                server.receive_datagram(d, caddr, now)
    client.send_stream_data(client.get_next_available_stream_id(), bytes(600))
    now += 0.001
    for d, _a in client.datagrams_to_send(now):
        server.receive_datagram(d, caddr2, now)
    now += 0.03
    cw, bif, probe = server._loss.congestion_window, server._loss.bytes_in_flight, server._probe_pending
    out = server.datagrams_to_send(now)
    return {"stream_bytes": n_bytes, "pings": pings, "congestion_window": cw, "bytes_in_flight_before": bif,
            "allowed": max(cw - bif, 0), "probe_pending": bool(probe), "bytes_in_flight_after": server._loss.bytes_in_flight,
            "added_in_flight": server._loss.bytes_in_flight - bif, "datagrams": [len(d) for d, _a in out]}


def f14_search(mk_pair, caddr, caddr2, saddr, pings=0, lo=13800, hi=14400):
    """The former finding C08-F14 (fixed by 7b299f1: ACK is written before PATH_CHALLENGE).  Bisects the stream size for a
    remaining window of 36 bytes (room for exactly a PATH_CHALLENGE packet) and scans the sizes around it.  Returns
    {"overshoot": first scenario whose datagrams_to_send added more in-flight bytes than the window allowed, or None,
     "probes": number of scenarios run, "at_36": the scenario with 36 bytes of window (what the fixed tree does there)}."""
    a, b = lo, hi
    probes, at36, over = 0, None, None
    for _ in range(14):
        if a >= b:
            break
        m = (a + b) // 2
        r = f14_scenario(mk_pair, caddr, caddr2, saddr, m, pings)
        probes += 1
        if r["added_in_flight"] > r["allowed"] and not r["probe_pending"] and over is None:
            over = r
        if r["allowed"] >= 36:
            a = m + 1
        else:
            b = m
    for m in range(max(lo, a - 10), a + 2):
        r = f14_scenario(mk_pair, caddr, caddr2, saddr, m, pings)
        probes += 1
        if r["allowed"] == 36:
            at36 = r
        if r["added_in_flight"] > r["allowed"] and not r["probe_pending"] and over is None:
            over = r
    return {"overshoot": over, "probes": probes, "at_36": at36}
