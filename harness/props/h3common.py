"""Shared by C14 and C16: stub transport, recording QPACK/validation oracles, the implementation runner
printing the same tokens as coq/model/H3Parse.v exec_h3, defect probes, generators, normalisation.

Case format (JSON):
  {"client": bool, "dgram": bool, "ops": [["s", sid, hexdata, fin], ["d", hexdata], ["o"], ["f", sid]]}
  ["f", sid] = the local application ends its sending side of stream sid (send_headers(..., end_stream=True))
"""
import itertools
import traceback

# exception -> model Exn code (site*10 + class), see coq/model/H3Parse.v
EXN_CODES = {
    ("parse_max_push_id", "BufferReadError"): 11,
    ("parse_max_push_id", "AssertionError"): 12,
    ("parse_settings", "BufferReadError"): 21,
    ("_handle_request_or_push_frame", "BufferReadError"): 31,
    ("_receive_stream_data_uni", "KeyError"): 41,
}

FIX_ORDER = ["maxpush", "settings", "pushpromise", "trunc", "endmark", "pushblock"]


def H(x):
    return bytes.fromhex(x)


# --------------------------------------------------------------------------- stub transport
class StubQuic:
    """Same approach as tests/test_h3.FakeQuicConnection: records what the H3 layer asks of the transport."""

    def __init__(self, is_client, dgram=True):
        from aioquic.quic.configuration import QuicConfiguration
        self.configuration = QuicConfiguration(is_client=is_client, alpn_protocols=["h3"])
        self.closes = []
        self.sent = []
        self._nb = 0 if is_client else 1
        self._nu = 2 if is_client else 3
        self._quic_logger = None
        self._remote_max_datagram_frame_size = 65536 if dgram else None

    def close(self, error_code=None, frame_type=None, reason_phrase=""):
        self.closes.append((error_code, reason_phrase))

    def get_next_available_stream_id(self, is_unidirectional=False):
        if is_unidirectional:
            s = self._nu
            self._nu += 4
        else:
            s = self._nb
            self._nb += 4
        return s

    def send_stream_data(self, stream_id, data, end_stream=False):
        self.sent.append((stream_id, bytes(data), bool(end_stream)))

    def send_datagram_frame(self, data):
        self.sent.append(("dgram", bytes(data), False))


# --------------------------------------------------------------------------- recording oracles
class Recorder:
    def __init__(self):
        self.hids = {}
        self.reset()
        self.conflict = False

    def reset(self):
        self.dec, self.res, self.val, self.enc, self.ds = {}, {}, {}, {}, {}

    def intern(self, headers):
        k = tuple((bytes(a), bytes(b)) for a, b in headers)
        if k not in self.hids:
            self.hids[k] = len(self.hids) + 1
        return self.hids[k]

    def put(self, table, key, value):
        if key in table and table[key] != value:
            self.conflict = True     # the oracle was not a function of its arguments within one event
        table.setdefault(key, value)

    def tokens(self):
        t = [len(self.dec)]
        for (sid, d), (k, h) in self.dec.items():
            t += [sid, len(d)] + list(d) + [k, h]
        t.append(len(self.res))
        for sid, (k, h) in self.res.items():
            t += [sid, k, h]
        t.append(len(self.val))
        for (vk, h), (ok, cl) in self.val.items():
            t += [vk, h, int(ok)] + ([0] if cl is None else [1, cl])
        t.append(len(self.enc))
        for d, (k, l) in self.enc.items():
            t += [len(d)] + list(d) + [k, len(l)] + list(l)
        t.append(len(self.ds))
        for d, ok in self.ds.items():
            t += [len(d)] + list(d) + [int(ok)]
        return t


_REC = None   # recorder of the run in progress (validation wrappers are module-level)


class DecoderProxy:
    def __init__(self, real, rec):
        self._real, self._rec = real, rec

    def feed_header(self, stream_id, data):
        import pylsqpack
        try:
            r = self._real.feed_header(stream_id, data)
        except pylsqpack.StreamBlocked:
            self._rec.put(self._rec.dec, (stream_id, bytes(data)), (1, 0))
            raise
        except pylsqpack.DecompressionFailed:
            self._rec.put(self._rec.dec, (stream_id, bytes(data)), (2, 0))
            raise
        self._rec.put(self._rec.dec, (stream_id, bytes(data)), (0, self._rec.intern(r[1])))
        return r

    def resume_header(self, stream_id):
        import pylsqpack
        try:
            r = self._real.resume_header(stream_id)
        except pylsqpack.StreamBlocked:
            self._rec.put(self._rec.res, stream_id, (1, 0))
            raise
        except pylsqpack.DecompressionFailed:
            self._rec.put(self._rec.res, stream_id, (2, 0))
            raise
        self._rec.put(self._rec.res, stream_id, (0, self._rec.intern(r[1])))
        return r

    def feed_encoder(self, data):
        import pylsqpack
        try:
            r = self._real.feed_encoder(data)
        except pylsqpack.EncoderStreamError:
            self._rec.put(self._rec.enc, bytes(data), (1, ()))
            raise
        s = set()
        s.update(r)          # the code iterates over a set built this way
        self._rec.put(self._rec.enc, bytes(data), (0, tuple(s)))
        return r


class EncoderProxy:
    def __init__(self, real, rec):
        self._real, self._rec = real, rec

    def feed_decoder(self, data):
        import pylsqpack
        try:
            self._real.feed_decoder(data)
        except pylsqpack.DecoderStreamError:
            self._rec.put(self._rec.ds, bytes(data), False)
            raise
        self._rec.put(self._rec.ds, bytes(data), True)

    def __getattr__(self, name):
        return getattr(self._real, name)


def _install_validation_wrappers():
    import aioquic.h3.connection as m
    if getattr(m, "_verif_wrapped", False):
        return
    kinds = {"validate_request_headers": 0, "validate_response_headers": 1, "validate_trailers": 2,
             "validate_push_promise_headers": 3}

    def wrap(name, kind):
        real = getattr(m, name)

        def w(headers, stream=None):
            rec = _REC
            try:
                if stream is not None:
                    real(headers, stream)
                else:
                    real(headers)
            except m.MessageError:
                if rec is not None:
                    rec.put(rec.val, (kind, rec.intern(headers)), (False, None))
                raise
            if rec is not None:
                cl = stream.expected_content_length if stream is not None else None
                rec.put(rec.val, (kind, rec.intern(headers)), (True, cl))
        return w

    for name, kind in kinds.items():
        setattr(m, name, wrap(name, kind))
    m._verif_wrapped = True


def new_h3(is_client, dgram=True, rec=None):
    from aioquic.h3.connection import H3Connection
    _install_validation_wrappers()
    q = StubQuic(is_client, dgram)
    h = H3Connection(q)
    if rec is not None:
        h._decoder = DecoderProxy(h._decoder, rec)
        h._encoder = EncoderProxy(h._encoder, rec)
    return h, q


def exn_site(e):
    """Innermost frame of the traceback that lies in aioquic/h3 or aioquic/h0."""
    site = "?"
    for fs in traceback.extract_tb(e.__traceback__):
        if "/aioquic/h3/" in fs.filename or "/aioquic/h0/" in fs.filename or fs.filename.endswith("h3/connection.py") \
                or fs.filename.endswith("h0/connection.py"):
            site = fs.name
    return site


def exn_signature(e):
    return {"exception": type(e).__name__, "site": exn_site(e)}


def make_event(op):
    from aioquic.quic.events import StreamDataReceived, DatagramFrameReceived, ConnectionTerminated
    if op[0] == "s":
        return StreamDataReceived(data=H(op[2]), end_stream=bool(op[3]), stream_id=op[1])
    if op[0] == "d":
        return DatagramFrameReceived(data=H(op[1]))
    return ConnectionTerminated(error_code=0, frame_type=None, reason_phrase="")


def event_tokens(ev, rec):
    from aioquic.h3 import events as E
    opt = lambda v: [0] if v is None else [1, v]
    if isinstance(ev, E.DataReceived):
        return [0, ev.stream_id] + opt(ev.push_id) + [int(ev.stream_ended), len(ev.data)] + list(ev.data)
    if isinstance(ev, E.HeadersReceived):
        return [1, ev.stream_id] + opt(ev.push_id) + [rec.intern(ev.headers), int(ev.stream_ended)]
    if isinstance(ev, E.PushPromiseReceived):
        return [2, ev.stream_id, ev.push_id, rec.intern(ev.headers)]
    if isinstance(ev, E.WebTransportStreamDataReceived):
        return [3, ev.stream_id, ev.session_id, int(ev.stream_ended), len(ev.data)] + list(ev.data)
    if isinstance(ev, E.DatagramReceived):
        return [4, ev.stream_id, len(ev.data)] + list(ev.data)
    raise TypeError(ev)


class RunResult:
    pass


def run_impl(case):
    """Feed the case to a real H3Connection.  Returns the expected model output tokens, the per-op oracle
    tables (model input) and the raw material for the implementation oracles."""
    global _REC
    rec = Recorder()
    h, q = new_h3(case["client"], case.get("dgram", True), rec)
    r = RunResult()
    r.out, r.tables, r.events, r.exn, r.closes, r.rec = [], [], [], None, [], rec
    r.after_close_events = 0
    r.local_sends = 0
    r.blocked_calls = 0
    r.resumed_calls = 0
    _REC = rec
    try:
        for op in case["ops"]:
            rec.reset()
            nclose = len(q.closes)
            if op[0] == "f":
                # local send with end_stream=True; misuse errors of the local API (already ended) are not the subject
                try:
                    h.send_headers(op[1], list(REQ if case["client"] else RESP), end_stream=True)
                except Exception:  # noqa
                    pass
                r.local_sends += 1
                r.tables.append([0, 0, 0, 0, 0])
                r.out += [0, 0] + _obs(h)
                continue
            try:
                evs = h.handle_event(make_event(op))
            except Exception as e:   # noqa: the property is exactly that this never happens
                r.exn = e
                sig = exn_signature(e)
                r.out += [2, EXN_CODES.get((sig["site"], sig["exception"]), 1000)]
                r.tables.append(rec.tokens())
                break
            r.tables.append(rec.tokens())
            r.blocked_calls += sum(1 for v in rec.dec.values() if v[0] == 1)
            r.resumed_calls += sum(1 for v in rec.res.values() if v[0] == 0)
            if len(q.closes) > nclose:
                code = q.closes[-1][0]
                r.closes.append(code)
                r.out += [1, int(code)]
                if evs:
                    r.after_close_events += len(evs)
            else:
                if r.closes and evs:
                    r.after_close_events += len(evs)
                r.out += [0, len(evs)]
                for ev in evs:
                    r.out += event_tokens(ev, rec)
                r.events.append(evs)
            r.out += _obs(h)
    finally:
        _REC = None
    r.quic = q
    return r


def _obs(h):
    t = [0] if h._max_push_id is None else [1, h._max_push_id]
    s = h.received_settings
    if s is None:
        t += [0]
    else:
        t += [1, len(s)]
        for k, v in s.items():
            t += [int(k), int(v)]
    return t


def encode_case(case, tables, fixes):
    t = [int(case["client"]), int(case.get("dgram", True))] + [int(fixes[k]) for k in FIX_ORDER]
    for i, op in enumerate(case["ops"]):
        if op[0] == "s":
            d = H(op[2])
            t += [0, op[1], int(op[3]), len(d)] + list(d)
            t += tables[i] if i < len(tables) else [0, 0, 0, 0, 0]
        elif op[0] == "d":
            d = H(op[1])
            t += [1, len(d)] + list(d)
        elif op[0] == "f":
            t += [3, op[1]]
        else:
            t += [2]
    return t


# --------------------------------------------------------------------------- wire helpers
def uvar(v):
    from aioquic.buffer import encode_uint_var
    return encode_uint_var(v)


def frame(t, payload):
    return uvar(t) + uvar(len(payload)) + payload


def settings_payload(d):
    return b"".join(uvar(k) + uvar(v) for k, v in d)


GOOD_SETTINGS = [(1, 4096), (7, 16), (0x21, 1)]


def control_prefix(settings=None):
    return uvar(0) + frame(4, settings_payload(GOOD_SETTINGS if settings is None else settings))


REQ = [(b":method", b"GET"), (b":scheme", b"https"), (b":authority", b"example.com"), (b":path", b"/")]
RESP = [(b":status", b"200")]


def peer_uni(client, n):
    """n-th unidirectional stream id opened by the peer of a `client` endpoint."""
    return (3 if client else 2) + 4 * n


def peer_bidi(client, n):
    return (1 if client else 0) + 4 * n


def request_sid(n):
    return 4 * n


# --------------------------------------------------------------------------- normalisation (C14)
def normalise(evs):
    """Per-stream canonical form: headers / push promises / merged non-empty data / end marker.
    Returns {stream_id: [items]}; items are tuples."""
    from aioquic.h3 import events as E
    out = {}
    for ev in evs:
        if isinstance(ev, E.DatagramReceived):
            continue
        l = out.setdefault(ev.stream_id, [])
        if isinstance(ev, E.HeadersReceived):
            l.append(("H", ev.push_id, tuple(ev.headers)))
        elif isinstance(ev, E.PushPromiseReceived):
            l.append(("P", ev.push_id, tuple(ev.headers)))
        elif isinstance(ev, E.DataReceived):
            if ev.data:
                if l and l[-1][0] == "D" and l[-1][1] == ev.push_id:
                    l[-1] = ("D", ev.push_id, l[-1][2] + ev.data)
                else:
                    l.append(("D", ev.push_id, bytes(ev.data)))
        elif isinstance(ev, E.WebTransportStreamDataReceived):
            if ev.data:
                if l and l[-1][0] == "W" and l[-1][1] == ev.session_id:
                    l[-1] = ("W", ev.session_id, l[-1][2] + ev.data)
                else:
                    l.append(("W", ev.session_id, bytes(ev.data)))
        if getattr(ev, "stream_ended", False):
            l.append(("END",))
    return {k: v for k, v in out.items() if v}


# --------------------------------------------------------------------------- independent frame scan
def scan_request_stream(data):
    """Independent (of model and implementation) walk over the frames of a request/push stream body.
    Returns (complete frame types, truncated: None | 'header' | frame type of the cut frame)."""
    pos, types = 0, []

    def var(p):
        if p >= len(data):
            return None
        n = 1 << (data[p] >> 6)
        if p + n > len(data):
            return None
        return int.from_bytes(data[p:p + n], "big") & ((1 << (8 * n - 2)) - 1), p + n

    while pos < len(data):
        a = var(pos)
        if a is None:
            return types, "header"
        b = var(a[1])
        if b is None:
            return types, "header"
        t, ln, pos2 = a[0], b[0], b[1]
        if t == 0x41:
            return types + [t], None
        if pos2 + ln > len(data):
            return types, t
        types.append(t)
        pos = pos2 + ln
    return types, None


# --------------------------------------------------------------------------- defect probes
def _raises(case):
    r = run_impl(case)
    return r.exn


def _norm_of(case):
    r = run_impl(case)
    if r.exn is not None or r.closes:
        return ("closed", [int(c) for c in r.closes], type(r.exn).__name__ if r.exn else None)
    return normalise([e for evs in r.events for e in evs])


def _resp_block():
    import pylsqpack
    return pylsqpack.Encoder().encode(0, RESP)[1]


def probes():
    """(name, model flag it controls, property, signature, case(s), how to tell the defect is present)"""
    hf = frame(1, _resp_block()).hex()
    ctl = lambda payload_hex: {"client": False, "dgram": True, "ops": [["s", 2, (control_prefix()).hex(), 0],
                                                                    ["s", 2, payload_hex, 0]]}
    P = []
    P.append(dict(id="max_push_id-trailing", flag="maxpush", prop="C16",
                  sig={"exception": "AssertionError", "site": "parse_max_push_id"},
                  case=ctl("0d020100"), kind="raise",
                  what="MAX_PUSH_ID frame with a trailing byte: AssertionError escapes H3Connection.handle_event"))
    P.append(dict(id="max_push_id-truncated", flag="maxpush", prop="C16",
                  sig={"exception": "BufferReadError", "site": "parse_max_push_id"},
                  case=ctl("0d00"), kind="raise",
                  what="empty MAX_PUSH_ID frame: BufferReadError escapes H3Connection.handle_event"))
    P.append(dict(id="settings-truncated", flag="settings", prop="C16",
                  sig={"exception": "BufferReadError", "site": "parse_settings"},
                  case={"client": False, "dgram": True, "ops": [["s", 2, "00040106", 0]]}, kind="raise",
                  what="SETTINGS frame ending after an identifier: BufferReadError escapes H3Connection.handle_event"))
    P.append(dict(id="push_promise-truncated", flag="pushpromise", prop="C16",
                  sig={"exception": "BufferReadError", "site": "_handle_request_or_push_frame"},
                  case={"client": True, "dgram": True, "ops": [["s", 0, "0500", 0]]}, kind="raise",
                  what="empty PUSH_PROMISE frame on a request stream (client side): BufferReadError escapes handle_event"))
    P.append(dict(id="fin-inside-data-frame", flag="trunc", prop="C14",
                  sig={"defect": "fin-inside-data-frame"},
                  case={"client": True, "dgram": True, "ops": [["s", 0, hf + "00056162", 1]]},
                  alt={"client": True, "dgram": True, "ops": [["s", 0, hf + "000561", 0], ["s", 0, "62", 1]]},
                  kind="chunk",
                  what="DATA frame cut short by FIN: end of stream reported when delivered whole, lost when the tail "
                       "arrives as a separate DATA fragment"))
    P.append(dict(id="fin-before-frame-payload", flag="trunc", prop="C14",
                  sig={"defect": "fin-inside-frame"},
                  case={"client": True, "dgram": True, "ops": [["s", 0, hf + "0105", 1]]},
                  alt={"client": True, "dgram": True, "ops": [["s", 0, hf + "0105", 0], ["s", 0, "", 1]]},
                  kind="chunk",
                  what="stream ending right after a HEADERS frame header: no end of stream when delivered whole, "
                       "end of stream when the FIN arrives separately"))
    P.append(dict(id="fin-after-unmarked-frame", flag="endmark", prop="C14",
                  sig={"defect": "fin-after-unmarked-frame"},
                  case={"client": True, "dgram": True, "ops": [["s", 0, hf + "2100", 1]]},
                  alt={"client": True, "dgram": True, "ops": [["s", 0, hf + "2100", 0], ["s", 0, "", 1]]},
                  kind="chunk",
                  what="stream whose last frame is of an ignored type (or PUSH_PROMISE) delivered together with the FIN: "
                       "the end of the stream is never reported; it is when the FIN arrives separately"))
    enc = "023fe11fc0882f91d35d055c87a7c18562bb513964"        # encoder stream: capacity + three insertions
    ppr = "0507000381d1d71011" + "01030000d9"                   # PUSH_PROMISE referring to them, then the response
    P.append(dict(id="push-promise-blocked", flag="pushblock", prop="C14",
                  sig={"defect": "push-promise-blocked"},
                  case={"client": True, "dgram": True, "ops": [["s", 7, enc, 0], ["s", 0, ppr, 1]]},
                  alt={"client": True, "dgram": True, "ops": [["s", 0, ppr, 1], ["s", 7, enc, 0]]},
                  kind="chunk",
                  what="PUSH_PROMISE whose header block has to wait for the encoder stream is resumed as a HEADERS frame: "
                       "the client closes the connection with H3_MESSAGE_ERROR instead of reporting the promise"))
    return P


_FIXES = None
_PRESENT = None


def detect(force=False):
    """Run the probes on the tree under check.  Returns (fixes: flag -> bool for the model, present: list of probes
    whose defect is present)."""
    global _FIXES, _PRESENT
    if _FIXES is not None and not force:
        return _FIXES, _PRESENT
    fixes = {k: True for k in FIX_ORDER}
    present = []
    for p in probes():
        if p["kind"] == "raise":
            e = _raises(p["case"])
            bad = e is not None and exn_signature(e) == p["sig"]
        else:
            bad = _norm_of(p["case"]) != _norm_of(p["alt"])
        if bad:
            fixes[p["flag"]] = False
            present.append(p)
    _FIXES, _PRESENT = fixes, present
    return fixes, present


def report_probes(ctx, prop):
    """One violation per defect that is present on the tree under check (property `prop`)."""
    fixes, present = detect()
    n = 0
    for p in present:
        if p["prop"] != prop:
            continue
        n += 1
        case = dict(p["case"])
        if "alt" in p:
            case = {"whole": p["case"], "chunked": p["alt"]}
        ctx.violation("impl-violation", "%s: %s" % (p["id"], p["what"]), {"suite": "probe", "probe": p["id"], "case": case},
                      signature=p["sig"])
    return n


def known_signatures(prop):
    _, present = detect()
    return [p["sig"] for p in present if p["prop"] == prop]


# --------------------------------------------------------------------------- generators
HEADER_POOL_REQ = [
    REQ,
    [(b":method", b"POST"), (b":scheme", b"https"), (b":authority", b"a"), (b":path", b"/upload"), (b"content-length", b"5")],
    [(b":method", b"GET"), (b":scheme", b"https"), (b":authority", b"localhost"), (b":path", b"/x"),
     (b"x-custom", b"v" * 40), (b"user-agent", b"verif/1.0")],
    [(b":method", b"CONNECT"), (b":scheme", b"https"), (b":authority", b"a"), (b":path", b"/wt"), (b":protocol", b"webtransport")],
    [(b":method", b"GET"), (b":path", b"/")],                                   # missing :authority -> MESSAGE_ERROR
    [(b":method", b"GET"), (b":scheme", b"https"), (b":authority", b"a"), (b":path", b"/"), (b"Upper", b"x")],
    [(b":method", b"GET"), (b":scheme", b"https"), (b":authority", b"a"), (b":path", b"/"), (b"content-length", b"-1")],
]
HEADER_POOL_RESP = [
    RESP,
    [(b":status", b"200"), (b"content-length", b"3"), (b"content-type", b"text/plain")],
    [(b":status", b"404"), (b"x-long", b"abcdefghij" * 6), (b"server", b"verif")],
    [(b":status", b"200"), (b"x-custom", b"v" * 40)],
    [(b"content-type", b"x")],                                                    # missing :status
    [(b":status", b"200"), (b":status", b"200")],
]
TRAILER_POOL = [[(b"x-trailer", b"1")], [(b"x-custom", b"v" * 40)], [(b":status", b"200")], []]


class Wire:
    """A real pylsqpack.Encoder in the role of the peer: produces header blocks with static, literal and
    (once the table is enabled) dynamic-table entries, plus the encoder-stream bytes that go with them."""

    def __init__(self, dynamic):
        import pylsqpack
        self.enc = pylsqpack.Encoder()
        self.enc_stream = b""
        if dynamic:
            self.enc_stream += self.enc.apply_settings(4096, 16)

    def block(self, sid, headers):
        e, b = self.enc.encode(sid, headers)
        self.enc_stream += e
        return b


def gen_body(rng):
    r = rng.random()
    if r < 0.3:
        return b""
    if r < 0.8:
        return bytes(rng.randrange(256) for _ in range(rng.choice([1, 2, 3, 5, 8])))
    return bytes(rng.randrange(256) for _ in range(rng.choice([63, 64, 65, 200, 1200])))


def gen_message_stream(rng, wire, sid, client, malformed=0.0):
    """Bytes of one request (client=False: we are the server) or response stream, as the peer would send it."""
    pool = HEADER_POOL_RESP if client else HEADER_POOL_REQ
    hs = pool[0] if rng.random() < 0.6 else rng.choice(pool)
    out = frame(1, wire.block(sid, hs))
    for _ in range(rng.choice([0, 1, 1, 2, 3])):
        r = rng.random()
        if r < 0.7:
            out += frame(0, gen_body(rng))
        elif r < 0.85:
            out += frame(rng.choice([0x21, 0x40, 0x1f * 3 + 0x21, 0x3fff]), bytes(rng.randrange(256) for _ in range(rng.randint(0, 4))))
        elif client and r < 0.95:
            out += frame(5, uvar(rng.randint(0, 9)) + wire.block(sid, REQ if rng.random() < 0.8 else rng.choice(HEADER_POOL_REQ)))
        else:
            out += frame(0, b"")
    if rng.random() < 0.3:
        out += frame(1, wire.block(sid, rng.choice(TRAILER_POOL)))
        r = rng.random()
        if r < 0.15:          # nothing but ignored frames may follow the trailers
            out += frame(1, wire.block(sid, TRAILER_POOL[0]))
        elif r < 0.3:
            out += frame(0, b"late")
        elif r < 0.4:
            out += frame(0x21, b"")
    if rng.random() < malformed:
        out = mutate(rng, out)
    return out


def gen_wt_bidi(rng):
    return uvar(0x41) + uvar(rng.choice([0, 4, 63, 64, 16384])) + gen_body(rng)


BAD_FRAME_TYPES = [0, 1, 2, 3, 4, 5, 7, 0xd, 0xe, 0x21, 0x41, 0x40, 0x3fff, 0x4000, 2 ** 30, 2 ** 62 - 1]
BAD_LENGTHS = [0, 1, 2, 3, 63, 64, 16383, 16384, 2 ** 30 - 1, 2 ** 30, 2 ** 62 - 1]
SETTING_IDS = [0, 1, 2, 3, 4, 5, 6, 7, 8, 0x21, 0x33, 0x2B603742, 2 ** 62 - 1]
SETTING_VALUES = [0, 1, 2, 16, 4096, 2 ** 30, 2 ** 62 - 1]


def gen_varint_trunc(rng):
    v = uvar(rng.choice([64, 16384, 2 ** 30, 2 ** 40]))
    return v[:rng.randint(1, len(v) - 1)]


def gen_bad_frame(rng):
    """One frame from the malformed generator: any type x any declared length x payload shorter/equal/longer."""
    t = rng.choice(BAD_FRAME_TYPES)
    r = rng.random()
    if r < 0.08:
        return gen_varint_trunc(rng)
    if r < 0.16:
        return uvar(t) + gen_varint_trunc(rng)
    if t == 4 and rng.random() < 0.8:
        pl = b""
        for _ in range(rng.randint(0, 4)):
            pl += uvar(rng.choice(SETTING_IDS))
            if rng.random() < 0.9:
                pl += uvar(rng.choice(SETTING_VALUES))
            else:
                pl += gen_varint_trunc(rng) if rng.random() < 0.5 else b""
        if rng.random() < 0.15:
            pl = pl[:max(0, len(pl) - rng.randint(1, 3))]
        return frame(4, pl)
    if t == 0xd and rng.random() < 0.8:
        pl = rng.choice([b"", uvar(rng.choice(BAD_LENGTHS)), uvar(3) + b"\x00", gen_varint_trunc(rng), uvar(5) + uvar(6)])
        return frame(0xd, pl)
    if t == 5 and rng.random() < 0.7:
        pl = rng.choice([b"", gen_varint_trunc(rng), uvar(3), uvar(3) + b"\x00\x00\xd1", uvar(2 ** 62 - 1) + b"\xff\xff"])
        return frame(5, pl)
    ln = rng.choice(BAD_LENGTHS)
    have = rng.choice([0, 0, 1, 2, ln, ln, max(0, ln - 1), ln + 1])
    have = min(have, 40)
    payload = bytes(rng.randrange(256) for _ in range(have))
    return uvar(t) + uvar(ln) + payload


def mutate(rng, data):
    data = bytearray(data)
    for _ in range(rng.choice([1, 1, 2, 3])):
        r = rng.random()
        if r < 0.3 and data:
            data[rng.randrange(len(data))] = rng.randrange(256)
        elif r < 0.5 and data:
            del data[rng.randrange(len(data))]
        elif r < 0.7:
            data.insert(rng.randint(0, len(data)), rng.randrange(256))
        elif r < 0.85 and data:
            del data[rng.randint(0, len(data)):]
        else:
            p = rng.randint(0, len(data))
            data[p:p] = gen_bad_frame(rng)
    return bytes(data)


def split_random(rng, data, fin, maxchunks=6):
    """Random splitting of a stream; FIN on the last chunk, possibly as an empty chunk of its own."""
    n = len(data)
    k = rng.randint(0, min(maxchunks - 1, max(0, n - 1)))
    cuts = sorted(rng.sample(range(1, n), k)) if n > 1 and k else []
    parts = [data[a:b] for a, b in zip([0] + cuts, cuts + [n])]
    chunks = [[p, False] for p in parts]
    if fin:
        if rng.random() < 0.4:
            chunks.append([b"", True])
        else:
            chunks[-1][1] = True
    return chunks


def splittings(data, fin, lone_fin=False):
    """All 2^(n-1) splittings of data into non-empty chunks, FIN on the last (or as a chunk of its own)."""
    n = len(data)
    if n == 0:
        yield [[b"", fin]]
        return
    for mask in range(1 << (n - 1)):
        chunks, start = [], 0
        for i in range(1, n):
            if mask >> (i - 1) & 1:
                chunks.append([data[start:i], False])
                start = i
        chunks.append([data[start:], False])
        if fin and lone_fin:
            chunks.append([b"", True])
        elif fin:
            chunks[-1][1] = True
        yield chunks


def interleave(rng, per_stream):
    """per_stream: {sid: [[bytes, fin], ...]} -> ops preserving per-stream order, random across streams."""
    queues = {sid: list(ch) for sid, ch in per_stream.items() if ch}
    ops = []
    while queues:
        sid = rng.choice(sorted(queues))
        d, f = queues[sid].pop(0)
        ops.append(["s", sid, bytes(d).hex(), int(f)])
        if not queues[sid]:
            del queues[sid]
    return ops


def sequential(per_stream, order):
    ops = []
    for sid in order:
        for d, f in per_stream.get(sid, []):
            ops.append(["s", sid, bytes(d).hex(), int(f)])
    return ops


def gen_connection_case(rng, malformed=0.0, dynamic=None, chunked=True, blocked=True):
    """A whole connection as seen by one endpoint: peer control / QPACK streams, message streams, optional push and
    WebTransport streams; returns (case, streams) where streams = {sid: (bytes, fin)} in canonical order."""
    client = rng.random() < 0.5
    dynamic = (rng.random() < 0.5) if dynamic is None else dynamic
    wire = Wire(dynamic)
    streams = {}
    nuni = 0
    ctrl_sid = peer_uni(client, nuni); nuni += 1
    enc_sid = peer_uni(client, nuni); nuni += 1
    dec_sid = peer_uni(client, nuni); nuni += 1
    ctrl = control_prefix()
    if not client and rng.random() < 0.3:
        ctrl += frame(0xd, uvar(rng.randint(0, 20)))
    if rng.random() < 0.3:
        ctrl += frame(7, uvar(0))          # GOAWAY
    if rng.random() < 0.2:
        ctrl += frame(0x21, b"xx")
    nreq = rng.choice([1, 1, 2, 3])
    for i in range(nreq):
        sid = request_sid(i)
        r = rng.random()
        if r < 0.12:
            body = gen_wt_bidi(rng)
        else:
            body = gen_message_stream(rng, wire, sid, client, malformed)
        streams[sid] = (body, rng.random() < 0.85)
    if client and rng.random() < 0.3:
        sid = peer_uni(client, nuni); nuni += 1
        body = uvar(1) + uvar(rng.randint(0, 7)) + gen_message_stream(rng, wire, sid, True, malformed)
        streams[sid] = (body, rng.random() < 0.85)
    if rng.random() < 0.2:
        sid = peer_uni(client, nuni); nuni += 1
        streams[sid] = (uvar(0x54) + uvar(rng.choice([0, 4, 64])) + gen_body(rng), rng.random() < 0.7)
    if rng.random() < 0.15:
        sid = peer_uni(client, nuni); nuni += 1
        streams[sid] = (uvar(rng.choice([0x21, 0x3f, 0x1234])) + gen_body(rng), rng.random() < 0.5)
    if malformed and rng.random() < malformed:
        ctrl = mutate(rng, ctrl) if rng.random() < 0.5 else ctrl + gen_bad_frame(rng)
    crit = {ctrl_sid: (ctrl, False), enc_sid: (uvar(2) + wire.enc_stream, False), dec_sid: (uvar(3), False)}
    if malformed and rng.random() < malformed * 0.5:
        crit[enc_sid] = (uvar(2) + mutate(rng, wire.enc_stream + b"\x00"), False)
    if malformed and rng.random() < malformed * 0.3:
        crit[dec_sid] = (uvar(3) + bytes(rng.randrange(256) for _ in range(rng.randint(1, 4))), False)
    if malformed and rng.random() < malformed * 0.3:       # duplicate critical stream
        sid = peer_uni(client, nuni); nuni += 1
        streams[sid] = (uvar(rng.choice([0, 2, 3])) + b"", False)
    if malformed and rng.random() < malformed * 0.2:
        k = rng.choice(sorted(crit))
        crit[k] = (crit[k][0], True)                        # closing a critical stream
    allstreams = dict(crit)
    allstreams.update(streams)
    order = [ctrl_sid, enc_sid, dec_sid] + sorted(streams)
    per = {}
    for sid, (data, fin) in allstreams.items():
        per[sid] = split_random(rng, data, fin) if chunked else [[data, fin]]
    if chunked and blocked:
        ops = interleave(rng, per)
    elif chunked:
        # critical streams first (so no header block waits for the encoder stream), the rest interleaved
        ops = sequential(per, [ctrl_sid, enc_sid, dec_sid]) + interleave(rng, {s: per[s] for s in streams})
    else:
        ops = sequential(per, order)
    for sid in sorted(streams):
        if sid % 4 == 0 and rng.random() < 0.4:
            ops.insert(rng.randint(0, len(ops)), ["f", sid])
    if rng.random() < 0.2:
        ops.insert(rng.randint(0, len(ops)), ["d", (uvar(rng.randint(0, 100)) + gen_body(rng)).hex() if rng.random() < 0.8 else ""])
    if rng.random() < 0.1:
        ops.insert(rng.randint(0, len(ops)), ["o"])
    case = {"client": client, "dgram": rng.random() < 0.8, "ops": ops}
    return case, allstreams, order


def gen_blocked_closed_case(rng):
    """A message stream whose HEADERS block needs dynamic-table entries that arrive later on the encoder stream, with
    the stream closed in both directions (FIN received, local sending side ended) before it is unblocked."""
    client = rng.random() < 0.6
    wire = Wire(True)
    hs = (HEADER_POOL_RESP[3] if client else HEADER_POOL_REQ[2]) if rng.random() < 0.7 else \
        ([(b":status", b"200"), (b"x-k%d" % rng.randint(0, 9), b"w" * rng.randint(20, 60))] if client else
         list(REQ) + [(b"x-k%d" % rng.randint(0, 9), b"w" * rng.randint(20, 60))])
    wire.block(400, hs)                       # first use inserts the entries, the blocks below refer to them
    nstreams = rng.choice([1, 1, 2, 3])
    per, sids = {}, []
    for i in range(nstreams):
        sid = request_sid(i)
        sids.append(sid)
        body = frame(1, wire.block(sid, hs))
        if rng.random() < 0.5:
            body += frame(0, gen_body(rng))
        if rng.random() < 0.3:
            body += frame(1, wire.block(sid, [(b"x-trailer", b"1")]))
        fin = rng.random() < 0.85
        per[sid] = split_random(rng, body, fin, maxchunks=3)
    ctrl, enc = peer_uni(client, 0), peer_uni(client, 1)
    ops = [["s", ctrl, control_prefix().hex(), 0]] if rng.random() < 0.7 else []
    ops += interleave(rng, per)
    for sid in sids:
        if rng.random() < 0.85:
            ops.insert(rng.randint(0, len(ops)), ["f", sid])
    encdata = uvar(2) + wire.enc_stream
    if rng.random() < 0.2:                    # a part of the encoder stream may come early
        cut = rng.randint(1, len(encdata) - 1)
        ops.insert(rng.randint(0, len(ops)), ["s", enc, encdata[:cut].hex(), 0])
        encdata = encdata[cut:]
    for d, _f in split_random(rng, encdata, False, maxchunks=3):
        ops.append(["s", enc, bytes(d).hex(), 0])
    if rng.random() < 0.3:                    # something after the unblocking
        ops.append(["s", request_sid(nstreams), frame(1, wire.block(request_sid(nstreams), hs)).hex(), 1])
    return {"client": client, "dgram": True, "ops": ops}


def whole_case(case, allstreams, order):
    ops = [["s", sid, allstreams[sid][0].hex(), int(allstreams[sid][1])] for sid in order]
    ops += [op for op in case["ops"] if op[0] != "s"]
    return {"client": case["client"], "dgram": case.get("dgram", True), "ops": ops}


def streams_of(case):
    """Reassemble per-stream bytes/fin from the ops of a case (first-appearance order)."""
    acc, order = {}, []
    for op in case["ops"]:
        if op[0] != "s":
            continue
        if op[1] not in acc:
            acc[op[1]] = [b"", False]
            order.append(op[1])
        acc[op[1]][0] += H(op[2])
        acc[op[1]][1] = acc[op[1]][1] or bool(op[3])
    return {k: (v[0], v[1]) for k, v in acc.items()}, order


def simplify_op(op):
    if op[0] == "s" and op[2]:
        d = op[2]
        yield ["s", op[1], d[:len(d) // 4 * 2], op[3]]
        yield ["s", op[1], d[:-2], op[3]]
        if op[3]:
            yield ["s", op[1], d, 0]
