"""C20  Logging is observationally transparent.

Tie + oracle: PAIRED RUNS.  Every scenario (benign / lossy application scripts, hostile peers driven
through the key-holding puppet, HTTP/3 request/response exchanges incl. non-UTF-8 header values and
raw malformed HTTP/3 stream bytes) is replayed twice on the real aioquic objects of the tree under
test, with identical seeds and the simulator's deterministic randomness / virtual time: once with
the SUBJECT endpoint's qlog logger and secrets log OFF and once ON (the peer's logging is ON in both
runs and is the only key source of the wire observer).  Compared: the subject's event sequence, every
datagram it sent (bytes and time; decoded into packets/frames by the independent wire observer),
its final public and private state, the peer's events, every exception.  On the ON run additionally:
json.dumps(QuicLogger.to_dict()) succeeds, packet_sent records == packets the wire observer saw the
subject send (same packet numbers, types and frame kinds), packet_received / packet_dropped records
== the subject's own decrypt successes / failures (instrumented), NSS key-log lines parse.

Coq side (coq/props/C20.v): erasure_noninterference (generic, over the tiny imperative language of
model/LogErase.v), skeleton_wf (vm_compute over coq/gen/LogSkeleton.v, which tools/gen/c20_skeleton.py
regenerates from the current source on every run), logging_transparent_partial, encoders_total_*.
The encoder model (model/LogEnc.v, extracted as exec_logenc) is run side by side with the real
QuicLoggerTrace.encode_* functions.
"""
import collections
import io
import json
import logging
import random
import re
import time
import traceback

from vlib import core, corr

DEPENDS = ["harness/sim (real QuicConnection pairs, wire observer, puppet)", "coq/gen/LogSkeleton.v (generated)",
           "coq/gen/LogEncoders.v (generated)", "coq/gen/LogRecords.v (generated)"]
GENERATORS = ["c20_skeleton", "c20_encoders", "c20_records"]
TRUSTED_BASE = [
    "harness/sim: driver loop, deterministic os.urandom/time/key generation, wire observer (independent frame parser), puppet",
    "tools/gen/c20_skeleton.py: Python-ast effect-skeleton extraction (fail-closed: unknown constructs become OTHER)",
    "skeleton language abstraction: Python values/aliasing/exceptions inside expressions are not modelled (see docs/C20.md)",
    "extraction (ExtrOcamlBasic) + OCaml driver for exec_logenc",
    "tools/gen/c20_encoders.py: translation of logger.py's method bodies into model/LogVal.v's language (fails closed) and TYPE INFERENCE of "
    "the argument / leaf expressions of every encoder call site and log_event record: annotations of parameters, dataclass fields, "
    "`self.x: T` and return types are believed; un-annotated names get the join of everything assigned to them; None-arithmetic and "
    "max/min with None are taken to raise in core code (with or without logging)",
    "tools/gen/c20_records.py: control-skeleton extraction for the record automata; exceptions raised implicitly by calls are not "
    "represented (between start_frame and its record: buf.push_*, C13's subject); the logger guard is taken",
    "model/LogVal.v evaluator is pessimistic (Err on operand combinations the encoders do not use); str(bytes) text of lenient decoding "
    "is not modelled; tie: real encoders vs `call enc_tabs` by vm_compute on generated arguments of every method",
    "decrypt accounting: a counting wrapper around aioquic.quic.crypto.CryptoPair.decrypt_packet, installed in both runs of a pair",
]
ASSUMPTIONS = [
    "encoders_total_all / qlog_json_serialisable: values of the declared / inferred types (a bytes object holds bytes, an object has the "
    "attributes of its class table); JSON = what json.dump accepts without default= (NaN/Infinity not excluded: json_strict is a separate, "
    "dynamic check with allow_nan=False)",
    "one_record_per_packet_*: stated over the generated control skeletons for ALL decision sequences; start_frame either raises "
    "QuicPacketBuilderStop before writing or writes the frame type; nothing raises between a start_frame and its record",
    "erasure_noninterference premises (explicit in the theorem): functions classed log-ok only touch log-owned locations and "
    "do not raise; core functions do not depend on log-owned locations",
    "the log-ok premise is FALSE for encode_http3_headers_frame / encode_http3_push_promise_frame on non-UTF-8 header bytes "
    "(encoders_http3_headers_refuted, finding F7)",
    "log-owned locations are identified by name: _quic_logger, quic_logger, quic_logger_frames, _quic_logger_frames, "
    "secrets_log_file, locals never read outside logger-guarded code, objects freshly created inside the block",
]

NSS_LABELS = {
    "CLIENT_EARLY_TRAFFIC_SECRET", "CLIENT_HANDSHAKE_TRAFFIC_SECRET", "SERVER_HANDSHAKE_TRAFFIC_SECRET",
    "CLIENT_TRAFFIC_SECRET_0", "SERVER_TRAFFIC_SECRET_0", "EARLY_EXPORTER_SECRET", "EXPORTER_SECRET",
}
NSS_LINE = re.compile(r"^([A-Z0-9_]+) ([0-9a-f]{64}) ([0-9a-f]{64}|[0-9a-f]{96})$")

WIRE2QLOG = {
    "PADDING": "padding", "PING": "ping", "ACK": "ack", "ACK_ECN": "ack", "RESET_STREAM": "reset_stream",
    "STOP_SENDING": "stop_sending", "CRYPTO": "crypto", "NEW_TOKEN": "new_token", "MAX_DATA": "max_data",
    "MAX_STREAM_DATA": "max_stream_data", "MAX_STREAMS_BIDI": "max_streams", "MAX_STREAMS_UNI": "max_streams",
    "DATA_BLOCKED": "data_blocked", "STREAM_DATA_BLOCKED": "stream_data_blocked",
    "STREAMS_BLOCKED_BIDI": "streams_blocked", "STREAMS_BLOCKED_UNI": "streams_blocked",
    "NEW_CONNECTION_ID": "new_connection_id", "RETIRE_CONNECTION_ID": "retire_connection_id",
    "PATH_CHALLENGE": "path_challenge", "PATH_RESPONSE": "path_response", "CONNECTION_CLOSE": "connection_close",
    "CONNECTION_CLOSE_APP": "connection_close", "HANDSHAKE_DONE": "handshake_done", "DATAGRAM": "datagram",
    "STREAM": "stream",
}
QLOG_PTYPE = {"initial": "initial", "handshake": "handshake", "0RTT": "0rtt", "1RTT": "1rtt"}


# ======================================================================================
# canonicalisation helpers


def _canon(v, depth=0):
    """JSON-able, address-free rendering of a value (bytes -> hex, enums -> int, floats -> hex)."""
    if v is None or isinstance(v, (bool, str)):
        return v
    if isinstance(v, int):
        return int(v)
    if isinstance(v, float):
        return v.hex()
    if isinstance(v, (bytes, bytearray, memoryview)):
        return "h:" + bytes(v).hex()
    if depth > 6:
        return "<deep>"
    if isinstance(v, (list, tuple, collections.deque)):
        return [_canon(x, depth + 1) for x in v]
    if isinstance(v, (set, frozenset)):
        return sorted((_canon(x, depth + 1) for x in v), key=lambda x: json.dumps(x, sort_keys=True, default=str))
    if isinstance(v, dict):
        return [[_canon(k, depth + 1), _canon(x, depth + 1)] for k, x in v.items()]
    return "<%s>" % type(v).__name__


LOG_ATTRS = {"_quic_logger", "quic_logger", "quic_logger_frames", "_quic_logger_frames", "secrets_log_file", "_logger"}


def _digest_obj(obj, depth=0, seen=None):
    """Digest of an object's instance attributes: scalars verbatim, containers recursively (bounded), other
    objects by recursion into their __dict__.  Logger-owned attributes are skipped (they differ by design)."""
    seen = seen if seen is not None else set()
    if id(obj) in seen or depth > 4:
        return "<cycle>"
    seen.add(id(obj))
    d = getattr(obj, "__dict__", None)
    if d is None:
        slots = getattr(type(obj), "__slots__", None)
        if not slots:
            return "<%s>" % type(obj).__name__
        d = {s: getattr(obj, s, None) for s in slots}
    out = {}
    for k in sorted(d):
        if k in LOG_ATTRS:
            continue
        out[k] = _digest_val(d[k], depth + 1, seen)
    return out


def _digest_val(v, depth, seen):
    if v is None or isinstance(v, (bool, str, int, float, bytes, bytearray)):
        return _canon(v)
    if callable(v) and not hasattr(v, "__dict__"):
        return "<callable>"
    if isinstance(v, (list, tuple, collections.deque)):
        return [_digest_val(x, depth + 1, seen) for x in list(v)[:64]] + (["+%d" % (len(v) - 64)] if len(v) > 64 else [])
    if isinstance(v, (set, frozenset)):
        return sorted((json.dumps(_digest_val(x, depth + 1, seen), sort_keys=True, default=str) for x in v))[:64]
    if isinstance(v, dict):
        items = list(v.items())
        return [[_digest_val(k, depth + 1, seen), _digest_val(x, depth + 1, seen)] for k, x in items[:64]] + (
            ["+%d" % (len(items) - 64)] if len(items) > 64 else [])
    mod = type(v).__module__ or ""
    if mod.startswith("aioquic") and depth <= 4:
        if type(v).__name__ in ("QuicLoggerTrace", "QuicLogger", "QuicConfiguration", "Context", "CryptoPair", "CryptoContext",
                                "AEAD", "HeaderProtection", "Buffer"):
            return "<%s>" % type(v).__name__
        if hasattr(v, "value") and isinstance(v, int):
            return int(v)
        return _digest_obj(v, depth, seen)
    return "<%s>" % type(v).__name__


def _first_diff(a, b, path=""):
    """Human-readable location of the first difference between two canonical values."""
    if type(a) != type(b):
        return "%s: %r != %r" % (path or ".", _clip(a), _clip(b))
    if isinstance(a, dict):
        for k in sorted(set(a) | set(b), key=str):
            if k not in a or k not in b:
                return "%s.%s: present on one side only" % (path, k)
            d = _first_diff(a[k], b[k], "%s.%s" % (path, k))
            if d:
                return d
        return None
    if isinstance(a, (list, tuple)):
        for i, (x, y) in enumerate(zip(a, b)):
            d = _first_diff(x, y, "%s[%d]" % (path, i))
            if d:
                return d
        if len(a) != len(b):
            return "%s: length %d != %d" % (path or ".", len(a), len(b))
        return None
    return None if a == b else "%s: %r != %r" % (path or ".", _clip(a), _clip(b))


def _clip(v, n=160):
    s = repr(v)
    return s if len(s) <= n else s[:n] + "..."


# ======================================================================================
# scenario execution


class DecryptCounter:
    """Counts outcomes of CryptoPair.decrypt_packet while the subject's receive_datagram runs.
    Installed identically in both runs of a pair (so it cannot be the cause of a difference)."""

    def __init__(self):
        self.ok = self.key_unavailable = self.crypto_error = self.other = 0
        self.active = False
        self.ok_reserved = 0   # successful decrypts whose plain header has reserved bits set

    def install(self):
        from aioquic.quic import crypto as qc
        self._cls = qc.CryptoPair
        self._orig = qc.CryptoPair.decrypt_packet
        counter = self
        orig = self._orig

        def decrypt_packet(pair_self, packet, encrypted_offset, expected_packet_number):
            if not counter.active:
                return orig(pair_self, packet, encrypted_offset, expected_packet_number)
            try:
                res = orig(pair_self, packet, encrypted_offset, expected_packet_number)
            except qc.KeyUnavailableError:
                counter.key_unavailable += 1
                raise
            except qc.CryptoError:
                counter.crypto_error += 1
                raise
            except Exception:
                counter.other += 1
                raise
            counter.ok += 1
            first = res[0][0]
            if first & (0x0C if first & 0x80 else 0x18):
                counter.ok_reserved += 1
            return res

        qc.CryptoPair.decrypt_packet = decrypt_packet

    def uninstall(self):
        self._cls.decrypt_packet = self._orig


def _net_fates(sim, net, seed):
    if not net or net.get("kind") == "perfect":
        return sim.Fates.perfect()
    rnd = sim.Fates.random(random.Random("fates-%s" % seed), net.get("p_drop", 0.0), net.get("p_dup", 0.0),
                           net.get("p_reorder", 0.0), net.get("max_delay", 0.02))
    return sim.adversarial_then_fair(rnd, fair_after_time=net.get("fair_after", 4.0))


def build_pair(sim, case, on, counter):
    """A Pair in which the subject's logging is `on` and the peer's logging is always on."""
    from sim.wire import WireObserver
    subj = case["subject"]
    peer = "server" if subj == "client" else "client"
    o = case.get("opts", {})
    cfgs = {"client": dict(o.get("client_config", {})), "server": dict(o.get("server_config", {}))}
    cfgs[peer]["secrets_log_file"] = io.StringIO()
    mode = case.get("mode", "both")    # which of the subject's two logs the ON run enables
    if on and mode in ("both", "secrets"):
        cfgs[subj]["secrets_log_file"] = io.StringIO()
    # the peer's qlog is on in both runs unless the case says otherwise (HTTP/3 cases in which the PEER's application sends
    # the non-UTF-8 header: its own logger would stop it from sending, finding F7)
    qlog = {peer: bool(case.get("peer_qlog", True)), subj: bool(on and mode in ("both", "qlog"))}
    kw = {}
    if o.get("versions"):
        kw["versions"] = o["versions"]
    if o.get("h3"):
        kw["alpn"] = ("h3",)
    slack = o.get("timer_slack")
    if case.get("resume"):
        # resumption / 0-RTT: a first connection (no logging anywhere) fills a ticket store shared with the pair under test
        store = sim.TicketStore()
        p0 = sim.Pair(case["seed"] ^ 0x5A5A5A, ticket_store=store, client_qlog=False, server_qlog=False, secrets_log=False,
                      observe=False, **kw)
        if not p0.handshake():
            raise RuntimeError("first connection of the resumption scenario did not complete")
        p0.run_until_idle()
        if not store.client_tickets:
            raise RuntimeError("no session ticket")
        cfgs["client"]["session_ticket"] = store.client_tickets[-1]
        kw["ticket_store"] = sim.TicketStore() if case["resume"].get("reject") else store
        kw["clock_start"] = max(1000.0, store.resume_after)
    pair = sim.Pair(
        case["seed"], client_config=cfgs["client"], server_config=cfgs["server"],
        fates=_net_fates(sim, case.get("net"), case["seed"]),
        congestion_control_algorithm=o.get("cc", "reno"), retry=bool(o.get("retry")),
        client_qlog=qlog["client"], server_qlog=qlog["server"], secrets_log=False, observe=False,
        capture_exceptions=True, eager_server=bool(o.get("eager_server")),
        timer_slack=(lambda rng: rng.uniform(0, slack)) if slack else None, **kw)
    obs = WireObserver(secrets_logs=[pair.endpoint(peer).secrets_log],
                       cid_lengths={"client": pair.client.configuration.connection_id_length,
                                    "server": pair.server.configuration.connection_id_length})
    pair.network.taps.append(obs.tap)
    pair.observer = obs
    subject = pair.endpoint(subj)
    # decrypt accounting around the subject's receive_datagram
    orig_recv = subject.receive_datagram

    def receive_datagram(data, addr):
        counter.active = True
        try:
            return orig_recv(data, addr)
        finally:
            counter.active = False

    subject.receive_datagram = receive_datagram
    return pair, subject, pair.endpoint(peer)


# ---- application scripts (sim.gen_script) ---------------------------------------------------------


def _script_from_case(sim, case):
    return sim.gen_script(random.Random("script-%s" % case["seed"]), case.get("profile", "small"))


def run_script_case(sim, case, pair, subject, peer, rec):
    ok = pair.handshake(max_time=case.get("hs_time", 30.0))
    rec["handshake"] = ok
    if ok:
        outcomes = pair.run_script(_script_from_case(sim, case), on_api_error="record", max_time=case.get("max_time", 60.0))
        rec["script_outcomes"] = [o for _, o in outcomes]
    pair.run_until_idle(max_time=case.get("idle_time", 30.0))


def run_resume_case(sim, case, pair, subject, peer, rec):
    """Resumed connection: early (0-RTT) stream writes queued before the first flight, then the handshake and a script."""
    r = case["resume"]
    pair.connect(pump=False)
    rnd = random.Random("early-%s" % case["seed"])
    for i in range(r.get("early_writes", 0)):
        pair.client.send_stream_data(4 * i, rnd.randbytes(rnd.choice([1, 300, 2000])), end_stream=bool(i % 2))
    pair.pump(pair.client)
    run_script_case(sim, case, pair, subject, peer, rec)


# ---- hostile peer (puppet) ------------------------------------------------------------------------


FRAME_KINDS = ["max_data", "max_stream_data", "max_streams", "ping", "stream", "reset_stream", "stop_sending",
               "new_connection_id", "retire_connection_id", "path_challenge", "path_response", "new_token",
               "handshake_done", "data_blocked", "stream_data_blocked", "streams_blocked", "datagram", "crypto",
               "ack", "padding"]


def gen_hostile_ops(rng, subject_side, n, first_kind=None):
    """A list of JSON-able puppet operations.  The puppet speaks as the subject's peer with the peer's real keys.
    first_kind: frame kind of the first operation (the driver cycles through FRAME_KINDS so that every kind occurs)."""
    peer_is_server = subject_side == "client"
    peer_bidi = 1 if peer_is_server else 0
    peer_uni = 3 if peer_is_server else 2
    subj_bidi = 0 if peer_is_server else 1
    big = [0, 1, 63, 64, 16383, 16384, (1 << 30) - 1, 1 << 30, (1 << 62) - 1]
    ops = []
    for i in range(n):
        r = rng.random()
        sid = rng.choice([peer_bidi, peer_bidi + 4, peer_uni, peer_uni + 4, subj_bidi, subj_bidi + 4, subj_bidi + 2,
                          peer_bidi + 4 * rng.randrange(0, 300), rng.choice(big)])
        if i == 0 and first_kind:
            r = 0.0
        if r < 0.45:
            k = first_kind if (i == 0 and first_kind) else rng.choice(FRAME_KINDS)
            f = {"f": k}
            if k in ("max_data", "max_streams", "data_blocked", "streams_blocked"):
                f["v"] = rng.choice(big)
                f["uni"] = rng.random() < 0.5
            elif k in ("max_stream_data", "stream_data_blocked"):
                f["sid"], f["v"] = sid, rng.choice(big)
            elif k == "stream":
                f["sid"], f["off"] = sid, rng.choice([0, 0, 0, 1, 100, 70000, (1 << 62) - 5])
                f["data"] = rng.randbytes(rng.choice([0, 1, 5, 200, 1000])).hex()
                f["fin"] = rng.random() < 0.3
            elif k == "reset_stream":
                f["sid"], f["code"], f["size"] = sid, rng.choice(big), rng.choice([0, 5, 70000, (1 << 62) - 1])
            elif k == "stop_sending":
                f["sid"], f["code"] = sid, rng.choice(big)
            elif k == "new_connection_id":
                f["seq"], f["rpt"] = rng.choice([1, 2, 3, 9, 50]), rng.choice([0, 0, 1, 2, 60])
                f["cid"] = rng.randbytes(rng.choice([8, 8, 1, 20])).hex()
                f["tok"] = rng.randbytes(16).hex()
            elif k == "retire_connection_id":
                f["seq"] = rng.choice([0, 1, 2, 7, 100])
            elif k in ("path_challenge", "path_response"):
                f["data"] = rng.randbytes(8).hex()
            elif k == "new_token":
                f["tok"] = rng.randbytes(rng.choice([1, 16, 200])).hex()
            elif k == "datagram":
                f["data"] = rng.randbytes(rng.choice([0, 10, 500])).hex()
                f["explicit"] = rng.random() < 0.5
            elif k == "crypto":
                f["off"], f["data"] = rng.choice([0, 5000, 600000]), rng.randbytes(rng.choice([1, 40])).hex()
            elif k == "ack":
                f["ranges"] = [[0, rng.choice([0, 3, 1000])]] if rng.random() < 0.5 else [[2, 3], [7, rng.choice([7, 90])]]
                f["delay"] = rng.choice([0, 10, 1 << 40])
                # ACK_ECN (0x03): aioquic never sends one, so only a hostile peer exercises the ECN counts
                f["ecn"] = rng.choice([None, None, [0, 0, 0], [1, 0, 0], [5, 0, 0], [37, 2, 0], [1 << 20, 3, 1]])
            elif k == "padding":
                f["n"] = rng.choice([1, 20, 600])
            ops.append({"op": "frames", "epoch": "1rtt", "frames": [f]})
        elif r < 0.58:
            # several frames in one packet, one of them truncated / unknown
            fs = [{"f": "ping"}, {"f": "max_data", "v": rng.choice(big), "uni": False}]
            bad = rng.choice([{"f": "truncated", "of": {"f": "max_stream_data", "sid": sid, "v": 1 << 40}, "keep": rng.choice([1, 2, 3])},
                              {"f": "unknown", "type": rng.choice([0x1F, 0x21, 0x40, 0x3FFF]), "body": rng.randbytes(3).hex()},
                              {"f": "truncated", "of": {"f": "stream", "sid": sid, "off": 0, "data": "aabbccdd", "fin": False}, "keep": 3},
                              {"f": "truncated", "of": {"f": "new_connection_id", "seq": 4, "rpt": 0, "cid": "11" * 8, "tok": "22" * 16}, "keep": 6}])
            fs.insert(rng.randrange(0, 3), bad)
            ops.append({"op": "frames", "epoch": "1rtt", "frames": fs})
        elif r < 0.66:
            ops.append({"op": "frames", "epoch": "1rtt", "frames": [{"f": "ping"}], "reserved_bits": rng.choice([1, 2, 3])})
        elif r < 0.72:
            ops.append({"op": "frames", "epoch": "1rtt", "frames": [{"f": "ping"}], "key_phase_flip": True})
        elif r < 0.80:
            ops.append({"op": "corrupt", "epoch": "1rtt", "at": rng.choice([-1, -5, -17, 12]), "frames": [{"f": "ping"}]})
        elif r < 0.88:
            ops.append({"op": "raw", "data": rng.choice([
                bytes([0x40]) + rng.randbytes(30),                      # short header, unknown CID
                bytes([0xC0]) + b"\x00\x00\x00\x01" + rng.randbytes(6),     # truncated long header
                bytes([0xC0]) + b"\x1a\x2a\x3a\x4a\x08" + rng.randbytes(8) + b"\x08" + rng.randbytes(8) + rng.randbytes(40),  # unsupported version
                bytes([0x80]) + b"\x00\x00\x00\x00\x08" + rng.randbytes(8) + b"\x08" + rng.randbytes(8) + b"\x00\x00\x00\x01",  # version negotiation
                rng.randbytes(rng.choice([1, 7, 60, 1200])),
                b"",
            ]).hex()})
        elif r < 0.94:
            ops.append({"op": "frames", "epoch": rng.choice(["initial", "handshake"]), "frames": [{"f": "ping"}, {"f": "padding", "n": 30}]})
        else:
            ops.append({"op": "frames", "epoch": "1rtt", "frames": [
                {"f": "close", "code": rng.choice([0, 1, 10, 0x100, (1 << 62) - 1]), "ft": rng.choice([None, 0, 6, 0x40]),
                 "reason": rng.choice(["", "627965", "636166c3a9", "80", "ff00"])}]})
        if rng.random() < 0.3:
            ops.append({"op": "advance", "dt": rng.choice([0.0, 0.001, 0.03, 0.3])})
    return ops


def _mk_frame(F, f):
    k = f["f"]
    if k == "max_data":
        return F.max_data(f["v"])
    if k == "max_stream_data":
        return F.max_stream_data(f["sid"], f["v"])
    if k == "max_streams":
        return F.max_streams(f["v"], uni=f.get("uni", False))
    if k == "ping":
        return F.ping()
    if k == "stream":
        return F.stream(f["sid"], f["off"], bytes.fromhex(f["data"]), fin=f.get("fin", False))
    if k == "reset_stream":
        return F.reset_stream(f["sid"], f["code"], f["size"])
    if k == "stop_sending":
        return F.stop_sending(f["sid"], f["code"])
    if k == "new_connection_id":
        return F.new_connection_id(f["seq"], f["rpt"], bytes.fromhex(f["cid"]), bytes.fromhex(f["tok"]))
    if k == "retire_connection_id":
        return F.retire_connection_id(f["seq"])
    if k == "path_challenge":
        return F.path_challenge(bytes.fromhex(f["data"]))
    if k == "path_response":
        return F.path_response(bytes.fromhex(f["data"]))
    if k == "new_token":
        return F.new_token(bytes.fromhex(f["tok"]))
    if k == "handshake_done":
        return F.handshake_done()
    if k == "data_blocked":
        return F.data_blocked(f["v"])
    if k == "stream_data_blocked":
        return F.stream_data_blocked(f["sid"], f["v"])
    if k == "streams_blocked":
        return F.streams_blocked(f["v"], uni=f.get("uni", False))
    if k == "datagram":
        return F.datagram(bytes.fromhex(f["data"]), explicit_len=f.get("explicit", True))
    if k == "crypto":
        return F.crypto(f["off"], bytes.fromhex(f["data"]))
    if k == "ack":
        return F.ack([tuple(r) for r in f["ranges"]], delay=f.get("delay", 0), ecn=tuple(f["ecn"]) if f.get("ecn") else None)
    if k == "padding":
        return F.padding(f.get("n", 1))
    if k == "truncated":
        return F.truncated(_mk_frame(F, f["of"]), f["keep"])
    if k == "unknown":
        return F.unknown(f["type"], bytes.fromhex(f["body"]))
    if k == "close":
        if f.get("ft") is None:
            return F.connection_close(f["code"], reason=bytes.fromhex(f.get("reason", "")), app=True)
        return F.connection_close(f["code"], frame_type=f["ft"], reason=bytes.fromhex(f.get("reason", "")))
    raise ValueError(k)


def run_hostile_case(sim, case, pair, subject, peer, rec):
    for d in case.get("pre", []):       # garbage before / during the handshake
        pair.inject(bytes.fromhex(d), peer.addr, subject.name)
    ok = pair.handshake(max_time=30.0)
    rec["handshake"] = ok
    pair.run_until_idle(max_time=10.0)
    if not ok:
        return
    puppet = sim.Puppet(pair, as_side=peer.name)
    skipped = 0
    for op in case["ops"]:
        try:
            if op["op"] == "frames":
                frames = [_mk_frame(sim.F, f) for f in op["frames"]]
                kw = {}
                if op.get("reserved_bits"):
                    kw["reserved_bits"] = op["reserved_bits"]
                if op.get("key_phase_flip"):
                    ctx = puppet.observer.context_for(peer.name, "1rtt", None)
                    kw["key_phase"] = 1 - (ctx.key_phase if ctx is not None else 0)
                puppet.send_frames(op["epoch"], frames, **kw)
            elif op["op"] == "corrupt":
                pkt = bytearray(puppet.build_packet(op["epoch"], [_mk_frame(sim.F, f) for f in op["frames"]]))
                pkt[op["at"] % len(pkt)] ^= 0x55
                puppet.send_datagram(bytes(pkt))
            elif op["op"] == "raw":
                puppet.send_datagram(bytes.fromhex(op["data"]))
            elif op["op"] == "advance":
                pair.advance(op["dt"])
        except ValueError:       # the puppet cannot build it (no keys for that epoch any more, > 1500 bytes)
            skipped += 1
    rec["puppet_skipped"] = skipped
    pair.run_until_idle(max_time=20.0)


# ---- HTTP/3 on top of the pair ------------------------------------------------------------------


NONUTF8 = [b"\x80", b"caf\xe9", b"\xff\xfe", b"a\xc3", b"\xc0\xaf", b"\xed\xa0\x80", b"x\xf5y"]
UTF8_HIGH = ["café".encode(), "€".encode(), "\U0001F600".encode(), b"plain", b"a b", b""]


def gen_h3_case(rng, seed, subject, bad_value=None, bad_where=None, raw=False):
    """One HTTP/3 exchange.  bad_where in {None,'request','response','trailers','push'}: where a
    non-UTF-8 header value is placed."""
    nreq = rng.randint(1, 3)
    reqs = []
    for i in range(nreq):
        hv = rng.choice(UTF8_HIGH)
        r = {"method": rng.choice(["GET", "POST"]), "path": "/" + "".join(rng.choice("abcxyz") for _ in range(rng.randint(0, 6))),
             "hdr": [["x-test", hv.hex()]], "body": rng.choice([0, 0, 3, 700, 5000]),
             "resp_hdr": [["x-reply", rng.choice(UTF8_HIGH).hex()]], "resp_body": rng.choice([0, 10, 1500, 20000]),
             "trailers": rng.random() < 0.3, "push": rng.random() < 0.25, "datagram": rng.random() < 0.2}
        reqs.append(r)
    case = {"kind": "h3", "seed": seed, "subject": subject, "reqs": reqs, "opts": {"h3": True}}
    if rng.random() < 0.85:      # otherwise an H3 datagram is a protocol violation at QUIC level (also worth pairing)
        case["opts"]["client_config"] = {"max_datagram_frame_size": 65536}
        case["opts"]["server_config"] = {"max_datagram_frame_size": 65536}
    if bad_where:
        case["bad"] = {"where": bad_where, "value": (bad_value or rng.choice(NONUTF8)).hex()}
        case["peer_qlog"] = False
    if raw:
        case["raw"] = [
            {"stream": "new_bidi", "data": rng.choice([
                b"\x01\x05hello",                       # HEADERS with junk QPACK
                b"\x00\x03abc",                         # DATA before HEADERS
                b"\x0d\x01\x00",                        # MAX_PUSH_ID on request stream
                b"\x21\x00",                            # reserved / unknown frame type
                b"\x01\x40",                            # truncated length
                rng.randbytes(rng.randint(1, 40)),
            ]).hex(), "fin": rng.random() < 0.5},
            {"stream": "new_uni", "data": rng.choice([b"\x00\x04\x00", b"\x02", b"\x03\xff", b"\x54\x00", b"\x41\x00" + rng.randbytes(4),
                                                        b"\x00\x04\x02\x01\x40"]).hex(), "fin": False},
        ]
    return case


class H3Side:
    """A real H3Connection on one sim endpoint.  Events are fed from the endpoint's event hook; every
    exception escaping handle_event / send_* is recorded (never swallowed silently)."""

    def __init__(self, pair, ep, role, case):
        from aioquic.h3.connection import H3Connection
        self.pair, self.ep, self.role, self.case = pair, ep, role, case
        self.h3_events = []
        self.raised = []
        self.dirty = False
        self.pending_resp = []
        with ep.det:
            self.h3 = H3Connection(ep.conn, enable_webtransport=False)
        ep.event_hooks.append(self._on_quic_event)
        self.dirty = True
        self.req_by_stream = {}
        self.dead = False

    def call(self, what, fn, *a, **kw):
        try:
            with self.ep.det:
                return fn(*a, **kw)
        except Exception as exc:
            tb = traceback.extract_tb(exc.__traceback__)
            site = tb[-1].name if tb else "?"
            self.raised.append({"call": what, "exception": type(exc).__name__, "site": site, "file": (tb[-1].filename.split("/")[-1] if tb else "?"),
                                "t": self.pair.clock.now})
            return None
        finally:
            self.dirty = True

    def _on_quic_event(self, ep, event):
        evs = self.call("handle_event", self.h3.handle_event, event)
        for ev in evs or []:
            self.h3_events.append((self.pair.clock.now, ev))
            self.on_h3_event(ev)

    def on_h3_event(self, ev):
        from aioquic.h3 import events as h3e
        if self.role == "server" and isinstance(ev, h3e.HeadersReceived) and ev.stream_id % 4 == 0:
            idx = len(self.req_by_stream)
            if ev.stream_id in self.req_by_stream:
                return       # trailers
            self.req_by_stream[ev.stream_id] = idx
            reqs = self.case["reqs"]
            r = reqs[idx % len(reqs)]
            bad = self.case.get("bad") or {}
            hdrs = [(b":status", b"200")] + [(k.encode(), bytes.fromhex(v)) for k, v in r["resp_hdr"]]
            if bad.get("where") == "response":
                hdrs.append((b"x-bad", bytes.fromhex(bad["value"])))
            sid = ev.stream_id
            if r["push"]:
                ph = [(b":method", b"GET"), (b":scheme", b"https"), (b":authority", b"localhost"), (b":path", b"/pushed")]
                if bad.get("where") == "push":
                    ph.append((b"x-bad", bytes.fromhex(bad["value"])))
                psid = self.call("send_push_promise", self.h3.send_push_promise, sid, ph)
                if psid is not None:
                    self.call("send_headers", self.h3.send_headers, psid, [(b":status", b"200")], False)
                    self.call("send_data", self.h3.send_data, psid, b"pushed-body", True)
            body = bytes((i * 7) & 0xFF for i in range(r["resp_body"]))
            end = not body and not r["trailers"]
            self.call("send_headers", self.h3.send_headers, sid, hdrs, end)
            if body:
                self.call("send_data", self.h3.send_data, sid, body, not r["trailers"])
            if r["trailers"]:
                tr = [(b"x-trailer", b"t")]
                if bad.get("where") == "trailers":
                    tr.append((b"x-bad", bytes.fromhex(bad["value"])))
                self.call("send_headers", self.h3.send_headers, sid, tr, True)
            if r["datagram"]:
                self.call("send_datagram", self.h3.send_datagram, sid, b"dgram")

    def client_requests(self):
        bad = self.case.get("bad") or {}
        for r in self.case["reqs"]:
            sid = self.ep.conn.get_next_available_stream_id()
            hdrs = [(b":method", r["method"].encode()), (b":scheme", b"https"), (b":authority", b"localhost"),
                    (b":path", r["path"].encode())] + [(k.encode(), bytes.fromhex(v)) for k, v in r["hdr"]]
            if bad.get("where") == "request":
                hdrs.append((b"x-bad", bytes.fromhex(bad["value"])))
            body = bytes((i * 3) & 0xFF for i in range(r["body"]))
            self.call("send_headers", self.h3.send_headers, sid, hdrs, not body)
            if body:
                self.call("send_data", self.h3.send_data, sid, body, True)

    def raw(self, items):
        for it in items:
            sid = self.ep.conn.get_next_available_stream_id(is_unidirectional=(it["stream"] == "new_uni"))
            self.call("raw_send_stream_data", self.ep.conn.send_stream_data, sid, bytes.fromhex(it["data"]), it.get("fin", False))


def _h3_event_canon(t, ev):
    d = {}
    for k, v in sorted(vars(ev).items()):
        d[k] = _canon(v)
    return [t.hex(), type(ev).__name__, d]


def run_h3_case(sim, case, pair, subject, peer, rec):
    ok = pair.handshake(max_time=30.0)
    rec["handshake"] = ok
    if not ok:
        return
    sides = {"client": H3Side(pair, pair.client, "client", case), "server": H3Side(pair, pair.server, "server", case)}
    rec["_h3"] = sides

    def settle(max_time):
        t_end = pair.clock.now + max_time
        for _ in range(20000):
            for s in sides.values():
                if s.dirty:
                    s.dirty = False
                    pair.pump(s.ep)
            due = pair.next_due()
            if due is None or due[0] > t_end:
                break
            if not pair.network.in_flight and due[0] > pair.clock.now + 3.0 and not any(s.dirty for s in sides.values()):
                break
            pair.step()

    settle(5.0)
    sides["client"].client_requests()
    settle(20.0)
    if case.get("raw"):
        sides[peer.name].raw(case["raw"])       # the PEER misbehaves at HTTP/3 level towards the subject
        settle(20.0)


# ---- one run -------------------------------------------------------------------------------------


RUNNERS = {"script": run_script_case, "hostile": run_hostile_case, "h3": run_h3_case, "resume": run_resume_case}


def run_once(sim, case, on):
    """Execute the scenario with the subject's logging on/off.  Returns (observation, extras)."""
    logging.getLogger("quic").setLevel(logging.CRITICAL)
    logging.getLogger("http3").setLevel(logging.CRITICAL)
    counter = DecryptCounter()
    counter.install()
    harness_exc = None
    rec = {}
    try:
        pair, subject, peer = build_pair(sim, case, on, counter)
        try:
            RUNNERS[case["kind"]](sim, case, pair, subject, peer, rec)
        except Exception as exc:      # SimStall etc.: part of the observation, must be equal in both runs
            harness_exc = "%s: %s" % (type(exc).__name__, str(exc)[:200])
    finally:
        counter.uninstall()
    obs = {}
    obs["harness_exception"] = harness_exc
    obs["handshake"] = rec.get("handshake")
    obs["script_outcomes"] = rec.get("script_outcomes")
    obs["events"] = [[t.hex(), name, _canon(fields)] for (t, name, fields) in sim.event_summary(subject, with_time=True)]
    obs["peer_events"] = [[t.hex(), name, _canon(fields)] for (t, name, fields) in sim.event_summary(peer, with_time=True)]
    obs["sent"] = [[t.hex(), data.hex(), list(addr)] for (t, data, addr) in subject.sent]
    obs["raised"] = [[c.name, c.exc_type] for c in subject.raised]
    obs["peer_raised"] = [[c.name, c.exc_type] for c in peer.raised]
    obs["timers"] = [[a.hex(), b.hex()] for a, b in subject.timer_fired]
    obs["anomalies"] = list(pair.anomalies)
    h3 = rec.get("_h3")
    if h3:
        obs["h3_events"] = [_h3_event_canon(t, ev) for t, ev in h3[subject.name].h3_events]
        obs["h3_peer_events"] = [_h3_event_canon(t, ev) for t, ev in h3[peer.name].h3_events]
        obs["h3_raised"] = [[r["call"], r["exception"], r["site"]] for r in h3[subject.name].raised]
        obs["h3_peer_raised"] = [[r["call"], r["exception"], r["site"]] for r in h3[peer.name].raised]
        obs["h3_state"] = _h3_state(h3[subject.name].h3)
    conn = subject.conn
    state = {}
    if conn is not None:
        try:
            state["public"] = _canon(sim.public_state(conn))
            for nm in ("peek_state", "peek_flow", "peek_cids", "peek_spaces", "peek_streams", "peek_ledger"):
                try:
                    state[nm] = _canon(getattr(sim, nm)(conn))
                except Exception as exc:
                    state[nm] = "peek failed: %s" % type(exc).__name__
            state["deep"] = _digest_obj(conn)
        except Exception as exc:
            state["error"] = "%s: %s" % (type(exc).__name__, exc)
    obs["state"] = state
    # decoded view of what the subject put on the wire (for explanations and the record counts)
    pkts = [p for p in pair.observer.packets if p.sender == subject.name and p.type not in ("padding", "retry", "version_negotiation", "garbage")]
    obs["wire_packets"] = [[p.type, p.pn, _dedupe_padding([WIRE2QLOG.get(f.name, f.name) for f in p.frames]), bool(p.decrypted)] for p in pkts]
    extras = {"pair": pair, "subject": subject, "peer": peer, "counter": counter, "h3": h3,
              "n_datagrams": len(pair.network.wire_log), "frame_hist": pair.observer.stats().get("frames", {})}
    return obs, extras


def _h3_state(h3):
    d = {}
    for k, v in sorted(vars(h3).items()):
        if k in ("_quic", "_quic_logger", "_decoder", "_encoder"):
            continue
        if k == "_stream":
            d[k] = [[sid, {a: _canon(b) for a, b in sorted(vars(st).items()) if a not in ("buffer",)}] for sid, st in sorted(v.items())]
        else:
            d[k] = _canon(v)
    return d


def _dedupe_padding(names):
    out = []
    for n in names:
        if n == "padding" and out and out[-1] == "padding":
            continue
        out.append(n)
    return out


# ======================================================================================
# the oracle


COMPARED = ["harness_exception", "handshake", "script_outcomes", "raised", "h3_raised", "events", "h3_events", "sent", "state",
            "h3_state", "timers", "peer_events", "h3_peer_events", "peer_raised", "h3_peer_raised", "anomalies"]


def compare(off, on):
    """Transparency: list of (what, signature) differences between the two observations."""
    bad = []
    for key in COMPARED:
        if off.get(key) == on.get(key):
            continue
        diff = _first_diff(off.get(key), on.get(key), key)
        sig = {"rule": "paired_" + key}
        if key in ("raised", "h3_raised"):
            extra_on = [r for r in (on.get(key) or []) if r not in (off.get(key) or [])]
            if extra_on:
                sig = {"exception": extra_on[0][1], "site": extra_on[0][2] if len(extra_on[0]) > 2 else extra_on[0][0]}
                diff = "with logging on, %s raised %s (innermost frame: %s) -- not raised with logging off; %s" % (
                    extra_on[0][0], extra_on[0][1], sig["site"], diff)
        if key == "sent":
            diff = _explain_sent(off, on) or diff
        bad.append(("logging changed the subject's %s: %s" % (key, diff), sig))
    return bad


def _explain_sent(off, on):
    a, b = off.get("wire_packets") or [], on.get("wire_packets") or []
    for i, (x, y) in enumerate(zip(a, b)):
        if x != y:
            return "first differing packet #%d: without logging %s, with logging %s" % (i, _clip(x), _clip(y))
    if len(a) != len(b):
        return "packets sent: %d without logging, %d with logging" % (len(a), len(b))
    return None


def check_on_run(case, obs, extras):
    """Checks on the logging-ON run alone: serialisable qlog, one record per packet, NSS key log."""
    bad = []
    subject, counter = extras["subject"], extras["counter"]
    mode = case.get("mode", "both")
    if mode in ("both", "qlog"):
        ql = subject.quic_logger
        try:
            text = json.dumps(ql.to_dict())
            doc = json.loads(text)
        except Exception as exc:
            return [("json.dumps(QuicLogger.to_dict()) failed: %r" % (exc,), {"rule": "qlog_json", "exception": type(exc).__name__})]
        try:
            json.dumps(ql.to_dict(), allow_nan=False)
        except ValueError as exc:
            bad.append(("the qlog document contains NaN / Infinity, which is not JSON (RFC 8259): %r" % (exc,),
                        {"rule": "qlog_json_strict"}))
        events = [e for tr in doc["traces"] for e in tr["events"]]
        extras["qlog_events"] = len(events)
        names = collections.Counter(e["name"] for e in events)
        extras["qlog_names"] = dict(names)
        sent = [e for e in events if e["name"] == "transport:packet_sent"]
        wire = obs["wire_packets"]
        if len(sent) != len(wire):
            bad.append(("qlog has %d packet_sent records but the subject sent %d packets (wire observer)" % (len(sent), len(wire)),
                        {"rule": "record_count", "dir": "sent"}))
        else:
            for i, (e, w) in enumerate(zip(sent, wire)):
                h = e["data"]["header"]
                qt = QLOG_PTYPE.get(h.get("packet_type"), h.get("packet_type"))
                if qt != w[0] or (w[3] and h.get("packet_number") != w[1]):
                    bad.append(("packet_sent record #%d is %s pn=%s but the wire shows %s pn=%s" % (i, qt, h.get("packet_number"), w[0], w[1]),
                                {"rule": "record_header", "dir": "sent"}))
                    break
                qf = _dedupe_padding([f.get("frame_type") for f in e["data"]["frames"]])
                if w[3] and qf != w[2]:
                    bad.append(("packet_sent record #%d (%s pn=%s) lists frames %s but the packet on the wire carries %s" % (i, qt, w[1], qf, w[2]),
                                {"rule": "record_frames", "dir": "sent"}))
                    break
        recv = [e for e in events if e["name"] == "transport:packet_received"
                and e["data"]["header"].get("packet_type") in QLOG_PTYPE]
        if len(recv) != counter.ok:
            missing = counter.ok - len(recv)
            if counter.ok_reserved and missing == counter.ok_reserved:
                # a decrypted packet whose reserved header bits are set closes the connection before anything is logged
                bad.append(("%d successfully decrypted packet(s) with reserved header bits set have no packet_received / packet_dropped "
                            "record (%d records, %d decrypted)" % (missing, len(recv), counter.ok),
                            {"rule": "record_count", "dir": "received", "site": "reserved_bits"}))
            else:
                bad.append(("qlog has %d packet_received records but the subject successfully decrypted %d packets" % (len(recv), counter.ok),
                            {"rule": "record_count", "dir": "received"}))
        dropped = collections.Counter(e["data"].get("trigger") for e in events if e["name"] == "transport:packet_dropped")
        extras["dropped"] = dict(dropped)
        if dropped.get("payload_decrypt_error", 0) != counter.crypto_error:
            bad.append(("qlog has %d payload_decrypt_error drops but %d decryptions failed" % (dropped.get("payload_decrypt_error", 0), counter.crypto_error),
                        {"rule": "record_count", "dir": "dropped", "trigger": "payload_decrypt_error"}))
        if dropped.get("key_unavailable", 0) != counter.key_unavailable:
            bad.append(("qlog has %d key_unavailable drops but %d packets had no key" % (dropped.get("key_unavailable", 0), counter.key_unavailable),
                        {"rule": "record_count", "dir": "dropped", "trigger": "key_unavailable"}))
        dsent = names.get("transport:datagrams_sent", 0)
        if dsent != len(subject.sent):
            bad.append(("qlog has %d datagrams_sent records but the subject returned %d datagrams" % (dsent, len(subject.sent)),
                        {"rule": "record_count", "dir": "datagrams_sent"}))
        # frames of received packets: every packet_received record must be a prefix of a packet the peer side really sent
        if case["kind"] != "hostile":
            by_key = collections.defaultdict(list)
            for p in extras["pair"].observer.packets:
                if p.sender == extras["peer"].name and p.decrypted:
                    by_key[(p.type, p.pn)].append(_dedupe_padding([WIRE2QLOG.get(f.name, f.name) for f in p.frames]))
            for i, e in enumerate(recv):
                h = e["data"]["header"]
                key = (QLOG_PTYPE[h["packet_type"]], h.get("packet_number"))
                qf = _dedupe_padding([f.get("frame_type") for f in e["data"]["frames"]])
                cands = by_key.get(key, [])
                if not any(c[:len(qf)] == qf for c in cands):
                    bad.append(("packet_received record #%d %s lists frames %s; the peer's packet(s) with that number carry %s" % (i, key, qf, cands[:2]),
                                {"rule": "record_frames", "dir": "received"}))
                    break
    if mode in ("both", "secrets"):
        text = subject.secrets_log.getvalue() if subject.secrets_log is not None else ""
        peer_text = extras["peer"].secrets_log.getvalue()
        peer_lines = {}
        for line in peer_text.splitlines():
            m = NSS_LINE.match(line)
            if m:
                peer_lines[m.group(1)] = (m.group(2), m.group(3))
        n = 0
        for line in text.split("\n")[:-1] if text else []:
            m = NSS_LINE.match(line)
            if not m or m.group(1) not in NSS_LABELS:
                bad.append(("secrets log line is not NSS key log format: %r" % line[:120], {"rule": "nss_format"}))
                break
            n += 1
            if m.group(1) in peer_lines and peer_lines[m.group(1)] != (m.group(2), m.group(3)):
                bad.append(("secrets log line %s disagrees with the peer's log for the same connection" % m.group(1), {"rule": "nss_value"}))
                break
        if text and not text.endswith("\n"):
            bad.append(("secrets log does not end with a newline", {"rule": "nss_format"}))
        extras["nss_lines"] = n
        if obs.get("handshake") and n < 4:
            bad.append(("handshake completed but the secrets log has only %d lines" % n, {"rule": "nss_missing"}))
    return bad


def paired(sim, case):
    """Run both halves; return (violations, stats)."""
    off, ex_off = run_once(sim, case, False)
    on, ex_on = run_once(sim, case, True)
    bad = compare(off, on)
    exc = [b for b in bad if "exception" in b[1]]
    bad_on = check_on_run(case, on, ex_on)
    if exc:
        # an exception raised only with logging on explains every other difference of this pair: report the root cause
        bad = exc[:1]
    else:
        if len(bad) > 1:
            # one pair, one report: the first differing observable (in the order of COMPARED); the rest are consequences
            others = sorted({b[1].get("rule", "?").replace("paired_", "") for b in bad[1:]})
            bad = [(bad[0][0] + "  [also differing in this pair: %s]" % ", ".join(others), bad[0][1])]
        bad += bad_on
    stats = {
        "datagrams": ex_on["n_datagrams"], "packets_sent": len(on["wire_packets"]), "events": len(on["events"]),
        "decrypted": ex_on["counter"].ok, "decrypt_failed": ex_on["counter"].crypto_error, "key_unavailable": ex_on["counter"].key_unavailable,
        "qlog_events": ex_on.get("qlog_events", 0), "nss_lines": ex_on.get("nss_lines", 0), "raised": len(on["raised"]) + len(on.get("h3_raised") or []),
        "handshake": bool(on.get("handshake")), "h3_events": len(on.get("h3_events") or []), "frames": ex_on["frame_hist"],
        "dropped": ex_on.get("dropped", {}), "qlog_names": ex_on.get("qlog_names", {}),
        "terminated": bool(ex_on["subject"].terminated),
    }
    return bad, stats


# ======================================================================================
# case generation


def gen_cases(rng, n_script, n_hostile, n_h3, n_h3_bad):
    cases = []
    V1, V2 = 1, 0x6B3343CF
    for i in range(n_script):
        seed = rng.randrange(1 << 30)
        lossy = i % 3 != 0
        net = {"kind": "perfect"}
        if lossy:
            net = {"kind": "random", "p_drop": rng.choice([0.05, 0.2, 0.3]), "p_dup": rng.choice([0.0, 0.2]),
                   "p_reorder": rng.choice([0.0, 0.3]), "max_delay": rng.choice([0.02, 0.2]), "fair_after": 4.0}
        opts = {"cc": rng.choice(["reno", "cubic"])}
        if rng.random() < 0.3:
            opts["versions"] = [V2, V1]
        if rng.random() < 0.2:
            opts["retry"] = True
        if rng.random() < 0.25:
            opts["timer_slack"] = 0.003
        if rng.random() < 0.3:
            opts["client_config"] = {"max_datagram_frame_size": 1200}
            opts["server_config"] = {"max_datagram_frame_size": 1200}
        if rng.random() < 0.35:      # small flow-control windows: MAX_DATA / MAX_STREAM_DATA / *_BLOCKED traffic
            fc = {"max_data": rng.choice([8192, 65536]), "max_stream_data": rng.choice([4096, 32768])}
            opts["client_config"] = dict(opts.get("client_config", {}), **fc)
            opts["server_config"] = dict(opts.get("server_config", {}), **fc)
        prof = rng.choice(["small", "small", "mixed", "closing", "closing"])
        if "max_datagram_frame_size" in opts.get("client_config", {}):
            prof = dict(streams=3, writes=(1, 3), max_size=4096, p_reset=0.1, p_stop=0.1, extras=5, span=0.6,
                        close=rng.random() < 0.5, rebind=False, datagrams=True)
        c = {"kind": "script", "seed": seed, "subject": rng.choice(["client", "server"]), "net": net, "profile": prof, "opts": opts}
        r = rng.random()
        if r < 0.12:
            c["mode"] = "qlog"
        elif r < 0.24:
            c["mode"] = "secrets"
        if i % 5 == 4 and not opts.get("retry"):
            # resumed connection with 0-RTT data (accepted, or rejected by a server that lost the ticket): the key-logging
            # and qlog code of the early-data path
            c["kind"] = "resume"
            c["resume"] = {"early_writes": rng.choice([0, 1, 3]), "reject": rng.random() < 0.25}
            c["mode"] = rng.choice(["both", "secrets", "qlog"])
        cases.append(c)
    for i in range(n_hostile):
        seed = rng.randrange(1 << 30)
        subject = rng.choice(["client", "server"])
        c = {"kind": "hostile", "seed": seed, "subject": subject,
             "ops": gen_hostile_ops(rng, subject, rng.randint(2, 10), FRAME_KINDS[i % len(FRAME_KINDS)]), "opts": {}}
        if rng.random() < 0.3:
            c["opts"]["client_config"] = {"max_datagram_frame_size": 1200}
            c["opts"]["server_config"] = {"max_datagram_frame_size": 1200}
        if subject == "server" and rng.random() < 0.2:
            c["pre"] = [rng.randbytes(rng.choice([10, 100, 1200])).hex()]
        cases.append(c)
    for i in range(n_h3):
        cases.append(gen_h3_case(rng, rng.randrange(1 << 30), rng.choice(["client", "server"]), raw=(i % 3 == 2)))
        if i % 4 == 1:
            cases[-1]["net"] = {"kind": "random", "p_drop": 0.15, "p_dup": 0.1, "p_reorder": 0.2, "max_delay": 0.03, "fair_after": 3.0}
    wheres = ["request", "response", "trailers", "push"]
    for i in range(n_h3_bad):
        where = wheres[i % len(wheres)]
        # the subject is the side that RECEIVES the offending header (even i) or whose application SENDS it (odd i)
        receiver = {"request": "server", "response": "client", "trailers": "client", "push": "client"}[where]
        subject = receiver if (i // len(wheres)) % 2 == 0 else ("client" if receiver == "server" else "server")
        c = gen_h3_case(rng, rng.randrange(1 << 30), subject, bad_where=where)
        if where == "trailers":
            for r in c["reqs"]:
                r["trailers"] = True
        if where == "push":
            for r in c["reqs"]:
                r["push"] = True
        cases.append(c)
    return cases


F7_MINIMAL = {
    "kind": "h3", "seed": 7, "subject": "server", "opts": {"h3": True},
    "reqs": [{"method": "GET", "path": "/", "hdr": [["x-test", "706c61696e"]], "body": 0, "resp_hdr": [["x-reply", "6f6b"]],
              "resp_body": 0, "trailers": False, "push": False, "datagram": False}],
    "bad": {"where": "request", "value": "80"}, "peer_qlog": False,
}


def nontrivial(case, stats):
    """A pair is non-trivial when the handshake completed, the subject sent >= 4 packets and logged >= 10 qlog events
    (or, in secrets-only mode, wrote >= 4 key-log lines)."""
    if not stats["handshake"] or stats["packets_sent"] < 4:
        return False
    if case.get("mode") == "secrets":
        return stats["nss_lines"] >= 4
    return stats["qlog_events"] >= 10


def case_key(case):
    return json.dumps(case, sort_keys=True)


# ======================================================================================
# encoder model <-> logger.py correspondence (model/LogEnc.v, exec_logenc)


UTF8_BOUNDARY = [
    b"", b"a", b"\x7f", b"\x80", b"\xbf", b"\xc0\x80", b"\xc1\xbf", b"\xc2\x80", b"\xdf\xbf", b"\xc2", b"\xc2\x7f", b"\xc2\xc0",
    b"\xe0\x80\x80", b"\xe0\x9f\xbf", b"\xe0\xa0\x80", b"\xe0\xa0", b"\xed\x9f\xbf", b"\xed\xa0\x80", b"\xed\xbf\xbf",
    b"\xee\x80\x80", b"\xef\xbf\xbf", b"\xf0\x8f\xbf\xbf", b"\xf0\x90\x80\x80", b"\xf0\x90\x80", b"\xf4\x8f\xbf\xbf",
    b"\xf4\x90\x80\x80", b"\xf5\x80\x80\x80", b"\xf8\x88\x80\x80\x80", b"\xff", b"\xfe", b"caf\xe9", b"caf\xc3\xa9",
    "\u20ac".encode(), "\U0001F600".encode(), b"a\x80b", b"\xe2\x82", b"\xe2\x28\xa1", b"\xf0\x28\x8c\xbc", b" lead", b"trail ",
    b"\ttab", b"nul\x00", b"lf\n", b"cr\r", b"ok value", b":path", b"x-ok", b"X-Upper", b"a:b", b"sp ace", b"\x7f", b"del\x7f",
]


def _rand_bytes_utf8ish(rng):
    r = rng.random()
    if r < 0.25:
        return rng.choice(UTF8_BOUNDARY)
    if r < 0.45:
        return "".join(chr(rng.choice([rng.randrange(0x20, 0x7f), rng.randrange(0x80, 0x800), rng.randrange(0x800, 0xD800),
                                       rng.randrange(0xE000, 0x10000), rng.randrange(0x10000, 0x110000)])) for _ in range(rng.randint(0, 6))).encode()
    if r < 0.6:
        b = bytearray(rng.choice(UTF8_BOUNDARY) + rng.choice(UTF8_BOUNDARY))
        if b:
            b[rng.randrange(len(b))] = rng.randrange(256)
        return bytes(b)
    if r < 0.8:
        return bytes(rng.choice([0x41, 0x61, 0x80, 0xBF, 0xC2, 0xE0, 0xED, 0xF0, 0xF4, 0xA0, 0x9F, 0x90, 0x8F, 0x20, 0x09]) for _ in range(rng.randint(0, 5)))
    return rng.randbytes(rng.randint(0, 8))


def enc_gen(rng, n):
    cases = []
    for i in range(8):
        cases.append({"k": 1, "idx": i - 1})
    for b in UTF8_BOUNDARY:
        for k in (2, 3, 4, 5):
            cases.append({"k": k, "data": list(b)})
        cases.append({"k": 6, "hs": [[list(b"x-h"), list(b)]]})
        cases.append({"k": 6, "hs": [[list(b), list(b"v")]]})
    for _ in range(n):
        k = rng.choice([2, 3, 3, 3, 4, 5, 6, 6, 6])
        if k == 6:
            hs = []
            for _ in range(rng.randint(0, 4)):
                name = rng.choice([b"x-a", b":path", b"content-type", _rand_bytes_utf8ish(rng)])
                hs.append([list(name), list(_rand_bytes_utf8ish(rng))])
            cases.append({"k": 6, "hs": hs})
        else:
            cases.append({"k": k, "data": list(_rand_bytes_utf8ish(rng))})
    return cases


def enc_encode(c):
    if c["k"] == 1:
        return [1, c["idx"]]
    if c["k"] == 6:
        t = [6, len(c["hs"])]
        for n, v in c["hs"]:
            t += [len(n)] + list(n) + [len(v)] + list(v)
        return t
    return [c["k"], len(c["data"])] + list(c["data"])


def _trace():
    from aioquic.quic.logger import QuicLoggerTrace
    return QuicLoggerTrace(is_client=True, odcid=bytes(8))


def enc_impl(c):
    from aioquic.quic import logger as ql
    from aioquic.quic.packet import QuicPacketType
    from aioquic.h3 import connection as h3c
    k = c["k"]
    try:
        if k == 1:
            members = list(QuicPacketType)
            arg = members[c["idx"]] if 0 <= c["idx"] < len(members) else object()
            _trace().packet_type(arg)
            return [0]
        data = bytes(c.get("data", []))
        if k == 2:
            out = ql.hexdump(data)
            return [0, len(out)] + [ord(ch) for ch in out]
        if k == 3:
            data.decode("utf8")
            return [0, len(data)] + list(data)
        if k == 4:
            try:
                h3c.validate_header_value(b"x", data)
                return [1]
            except h3c.ProtocolError:
                return [0]
        if k == 5:
            try:
                h3c.validate_header_name(data)
                return [1]
            except h3c.ProtocolError:
                return [0]
        if k == 6:
            out = _trace()._encode_http3_headers([(bytes(n), bytes(v)) for n, v in c["hs"]])
            json.dumps(out)
            return [0, len(out)]
    except KeyError:
        return [1, 1]
    except UnicodeDecodeError:
        return [1, 2]
    return [9]


def enc_oracle(c):
    """encoders_total on the implementation: an encoder must not raise for arguments its call sites can pass."""
    from aioquic.quic import logger as ql
    from aioquic.quic.packet import QuicPacketType
    from aioquic.h3 import connection as h3c
    k = c["k"]
    if k == 1:
        members = list(QuicPacketType)
        if 0 <= c["idx"] < len(members):
            try:
                _trace().packet_type(members[c["idx"]])
            except Exception as exc:
                return ("packet_type(%s) raised %r" % (members[c["idx"]], exc), {"exception": type(exc).__name__, "site": "packet_type"})
        return None
    if k == 2:
        try:
            ql.hexdump(bytes(c["data"]))
        except Exception as exc:
            return ("hexdump raised %r" % (exc,), {"exception": type(exc).__name__, "site": "hexdump"})
        return None
    if k == 6:
        hs = [(bytes(n), bytes(v)) for n, v in c["hs"]]
        for n, v in hs:      # only header lists the receive path lets through
            try:
                h3c.validate_header_name(n)
                h3c.validate_header_value(n, v)
            except h3c.ProtocolError:
                return None
        t = _trace()
        for which, fn in (("encode_http3_headers_frame", lambda: t.encode_http3_headers_frame(length=3, headers=hs, stream_id=0)),
                          ("encode_http3_push_promise_frame", lambda: t.encode_http3_push_promise_frame(length=3, headers=hs, push_id=0, stream_id=0))):
            try:
                json.dumps(fn())
            except Exception as exc:
                tb = traceback.extract_tb(exc.__traceback__)
                return ("%s raised %r for validated headers %r" % (which, exc, hs), {"exception": type(exc).__name__, "site": tb[-1].name if tb else which})
    return None


def enc_suite(ctx, reported_sigs):
    suppressed = collections.Counter()

    def oracle(c):
        bad = enc_oracle(c)
        if bad and json.dumps(bad[1], sort_keys=True) in reported_sigs:
            suppressed[json.dumps(bad[1], sort_keys=True)] += 1      # same finding as already reported: counted, not repeated
            return None
        return bad

    def ops(c):
        return c["hs"] if c["k"] == 6 else [[x] for x in c.get("data", [])] if c["k"] != 1 else [c["idx"]]

    def rebuild(c, o):
        d = dict(c)
        if c["k"] == 6:
            d["hs"] = o
        elif c["k"] != 1:
            d["data"] = [x[0] for x in o]
        return d

    def simplify(op):
        # shrink a header to shorter name / value
        if isinstance(op, list) and len(op) == 2 and isinstance(op[0], list):
            n, v = op
            outs = []
            if n != list(b"x"):
                outs.append([list(b"x"), v])
            for i in range(len(v)):
                outs.append([n, v[:i] + v[i + 1:]])
            return outs
        return []

    su = corr.Suite(ctx, "logenc", "exec_logenc", enc_encode, enc_impl, oracle, ops, rebuild,
                    nontrivial=lambda c, out: c["k"] == 1 or bool(c.get("data") or c.get("hs")),
                    opname=lambda o: "item", simplify=simplify)
    su.run(corr.load_corpus("C20", "logenc"), "corpus")
    cases = enc_gen(ctx.rng, ctx.n(4000, 60000))
    # first the deterministic boundary table one case at a time until something is reported, then the bulk
    for c in cases:
        bad = enc_oracle(c)
        if bad and json.dumps(bad[1], sort_keys=True) not in reported_sigs:
            su.run([c])
            reported_sigs.add(json.dumps(bad[1], sort_keys=True))
    su.run(cases)
    su.suppressed = dict(suppressed)
    return su


# ======================================================================================
# model/LogVal.v (generated encoder bodies) vs the real QuicLoggerTrace methods


def _gen_methods():
    """(name, [(param, type string)]) of coq/gen/LogEncoders.v's enc_methods"""
    import os
    text = open(os.path.join(core.COQ, "gen", "LogEncoders.v")).read()
    sect = text[text.index("Definition enc_methods"):text.index("Definition enc_sites")]
    out = []
    for m in re.finditer(r'mkMeth "([^"]+)" \[(.*?)\]\n', sect):
        ps = re.findall(r'\("([^"]+)", (\([A-Za-z]+ "[^"]*"\)|[A-Za-z]+)\)', m.group(2))
        out.append((m.group(1), ps))
    return out, json.loads(re.search(r"\(\* SUMMARY (\{.*?\}) \*\)", text).group(1))


def _cq(s):
    return '"' + s.replace('"', '""') + '"'


def _cfloat(x):
    import math
    if x != x:
        return "nan"
    if x in (float("inf"), float("-inf")):
        return "infinity" if x > 0 else "neg_infinity"
    if x == 0.0:
        return "neg_zero" if math.copysign(1.0, x) < 0 else "zero"
    m, e = math.frexp(abs(x))
    return "(f_lit %s %d (%d))" % ("true" if x < 0 else "false", int(m * (1 << 53)), e - 53)


def _cjson(v):
    if v is None:
        return "VNone"
    if isinstance(v, bool):
        return "(VBool %s)" % ("true" if v else "false")
    if isinstance(v, int):
        return "(VInt (%d))" % v
    if isinstance(v, float):
        return "(VFloat %s)" % _cfloat(v)
    if isinstance(v, str):
        return "(VStr %s)" % _cq(v)
    if isinstance(v, bytes):
        return "(VBytes [%s])" % "; ".join(str(b) for b in v)
    if isinstance(v, (list, tuple)):
        return "(VList [%s])" % "; ".join(_cjson(x) for x in v)
    if isinstance(v, dict):
        return "(VDict [%s])" % "; ".join("(%s, %s)" % (_cjson(k), _cjson(x)) for k, x in v.items())
    raise ValueError(v)


def _pyser(v):
    import math
    if v is None:
        return [0]
    if isinstance(v, bool):
        return [1, int(v)]
    if isinstance(v, int):
        return [2, int(v)]
    if isinstance(v, float):
        if v != v:
            return [5]
        if v in (float("inf"), float("-inf")):
            return [4, int(v < 0)]
        if v == 0.0:
            return [3, int(math.copysign(1.0, v) < 0), 0, 0]
        # canonical (mantissa, exponent) of SpecFloat / Prim2SF: exponent = max(exp - 53, -1074), also for subnormals
        m, ex = math.frexp(abs(v))
        e = max(ex - 53, -1074)
        return [3, int(v < 0), int(math.ldexp(m, ex - e)), e]
    if isinstance(v, str):
        b = v.encode("utf8", "surrogatepass")
        return [6, len(b)] + list(b)
    if isinstance(v, bytes):
        return [7, len(v)] + list(v)
    if isinstance(v, (list, tuple)):
        out = [8, len(v)]
        for x in v:
            out += _pyser(x)
        return out
    if isinstance(v, dict):
        out = [9, len(v)]
        for k, x in v.items():
            out += _pyser(k) + _pyser(x)
        return out
    return [11]


_SAFE = "abcdefghijklmnopqrstuvwxyzABCDEFGHIJKLMNOPQRSTUVWXYZ0123456789 :-_./=?&%+()[]{}<>!#*,;@^~|$'`"
_EXN = {"KeyError": 1, "UnicodeDecodeError": 2, "TypeError": 3, "AttributeError": 4, "IndexError": 5, "OverflowError": 6,
        "NameError": 7, "UnboundLocalError": 7, "ValueError": 8}


def _gen_value(rng, ty, case):
    """-> (python value, Coq term) of a value of Coq type `ty` (string as printed in the generated file)"""
    from aioquic.quic.packet import QuicPacketType, QuicStreamFrame, QuicTransportParameters
    from aioquic.quic.rangeset import RangeSet
    ints = [0, 1, -1, 7, 255, 1200, 2 ** 31, 2 ** 62 - 1, 2 ** 62, 2 ** 64 + 5, -(2 ** 63)]
    def rint():
        return rng.choice(ints) if rng.random() < 0.5 else rng.randrange(0, 1 << rng.randrange(1, 62))
    def rbytes(n=20):
        return bytes(rng.randrange(256) for _ in range(rng.randrange(0, n)))
    def rstr():
        return "".join(rng.choice(_SAFE) for _ in range(rng.randrange(0, 12)))
    def rfloat():
        r = rng.random()
        if r < 0.08:
            return rng.choice([0.0, -0.0, float("inf"), float("-inf"), 1e306, 5e-324, 1e-310])
        if r < 0.5:
            return rng.uniform(0, 5.0)
        return rng.uniform(-1e9, 1e9) * 10 ** rng.randrange(-12, 12)
    def rjson(d=0):
        r = rng.random()
        if d > 2 or r < 0.5:
            return rng.choice([None, True, False, rint(), rstr(), rfloat() if rng.random() < 0.5 else rint()])
        if r < 0.75:
            return [rjson(d + 1) for _ in range(rng.randrange(0, 4))]
        return {rstr() + str(i): rjson(d + 1) for i in range(rng.randrange(0, 4))}
    if ty == "TInt":
        v = rint(); return v, _cjson(v)
    if ty == "TFloat":
        v = rfloat(); return v, _cjson(v)
    if ty == "TStr":
        v = rstr(); return v, _cjson(v)
    if ty == "TBool":
        v = rng.random() < 0.5; return v, _cjson(v)
    if ty == "TBytes":
        v = rbytes(); return v, _cjson(v)
    if ty == "TOptInt":
        v = None if rng.random() < 0.4 else rint(); return v, _cjson(v)
    if ty == "TJson":
        v = rjson(); return v, _cjson(v)
    if ty == '(TEnumOf "QuicPacketType")':
        m = rng.choice(list(QuicPacketType)); return m, '(VEnum "QuicPacketType" %s)' % _cq(m.name)
    if ty == '(TObj "QuicStreamFrame")':
        d, f, o = rbytes(40), rng.random() < 0.5, rint()
        return QuicStreamFrame(data=d, fin=f, offset=o), '(VObj "QuicStreamFrame" [("data", %s); ("fin", %s); ("offset", %s)])' % (_cjson(d), _cjson(f), _cjson(o))
    if ty == '(TListObj "range")':
        rs, pos = [], rng.randrange(0, 1 << rng.randrange(1, 40))
        for _ in range(rng.randrange(0, 6)):
            a = pos + rng.randrange(1, 50); b = a + rng.randrange(1, 1 << rng.randrange(1, 30)); rs.append((a, b)); pos = b
        return RangeSet([range(a, b) for a, b in rs]), "(VList [%s])" % "; ".join(
            '(VObj "range" [("start", VInt %d); ("stop", VInt %d)])' % ab for ab in rs)
    if ty == "THeaders":
        ascii_only = rng.random() < 0.7
        case["model_comparable"] = case.get("model_comparable", True) and ascii_only
        def hb():
            return bytes(rng.randrange(32, 127) if ascii_only else rng.randrange(256) for _ in range(rng.randrange(0, 10)))
        hs = [(hb(), hb()) for _ in range(rng.randrange(0, 5))]
        return hs, "(VList [%s])" % "; ".join("(VTuple [%s; %s])" % (_cjson(n), _cjson(v)) for n, v in hs)
    if ty == '(TObj "QuicTransportParameters")':
        import dataclasses
        kw, attrs = {}, []
        for f in dataclasses.fields(QuicTransportParameters):
            r = rng.random()
            t = str(f.type)
            if "QuicPreferredAddress" in t or "QuicVersionInformation" in t:
                v = None
            elif r < 0.35:
                v = None
            elif "bytes" in t:
                v = rbytes(21)
            elif "bool" in t:
                v = rng.random() < 0.5
            else:
                v = rint()
            kw[f.name] = v
            attrs.append("(%s, %s)" % (_cq(f.name), _cjson(v)))
        return QuicTransportParameters(**kw), '(VObj "QuicTransportParameters" [%s])' % "; ".join(attrs)
    raise ValueError("no generator for type %s" % ty)


_VAL_PREAMBLE = ("From Coq Require Import String PrimFloat.\nFrom AQ Require Import lib.Base model.LogVal gen.LogEncoders.\n"
                 "Open Scope string_scope.\nOpen Scope Z_scope.\n")


def _val_case(methods, name, cs):
    """one logval case, fully determined by (method name, case seed): runs the real method, returns the case record
    (with the implementation's tokens and the oracle verdict) and the Coq expression for the model"""
    from aioquic.quic import logger as ql
    params = dict(methods)[name]
    rng = random.Random(cs)
    case = {"suite": "logval", "method": name, "seed": cs, "model_comparable": True}
    odcid = bytes(rng.randrange(256) for _ in range(rng.randrange(0, 21)))
    trace = ql.QuicLoggerTrace(is_client=rng.random() < 0.5, odcid=odcid)
    pre_events = [{"data": {"n": k}, "name": "x:y", "time": float(k)} for k in range(rng.randrange(0, 3))]
    trace._events.extend(pre_events)
    self_term = '(VObj "QuicLoggerTrace" [("_odcid", %s); ("_events", %s); ("_vantage_point", %s)])' % (
        _cjson(odcid), _cjson(pre_events), _cjson(trace._vantage_point))
    now = rng.uniform(0, 2e9)
    kwargs, terms, shown = {}, [], {}
    for pname, ty in params:
        if pname == "self":
            terms.append(self_term)
        elif pname == "%time":
            terms.append(_cjson(now))
        else:
            v, t = _gen_value(rng, ty, case)
            kwargs[pname] = v
            terms.append(t)
            shown[pname] = repr(v)[:200]
    case.update({"args": shown, "odcid": list(odcid), "now": now})
    saved = ql.time.time
    ql.time.time = lambda: now
    err = None
    try:
        if name == "hexdump":
            got = ql.hexdump(**kwargs)
        else:
            got = getattr(trace, name)(**kwargs)
            if name == "log_event":
                got = trace._events[-1]
        impl = [0] + _pyser(got)
        try:
            json.loads(json.dumps(got))
        except Exception as exc:
            err = ("QuicLoggerTrace.%s returned a value json.dumps rejects (%r) for arguments of its declared types %r" % (name, exc, shown),
                   {"rule": "encoder_json", "exception": type(exc).__name__, "site": name})
    except Exception as exc:
        impl = [1, _EXN.get(type(exc).__name__, 99)]
        tb = traceback.extract_tb(exc.__traceback__)
        err = ("QuicLoggerTrace.%s raised %r on arguments of its declared types %r" % (name, exc, shown),
               {"exception": type(exc).__name__, "site": tb[-1].name if tb else name})
    finally:
        ql.time.time = saved
    case["impl"] = impl
    return case, err, "call_named enc_tabs enc_methods %s [%s]" % (_cq(name), "; ".join(terms))


def val_suite(ctx, n):
    """every generated method body (model/LogVal.v, by vm_compute) against the real method of the tree under test"""
    methods, summary = _gen_methods()
    rng = ctx.rng
    cases, exprs = [], []
    stats = collections.Counter()
    seen_sigs = set()
    for i in range(n):
        name = methods[i % len(methods)][0] if i < 2 * len(methods) else rng.choice(methods)[0]
        case, err, expr = _val_case(methods, name, rng.getrandbits(48))
        stats["cases"] += 1
        stats["by_method:" + name] += 1
        if err:      # implementation oracle: encoders_total / JSON on the code itself
            stats["oracle_failures"] += 1
            key = json.dumps(err[1], sort_keys=True)
            if key not in seen_sigs:
                seen_sigs.add(key)
                ctx.violation("impl-violation", "logval: " + err[0], corr._short(case, 3000), signature=err[1])
        cases.append(case)
        exprs.append(expr)
    outs = core.run_vm(_VAL_PREAMBLE, exprs)
    reported = False
    for case, out in zip(cases, outs):
        if not case["model_comparable"]:
            stats["structure_only"] += 1
            ok = out[:1] == case["impl"][:1]         # non-ASCII header bytes: the decoded text is not modelled
        else:
            ok = out == case["impl"]
        if ok:
            stats["agree"] += 1
        elif not reported:
            reported = True
            ctx.violation("correspondence", "logval: generated encoder model and QuicLoggerTrace.%s disagree" % case["method"],
                          corr._short(case, 3000), signature={"suite": "logval", "kind": "correspondence"},
                          extra={"impl_output": case["impl"][:200], "model_output": out[:200], "correspondence": "logval"}, no_input=True)
    return {"cases": stats["cases"], "agree": stats["agree"], "structure_only": stats["structure_only"],
            "oracle_failures": stats["oracle_failures"], "methods": len(methods),
            "by_method": {k[10:]: v for k, v in stats.items() if k.startswith("by_method:")}, "generated": summary}


def records_summary():
    import os
    try:
        text = open(os.path.join(core.COQ, "gen", "LogRecords.v")).read()
    except FileNotFoundError:
        return {"missing": True}
    m = re.search(r"\(\* SUMMARY (\{.*?\}) \*\)", text, re.S)
    return json.loads(m.group(1)) if m else {"unparsed": True}


# ======================================================================================
# driver


def run(ctx):
    import sim
    t0 = time.time()
    rng = ctx.rng
    corpus = corr.load_corpus("C20", "paired")
    cases = list(corpus) + gen_cases(rng, ctx.n(200, 2500), ctx.n(160, 2000), ctx.n(90, 1000), ctx.n(16, 120))
    agg = collections.Counter()
    kinds = collections.Counter()
    frames = collections.Counter()
    qnames = collections.Counter()
    dropped = collections.Counter()
    sig_seen = {}
    seen_keys = set()
    distinct_nontrivial = 0
    samples = []
    viol_by_sig = collections.Counter()
    for case in cases:
        try:
            bad, stats = paired(sim, case)
        except Exception as exc:
            bad, stats = [("paired-run driver failed: %r" % (exc,), {"rule": "driver", "exception": type(exc).__name__})], None
            core.log(traceback.format_exc()[-1500:])
        kinds[case["kind"] + ("+bad" if case.get("bad") else "") + ("+raw" if case.get("raw") else "")] += 1
        agg["pairs"] += 1
        if stats:
            for k in ("datagrams", "packets_sent", "events", "decrypted", "decrypt_failed", "key_unavailable", "qlog_events", "nss_lines",
                      "raised", "h3_events"):
                agg[k] += stats[k]
            agg["handshakes"] += int(stats["handshake"])
            agg["terminated"] += int(stats["terminated"])
            frames.update(stats["frames"])
            qnames.update(stats["qlog_names"])
            dropped.update({str(k): v for k, v in stats["dropped"].items()})
            k = case_key(case)
            if k not in seen_keys:
                seen_keys.add(k)
                if nontrivial(case, stats):
                    distinct_nontrivial += 1
            if len(samples) < 3 and case["kind"] != "h3" or (case["kind"] == "h3" and not any(s["case"].get("kind") == "h3" for s in samples) and len(samples) < 4):
                samples.append({"suite": "paired", "case": corr._short(case, 1500), "stats": {k: v for k, v in stats.items() if k not in ("frames", "qlog_names")}})
        for what, sig in bad:
            key = json.dumps(sig, sort_keys=True)
            viol_by_sig[key] += 1
            if key in sig_seen:
                continue
            sig_seen[key] = case
            ctx.violation("impl-violation", "paired: " + what, corr._short(case, 6000), signature=sig)
    paired_wall = time.time() - t0

    # encoder model vs logger.py
    enc_cov = None
    try:
        es = enc_suite(ctx, set(sig_seen))
        enc_cov = es
    except Exception as exc:
        core.log("encoder correspondence failed: %r" % (exc,))
        core.log(traceback.format_exc()[-1500:])
        ctx.violation("harness", "encoder correspondence aborted: %r" % (exc,), None, no_input=True)

    # generated encoder bodies (model/LogVal.v) vs logger.py
    val_cov = None
    try:
        val_cov = val_suite(ctx, ctx.n(360, 3000))
    except Exception as exc:
        core.log("logval correspondence failed: %r" % (exc,))
        core.log(traceback.format_exc()[-1500:])
        if ctx.proof_ok():
            ctx.violation("harness", "logval correspondence aborted: %r" % (exc,), None, no_input=True)

    skeleton = skeleton_summary()
    cov = {
        "evaluations": agg["pairs"] * 2,
        "distinct_nontrivial": distinct_nontrivial,
        "rule": "paired scenarios (each executed twice: subject's qlog+secrets log off / on; peer logging on in both): sim.gen_script "
                "application scripts over perfect and lossy (drop/dup/reorder/delay, fair after 4 s) networks with v1/v2, Retry, reno/cubic, "
                "DATAGRAM; hostile peers (puppet: valid-but-unusual, truncated, unknown, wrong-epoch frames, reserved bits, key-phase flips, "
                "corrupted packets, garbage datagrams, CONNECTION_CLOSE); HTTP/3 exchanges (requests, bodies, trailers, push, datagrams, "
                "non-ASCII UTF-8 header values, non-UTF-8 header values, raw malformed HTTP/3 stream bytes). distinct = distinct case JSON; "
                "non-trivial = handshake completed, subject sent >= 4 packets and logged >= 10 qlog events (>= 4 key-log lines in secrets-only mode)",
        "samples": samples,
        "paired": {
            "pairs": agg["pairs"], "by_kind": dict(kinds), "wall_s": round(paired_wall, 1),
            "totals": {k: agg[k] for k in sorted(agg)},
            "wire_frame_histogram": dict(frames), "qlog_event_histogram": dict(qnames), "dropped_histogram": dict(dropped),
            "violations_by_signature": dict(viol_by_sig),
        },
        "skeleton": skeleton,
    }
    cov["records_skeleton"] = records_summary()
    if val_cov is not None:
        cov["logval"] = val_cov
        cov["evaluations"] += val_cov["cases"]
    if enc_cov is not None:
        cov["correspondence"] = {"logenc": enc_cov.summary()}
        cov["correspondence"]["logenc"]["oracle_failures_same_signature_as_reported"] = enc_cov.suppressed
        cov["evaluations"] += enc_cov.stats["cases"]
        cov["distinct_nontrivial"] += enc_cov.stats["distinct_nontrivial"]
    return cov


def skeleton_summary():
    """What the translator found in the current source (measured from coq/gen/LogSkeleton.v's summary comment)."""
    import os
    p = os.path.join(core.COQ, "gen", "LogSkeleton.v")
    try:
        text = open(p).read()
    except FileNotFoundError:
        return {"missing": True}
    m = re.search(r"\(\* SUMMARY (\{.*?\}) \*\)", text, re.S)
    return json.loads(m.group(1)) if m else {"unparsed": True}


def replay(ctx, rep):
    import sim
    case = rep["case"]
    if isinstance(case, str):
        case = json.loads(case)
    if case.get("suite") == "logval":      # generated encoder model vs the real method
        methods, _ = _gen_methods()
        c2, err, expr = _val_case(methods, case["method"], case["seed"])
        return {"impl": c2["impl"], "model": core.run_vm(_VAL_PREAMBLE, [expr])[0], "args": c2["args"],
                "oracle": {"what": err[0], "signature": err[1]} if err else None}
    if "k" in case:       # encoder correspondence case
        bad = enc_oracle(case)
        return {"impl": enc_impl(case), "model": core.run_model("exec_logenc", [enc_encode(case)], shards=1)[0],
                "oracle": {"what": bad[0], "signature": bad[1]} if bad else None}
    off, _ = run_once(sim, case, False)
    on, ex = run_once(sim, case, True)
    bad = compare(off, on) + check_on_run(case, on, ex)
    brief = lambda o: {k: (v if k in ("raised", "h3_raised", "handshake", "harness_exception") else (len(v) if isinstance(v, list) else "..."))
                       for k, v in o.items()}
    return {"violations": [{"what": w, "signature": s} for w, s in bad], "logging_off": brief(off), "logging_on": brief(on)}
