"""C03 helper: real aioquic.tls.Context PAIRS driven directly (no QUIC).

One fresh client Context and one fresh server Context exchange their handshake flights message by message, the way
a transport would deliver them (one handle_message call per handshake message).  Optionally exactly one byte of one
message is altered in flight.  What both endpoints report afterwards (state, negotiated values, traffic secrets in
update_traffic_key_cb order, alerts) is the observation; `t_oracle` is the C03 statement written directly over that
observation from RFC 8446 and the property text (it never calls aioquic's negotiation code).

Three suites:
  tls-tamper   every byte position (x masks 0x01/0x80/0xFF) of CH, SH, EE, CR, Cert, CV, Fin in both directions, over
               full / client-certificate / resumption / 0-RTT / Ed25519 / RSA configurations
  tls-matrix   products / samples of certificate key type x cipher-suite lists x ALPN lists x resumption x 0-RTT x
               client-certificate request x signature algorithms x groups x version lists
  tls-badcert  untrusted / self-signed / expired / wrong-name / wrong-key server identities x verify mode x key type,
               and resumption attempts against a server that does not know the ticket and holds a bad certificate

Nothing of aioquic / cryptography is imported at module import time (the overlay is activated later)."""
import collections
import datetime
import json
import os
import random
import time
import warnings

HS_NAMES = {1: "CH", 2: "SH", 8: "EE", 13: "CR", 11: "CERT", 15: "CV", 20: "FIN", 4: "NST"}

CH, SH, NST, EE, CERT, CR, CV, FIN = 1, 2, 4, 8, 11, 13, 15, 20
S1301, S1302, S1303 = 0x1301, 0x1302, 0x1303          # AES_128_GCM_SHA256, AES_256_GCM_SHA384, CHACHA20_POLY1305_SHA256
SUITE_HASH = {S1301: "sha256", S1302: "sha384", S1303: "sha256"}
TLS12, TLS13, TLS13_D28 = 0x0303, 0x0304, 0x7F1C
G_P256, G_P384, G_X25519, G_X448 = 0x0017, 0x0018, 0x001D, 0x001E
SA_ECDSA256, SA_ECDSA384, SA_ED25519 = 0x0403, 0x0503, 0x0807
SA_PSS256, SA_PSS384, SA_PSS512 = 0x0804, 0x0805, 0x0806
SA_PKCS256, SA_PKCS384, SA_PKCS512, SA_PKCS_SHA1 = 0x0401, 0x0501, 0x0601, 0x0201
# which CertificateVerify algorithms a key of the given type can produce (RFC 8446 4.2.3; PKCS1 kept: lenient)
USABLE_SIGALGS = {
    "ec256": {SA_ECDSA256},
    "ec384": {SA_ECDSA384},
    "ed25519": {SA_ED25519},
    "rsa": {SA_PSS256, SA_PSS384, SA_PSS512, SA_PKCS256, SA_PKCS384, SA_PKCS512, SA_PKCS_SHA1},
}
GOOD_KINDS = ("ec256", "ec384", "ed25519", "rsa")
BAD_KINDS = ("untrusted", "selfsigned", "expired", "wrongname", "wrongkey")
EXT_TYPE = 0x39
EXT_C = bytes((7 * i + 3) & 0xFF for i in range(40))
EXT_S = bytes((11 * i + 5) & 0xFF for i in range(40))

CFG_DEFAULTS = {
    "cert": "ec256", "keytype": None, "verify": True, "c_suites": None, "s_suites": None, "c_alpn": None, "s_alpn": None,
    "c_groups": None, "c_sigalgs": None, "c_versions": None, "s_versions": None, "reqcert": False, "client_cert": False,
    "psk": 0, "psk_prime_s_suites": None, "psk_store": "same", "early": False, "ext": None,
}
OBS_FULL_CAP = 16000     # beyond this many kept observations the sent_*/received_* message dumps are dropped ("stripped")

_ENV = {}
_TICKETS = {}


def _tls():
    from aioquic import tls
    return tls


def _bufs():
    from aioquic.buffer import Buffer
    tls = _tls()
    return {e: Buffer(capacity=16384) for e in (tls.Epoch.INITIAL, tls.Epoch.HANDSHAKE, tls.Epoch.ONE_RTT)}


def _split(data):
    """split a byte string into handshake messages (4-byte header)"""
    out = []
    while data:
        n = 4 + int.from_bytes(data[1:4], "big")
        out.append(bytes(data[:n]))
        data = data[n:]
    return out


def _norm(cfg):
    c = dict(CFG_DEFAULTS)
    c.update(cfg or {})
    if c["keytype"] is None:
        c["keytype"] = c["cert"] if c["cert"] in GOOD_KINDS else "ec256"
    return c


# ------------------------------------------------------------------------------------------
# certificates and keys

def _new_key(keytype):
    from cryptography.hazmat.primitives.asymmetric import ec, ed25519, rsa
    if keytype == "ec256":
        return ec.generate_private_key(ec.SECP256R1())
    if keytype == "ec384":
        return ec.generate_private_key(ec.SECP384R1())
    if keytype == "ed25519":
        return ed25519.Ed25519PrivateKey.generate()
    if keytype == "rsa":
        return rsa.generate_private_key(public_exponent=65537, key_size=2048)
    raise ValueError(keytype)


_SERIAL = [1000]


def _self_signed(keytype, label, dns, days_from=-2, days_to=30, key=None):
    from cryptography import x509
    from cryptography.hazmat.primitives import hashes
    key = key or _new_key(keytype)
    name = x509.Name([x509.NameAttribute(x509.NameOID.COMMON_NAME, "c03 %s %s" % (label, keytype))])
    now = datetime.datetime.now(datetime.timezone.utc)
    _SERIAL[0] += 1
    b = (x509.CertificateBuilder().subject_name(name).issuer_name(name).public_key(key.public_key())
         .serial_number(_SERIAL[0])
         .not_valid_before(now + datetime.timedelta(days=days_from))
         .not_valid_after(now + datetime.timedelta(days=days_to))
         .add_extension(x509.SubjectAlternativeName([x509.DNSName(dns)]), critical=False))
    # an ECDSA signature is 1-2 bytes shorter in DER when r or s has a clear top bit: re-sign until it has the maximal
    # length so that the Certificate message length (hence the list of tamper positions) is the same in every process
    want = {"ec256": 72, "ec384": 104}.get(keytype)
    cert = None
    for _ in range(200):
        cert = b.sign(key, None if keytype == "ed25519" else hashes.SHA256())
        if want is None or len(cert.signature) == want:
            break
    return cert, key


def _pem(cert):
    from cryptography.hazmat.primitives.serialization import Encoding
    return cert.public_bytes(Encoding.PEM)


def t_env():
    """certificates, keys and trust bundles shared by every case of this process (cached).

    env["ids"][kind or (badkind, keytype)] = {"cert", "key", "name" (what the client asks for), "cadata" (client trust)}"""
    if _ENV:
        return _ENV
    ids = {}
    for kt in ("ec256", "ec384", "ed25519"):
        cert, key = _self_signed(kt, "good", "example.com")
        ids[kt] = {"cert": cert, "key": key, "name": "example.com", "cadata": _pem(cert)}
    # RSA: the repository's test certificate (issued by tests/pycacert.pem for "localhost") when it is there and valid
    rsa_id = None
    repo = os.environ.get("VERIF_REPO", "/repo")
    try:
        from cryptography import x509
        from cryptography.hazmat.primitives import serialization
        with open(os.path.join(repo, "tests", "ssl_cert.pem"), "rb") as f:
            cert = x509.load_pem_x509_certificate(f.read())
        with open(os.path.join(repo, "tests", "ssl_key.pem"), "rb") as f:
            key = serialization.load_pem_private_key(f.read(), password=None)
        with open(os.path.join(repo, "tests", "pycacert.pem"), "rb") as f:
            ca = f.read()
        ca = ca[ca.index(b"-----BEGIN CERTIFICATE-----"):]
        now = datetime.datetime.now(datetime.timezone.utc)
        names = cert.extensions.get_extension_for_class(x509.SubjectAlternativeName).value.get_values_for_type(x509.DNSName)
        if cert.not_valid_before_utc < now < cert.not_valid_after_utc - datetime.timedelta(days=2) and names:
            rsa_id = {"cert": cert, "key": key, "name": names[0], "cadata": ca, "from_repo": True}
    except Exception:  # noqa: BLE001
        rsa_id = None
    if rsa_id is None:
        cert, key = _self_signed("rsa", "good", "example.com")
        rsa_id = {"cert": cert, "key": key, "name": "example.com", "cadata": _pem(cert), "from_repo": False}
    ids["rsa"] = rsa_id
    for kt in ("ec256", "ed25519", "rsa"):
        good = ids[kt]
        ucert, ukey = _self_signed(kt, "untrusted", good["name"])                 # same name, not in the trust bundle
        ids["untrusted", kt] = {"cert": ucert, "key": ukey, "name": good["name"], "cadata": good["cadata"]}
        ids["selfsigned", kt] = ids["untrusted", kt]
        xcert, xkey = _self_signed(kt, "expired", good["name"], -10, -5)          # IN the trust bundle, but expired
        ids["expired", kt] = {"cert": xcert, "key": xkey, "name": good["name"], "cadata": _pem(xcert)}
        wcert, wkey = _self_signed(kt, "wrongname", "other.example")              # IN the trust bundle, other name
        ids["wrongname", kt] = {"cert": wcert, "key": wkey, "name": good["name"], "cadata": _pem(wcert)}
        # certificate A with the private key of another certificate of the same key type
        ids["wrongkey", kt] = {"cert": good["cert"], "key": ukey, "name": good["name"], "cadata": good["cadata"]}
    ccert, ckey = _self_signed("ec256", "client", "client.example.com")
    _ENV["client"] = (ccert, ckey)
    _ENV["ids"] = ids
    return _ENV


def _identity(c):
    ids = t_env()["ids"]
    if c["cert"] in GOOD_KINDS:
        return ids[c["cert"]]
    return ids[c["cert"], c["keytype"]]


# ------------------------------------------------------------------------------------------
# contexts

def _suites(lst):
    tls = _tls()
    return None if lst is None else [tls.CipherSuite(x) for x in lst]


def _ext(c, side):
    if c["ext"] is None:
        return EXT_C if side == "c" else EXT_S
    return bytes.fromhex(c["ext"])


def _ticket(c):
    """priming handshake with the GOOD identity of the same key type; returns {"client","server"} SessionTickets"""
    tls = _tls()
    prime = c["psk_prime_s_suites"] if c["psk_prime_s_suites"] is not None else c["s_suites"]
    key = (c["keytype"], tuple(prime) if prime is not None else None, bool(c["early"]))
    if key in _TICKETS:
        return _TICKETS[key]
    ident = t_env()["ids"][c["keytype"]]
    got = {}
    cl = tls.Context(is_client=True, cadata=ident["cadata"], server_name=ident["name"])
    cl.new_session_ticket_cb = lambda t: got.setdefault("client", t)
    cl.handshake_extensions = [(EXT_TYPE, EXT_C)]
    sv = tls.Context(is_client=False, cipher_suites=_suites(prime), max_early_data=0xFFFFFFFF if c["early"] else None)
    sv.certificate, sv.certificate_private_key = ident["cert"], ident["key"]
    sv.new_session_ticket_cb = lambda t: got.setdefault("server", t)
    sv.handshake_extensions = [(EXT_TYPE, EXT_S)]
    _drive(cl, sv, None)
    if cl.state != tls.State.CLIENT_POST_HANDSHAKE or sv.state != tls.State.SERVER_POST_HANDSHAKE or len(got) != 2:
        raise RuntimeError("priming handshake for a session ticket did not complete (%s / %s)" % (cl.state, sv.state))
    _TICKETS[key] = got
    return got


def t_make_pair(cfg):
    """-> (client Context, server Context, info) configured from the cfg dict; info carries live secret lists"""
    import ssl
    tls = _tls()
    env = t_env()
    c = _norm(cfg)
    ident = _identity(c)
    info = {"cfg": c, "server_name": ident["name"], "ticket_suite": None, "secrets_c": [], "secrets_s": [],
            "tickets_c": [], "tickets_s": []}
    client = tls.Context(is_client=True, alpn_protocols=c["c_alpn"], cadata=ident["cadata"], cipher_suites=_suites(c["c_suites"]),
                         server_name=ident["name"], verify_mode=None if c["verify"] else ssl.CERT_NONE)
    server = tls.Context(is_client=False, alpn_protocols=c["s_alpn"], cipher_suites=_suites(c["s_suites"]),
                         max_early_data=0xFFFFFFFF if c["early"] else None)
    server.certificate, server.certificate_private_key = ident["cert"], ident["key"]
    if c["c_groups"] is not None:
        client._supported_groups = [tls.Group(g) for g in c["c_groups"]]
    if c["c_sigalgs"] is not None:
        client._signature_algorithms = [tls.SignatureAlgorithm(a) for a in c["c_sigalgs"]]
    if c["c_versions"] is not None:
        client._supported_versions = list(c["c_versions"])
    if c["s_versions"] is not None:
        server._supported_versions = list(c["s_versions"])
    if c["reqcert"]:
        server._request_client_certificate = True
    if c["client_cert"]:
        client.certificate, client.certificate_private_key = env["client"]
    client.handshake_extensions = [(EXT_TYPE, _ext(c, "c"))]
    server.handshake_extensions = [(EXT_TYPE, _ext(c, "s"))]
    client.new_session_ticket_cb = info["tickets_c"].append
    server.new_session_ticket_cb = info["tickets_s"].append
    if c["psk"]:
        tk = _ticket(c)
        client.session_ticket = tk["client"]
        info["ticket_suite"] = int(tk["client"].cipher_suite)
        if c["psk_store"] == "same":
            server.get_session_ticket_cb = lambda label: tk["server"] if label == tk["server"].ticket else None
        else:
            server.get_session_ticket_cb = lambda label: None        # another ticket store: the ticket is unknown
    dname = {tls.Direction.ENCRYPT: "E", tls.Direction.DECRYPT: "D"}
    client.update_traffic_key_cb = lambda d, ep, cs, sec: info["secrets_c"].append([dname[d], ep.name, int(cs), bytes(sec).hex()])
    server.update_traffic_key_cb = lambda d, ep, cs, sec: info["secrets_s"].append([dname[d], ep.name, int(cs), bytes(sec).hex()])
    info["eff"] = {
        "c_suites": [int(x) for x in client._cipher_suites], "s_suites": [int(x) for x in server._cipher_suites],
        "c_alpn": None if client._alpn_protocols is None else list(client._alpn_protocols),
        "s_alpn": None if server._alpn_protocols is None else list(server._alpn_protocols),
        "c_sigalgs": [int(x) for x in client._signature_algorithms], "c_groups": [int(x) for x in client._supported_groups],
        "c_versions": [int(x) for x in client._supported_versions], "s_versions": [int(x) for x in server._supported_versions],
    }
    return client, server, info


# ------------------------------------------------------------------------------------------
# the transport: FIFO delivery, one handshake message per handle_message call

def _drive(client, server, tamper):
    tls = _tls()
    order = (tls.Epoch.INITIAL, tls.Epoch.HANDSHAKE, tls.Epoch.ONE_RTT)
    ctxs = {"c": client, "s": server}
    r = {"skipped": False, "tamper_applied": False, "stop": {"c": None, "s": None}, "sent": {"c": [], "s": []},
         "received": {"c": [], "s": []}, "dropped": {"c": 0, "s": 0}}
    queue = collections.deque()
    occ = {}

    def call(side, data):
        bufs = _bufs()
        stop = None
        try:
            ctxs[side].handle_message(data, bufs)
        except tls.Alert as ex:
            try:
                alert = int(ex.description)
            except Exception:  # noqa: BLE001
                alert = -1
            stop = {"alert": alert, "exception": type(ex).__name__}
        except Exception as ex:  # noqa: BLE001   (whatever escapes is an observable)
            stop = {"alert": None, "exception": type(ex).__name__}
        if stop is not None:
            stop["at_msg"] = data[0] if data else None
            stop["index"] = len(r["received"][side]) - 1 if data else -1
            r["stop"][side] = stop
            return                                   # a failing endpoint sends nothing more
        for ep in order:
            for m in _split(bytes(bufs[ep].data)):
                r["sent"][side].append(m)
                queue.append(("s2c" if side == "s" else "c2s", m))

    call("c", b"")
    while queue:
        direction, m = queue.popleft()
        k = occ.get((direction, m[0]), 0)
        occ[direction, m[0]] = k + 1
        if tamper and not r["tamper_applied"] and direction == tamper["dir"] and m[0] == tamper["msg"] and k == tamper.get("occ", 0):
            pos, mask = tamper["pos"], tamper["mask"] & 0xFF
            if pos >= len(m) or pos < 0 or mask == 0:
                r["skipped"] = True
                return r
            m = m[:pos] + bytes([m[pos] ^ mask]) + m[pos + 1:]
            r["tamper_applied"] = True
        side = "c" if direction == "s2c" else "s"
        if r["stop"][side] is not None:
            r["dropped"][side] += 1
            continue
        r["received"][side].append(m)
        call(side, m)
    if tamper and not r["tamper_applied"]:
        r["skipped"] = True                          # the message to alter never travelled
    return r


def _peek_hash(ctx):
    try:
        ks = ctx.key_schedule
        return None if ks is None else ks.hash.copy().finalize().hex()
    except Exception:  # noqa: BLE001
        return None


def t_handshake(cfg, tamper=None):
    """ONE handshake between a fresh real client Context and a fresh real server Context; never raises"""
    try:
        with warnings.catch_warnings():
            warnings.simplefilter("ignore")          # cryptography's deprecation notes about altered certificates
            return _handshake(cfg, tamper)
    except Exception as ex:  # noqa: BLE001
        return {"skipped": False, "harness_error": "%s: %s" % (type(ex).__name__, str(ex)[:300]),
                "client_complete": False, "server_complete": False}


def _handshake(cfg, tamper):
    tls = _tls()
    client, server, info = t_make_pair(cfg)
    r = _drive(client, server, tamper)
    if r["skipped"]:
        return {"skipped": True, "client_complete": False, "server_complete": False}

    def suite(x):
        return None if x.key_schedule is None else int(x.key_schedule.cipher_suite)

    def exts(x):
        if x.received_extensions is None:
            return None
        return [[int(t), bytes(v).hex()] for t, v in x.received_extensions]

    hexes = {}

    def hx(m):                      # identical messages (sent by one side, received by the other) share one string
        if m not in hexes:
            hexes[m] = m.hex()
        return hexes[m]

    sigalg = None
    for m in r["sent"]["s"]:
        if m[0] == CV and len(m) >= 6:
            sigalg = int.from_bytes(m[4:6], "big")
    ks = client.key_schedule or server.key_schedule
    digest = None
    if ks is not None:
        digest = SUITE_HASH.get(int(ks.cipher_suite))
    obs = {
        "skipped": False,
        "client_complete": client.state == tls.State.CLIENT_POST_HANDSHAKE,
        "server_complete": server.state == tls.State.SERVER_POST_HANDSHAKE,
        "client_state": int(client.state.value), "server_state": int(server.state.value),
        "client_stop": r["stop"]["c"], "server_stop": r["stop"]["s"],
        "suite_c": suite(client), "suite_s": suite(server),
        "alpn_c": client.alpn_negotiated, "alpn_s": server.alpn_negotiated,
        "resumed_c": bool(client.session_resumed), "resumed_s": bool(server.session_resumed),
        "early_c": bool(client.early_data_accepted), "early_s": bool(server.early_data_accepted),
        "secrets_c": info["secrets_c"], "secrets_s": info["secrets_s"],
        "sigalg": sigalg,
        "received_c": [hx(m) for m in r["received"]["c"]], "received_s": [hx(m) for m in r["received"]["s"]],
        "sent_c": [hx(m) for m in r["sent"]["c"]], "sent_s": [hx(m) for m in r["sent"]["s"]],
        "transcript_sha_c": _peek_hash(client), "transcript_sha_s": _peek_hash(server),
        "hs_digest": digest,
        # additions to the requested layout
        "ext_recv_c": exts(client), "ext_recv_s": exts(server),
        "ext_sent_c": [[int(t), bytes(v).hex()] for t, v in client.handshake_extensions],
        "ext_sent_s": [[int(t), bytes(v).hex()] for t, v in server.handshake_extensions],
        "ticket_suite": info["ticket_suite"], "eff": info["eff"],
        "dropped_c": r["dropped"]["c"], "dropped_s": r["dropped"]["s"],
        "tickets_c": len(info["tickets_c"]), "tickets_s": len(info["tickets_s"]),
    }
    return obs


# ------------------------------------------------------------------------------------------
# the oracle: C03 over one observation

def _expect(c, obs):
    """what the two configurations must agree on, computed from the option lists only"""
    eff = obs["eff"]
    no_common = []
    if not any(v in eff["c_versions"] for v in eff["s_versions"]):
        no_common.append("version")
    common = [s for s in eff["s_suites"] if s in eff["c_suites"]]
    exp_suite = common[0] if common else None
    if not common:
        no_common.append("suite")
    exp_alpn = None
    if eff["s_alpn"] is not None:
        ca = [a for a in eff["s_alpn"] if a in (eff["c_alpn"] or [])]
        if ca:
            exp_alpn = ca[0]
        else:
            no_common.append("alpn")
    # resumption is possible only with a ticket of this server's store issued for the suite agreed now
    can_resume = bool(c["psk"]) and c["psk_store"] == "same" and not no_common and obs.get("ticket_suite") == exp_suite
    sig_ok = any(a in USABLE_SIGALGS[c["keytype"]] for a in eff["c_sigalgs"])
    if not sig_ok and not can_resume:
        no_common.append("sigalg")
    cert_ok = (c["cert"] in GOOD_KINDS) or (not c["verify"] and c["cert"] in ("untrusted", "selfsigned", "expired", "wrongname"))
    return {"no_common": no_common, "suite": exp_suite, "alpn": exp_alpn, "can_resume": can_resume, "sig_ok": sig_ok,
            "cert_ok": cert_ok}


def _secret_map(lst):
    out = {}
    for d, ep, cs, sec in lst:
        out.setdefault((d, ep), []).append((cs, sec))
    return out


def t_oracle(case, obs):
    """None, or (what, signature) when the observation breaks the C03 statement"""
    suite = case.get("suite", "tls")
    c = _norm(case.get("cfg"))
    tam = case.get("tamper")

    def bad(kind, what, **kw):
        sig = {"suite": suite, "kind": kind}
        sig.update(kw)
        return (what, sig)

    if obs.get("skipped"):
        return None
    if obs.get("harness_error"):
        return bad("honest-failed", "the pair could not be set up / driven: %s" % obs["harness_error"], field="setup")
    cc, sc = obs["client_complete"], obs["server_complete"]
    exp = _expect(c, obs)

    # --- integrity: an altered message prevents completion of the endpoint that received it
    if tam:
        name = HS_NAMES.get(tam["msg"], str(tam["msg"]))
        victim_complete = cc if tam["dir"] == "s2c" else sc
        if victim_complete:
            return bad("tamper-accepted", "%s completed although byte %d of the %s it received was XORed with 0x%02x"
                       % ("client" if tam["dir"] == "s2c" else "server", tam["pos"], name, tam["mask"]), msg=name, dir=tam["dir"])
        if cc and sc:
            return bad("tamper-accepted", "both endpoints completed although %s was altered in flight" % name, msg=name,
                       dir=tam["dir"], both=True)
        if tam["dir"] == "c2s" and tam["msg"] == CH:
            if cc:
                return bad("tamper-accepted", "client completed although the server answered an altered ClientHello "
                           "(byte %d ^ 0x%02x): the server flight does not authenticate the hello the client sent"
                           % (tam["pos"], tam["mask"]), msg=name, dir=tam["dir"], victim="peer")
            if obs["resumed_s"] or obs["early_s"]:
                return bad("psk-accepted-unauthenticated", "server selected the PSK (resumed=%s early=%s) from an altered ClientHello "
                           "(byte %d ^ 0x%02x): the binder does not cover / was not checked against the received hello"
                           % (obs["resumed_s"], obs["early_s"], tam["pos"], tam["mask"]), msg=name, dir=tam["dir"])
    # the server completes on the client's Finished only, which an honest client sends when it completes
    if sc and not cc:
        return bad("server-completed-alone", "server reports completion but the client never completed")

    # --- authentication of the server towards the client
    if cc:
        if obs["resumed_c"]:
            if not (c["psk"] and c["psk_store"] == "same"):
                return bad("unauthenticated-completion", "client completed a RESUMED handshake with a server that cannot hold the "
                           "resumption secret (psk=%s store=%s)" % (c["psk"], c["psk_store"]), cert=c["cert"], resumed=True)
        elif not exp["cert_ok"]:
            return bad("unauthenticated-completion", "client completed a full handshake with server identity %r (verify=%s)"
                       % (c["cert"], c["verify"]), cert=c["cert"], verify=bool(c["verify"]), resumed=False)

    # --- no common option: nobody completes
    if exp["no_common"] and (cc or sc):
        return bad("no-common-completed", "%s completed although the configurations share no %s"
                   % ("both" if cc and sc else ("client" if cc else "server"), "/".join(exp["no_common"])), field=exp["no_common"][0])

    # --- negotiated values are the expected ones (per endpoint that completed)
    for side, done in (("c", cc), ("s", sc)):
        if not done:
            continue
        if obs["suite_" + side] != exp["suite"]:
            return bad("mis-negotiated", "%s completed with cipher suite %s, expected the server's first choice the client offers: %s"
                       % (side, obs["suite_" + side], exp["suite"]), field="suite")
        if obs["alpn_" + side] != exp["alpn"]:
            return bad("mis-negotiated", "%s completed with ALPN %r, expected %r" % (side, obs["alpn_" + side], exp["alpn"]),
                       field="alpn")
    if cc and not obs["resumed_c"]:
        sa = obs["sigalg"]
        if sa is None or sa not in obs["eff"]["c_sigalgs"] or sa not in USABLE_SIGALGS[c["keytype"]]:
            return bad("mis-negotiated", "client completed a full handshake whose CertificateVerify algorithm %s is not one it "
                       "offered for a %s key" % (sa, c["keytype"]), field="sigalg")

    # --- agreement when both complete
    if cc and sc:
        for f in ("suite", "alpn", "resumed", "early"):
            if obs[f + "_c"] != obs[f + "_s"]:
                return bad("disagree", "both completed but %s differs: client %r server %r" % (f, obs[f + "_c"], obs[f + "_s"]), field=f)
        mc, ms = _secret_map(obs["secrets_c"]), _secret_map(obs["secrets_s"])
        pairs = [("HANDSHAKE", "E", "D"), ("HANDSHAKE", "D", "E"), ("ONE_RTT", "E", "D"), ("ONE_RTT", "D", "E")]
        if obs["early_s"]:
            pairs.append(("ZERO_RTT", "E", "D"))
        for ep, dc, ds in pairs:
            a, b = mc.get((dc, ep)), ms.get((ds, ep))
            if not a or not b:
                return bad("disagree", "both completed but the %s secret (client %s / server %s) was never installed on %s"
                           % (ep, dc, ds, "the client" if not a else "the server"), field="secret-missing", epoch=ep)
            if len(a) != 1 or len(b) != 1:
                return bad("disagree", "%s secret installed more than once" % ep, field="secret-reinstalled", epoch=ep)
            if a[0][1] != b[0][1]:
                return bad("disagree", "both completed but the %s secrets differ (client %s vs server %s)" % (ep, dc, ds),
                           field="secret", epoch=ep)
            if ep != "ZERO_RTT" and (a[0][0] != obs["suite_c"] or b[0][0] != obs["suite_s"]):
                return bad("disagree", "%s secret installed for another cipher suite than the negotiated one" % ep,
                           field="secret-suite", epoch=ep)
        if obs["ext_recv_c"] != obs["ext_sent_s"] or obs["ext_recv_s"] != obs["ext_sent_c"]:
            return bad("disagree", "both completed but the handshake extensions one side received are not what the other sent",
                       field="ext")
        if obs["resumed_c"]:
            if obs["ticket_suite"] != obs["suite_c"]:
                return bad("disagree", "resumed with cipher suite %s from a ticket issued for %s" % (obs["suite_c"], obs["ticket_suite"]),
                           field="resumed-suite")
        if obs["early_s"] and not obs["resumed_s"]:
            return bad("disagree", "early data accepted without resumption", field="early")

    # --- non-vacuity: honest, compatible configurations complete (and resume when they can)
    if not tam:
        quirk = exp["can_resume"] and c["reqcert"]     # see t_run notes: resumption + client-certificate request
        if not exp["no_common"] and exp["sig_ok"] and (exp["cert_ok"] or exp["can_resume"]) and not quirk:
            if not (cc and sc):
                why = obs.get("client_stop") or obs.get("server_stop")
                return bad("honest-failed", "compatible configurations, unaltered messages, acceptable identity, yet client_complete=%s "
                           "server_complete=%s (%s)" % (cc, sc, why), field="complete")
            if exp["can_resume"] and not obs["resumed_c"]:
                return bad("honest-failed", "a valid ticket for the agreed suite was offered to the server that issued it but the "
                           "handshake was not resumed", field="resumed")
    return None


# ------------------------------------------------------------------------------------------
# case generators

def _cfg(**kw):
    return {k: v for k, v in kw.items() if CFG_DEFAULTS.get(k, "__no__") != v}


ALPN2 = ["h3", "hq"]
TAMPER_CONFIGS = [
    ("A", _cfg(c_alpn=ALPN2, s_alpn=ALPN2)),
    ("B", _cfg(c_alpn=ALPN2, s_alpn=ALPN2, reqcert=True, client_cert=True)),
    ("C", _cfg(c_alpn=ALPN2, s_alpn=ALPN2, psk=1)),
    ("D", _cfg(c_alpn=ALPN2, s_alpn=ALPN2, psk=1, early=True)),
    ("E", _cfg(cert="ed25519", c_alpn=ALPN2, s_alpn=ALPN2)),
    ("F", _cfg(cert="rsa", c_alpn=ALPN2, s_alpn=ALPN2)),
    ("G", _cfg(c_alpn=ALPN2, s_alpn=ALPN2, reqcert=True)),
]
MASKS = (0x01, 0x80, 0xFF)
DRY = {}      # config name -> {"lengths": {"c2s/CH": n, ...}, "complete": bool}   (filled by t_tamper_cases)


def _dry_lengths(cfg):
    obs = t_handshake(cfg)
    out = []
    for direction, key in (("c2s", "sent_c"), ("s2c", "sent_s")):
        for h in obs.get(key, []):
            m = bytes.fromhex(h)
            n = len(m)
            if m[0] == CV and len(m) >= 6:
                # ECDSA signatures vary by 1-2 bytes from run to run: use the maximal length (positions beyond the
                # actual message are reported as "skipped" by t_handshake) so that the case list is deterministic
                n = max(n, {SA_ECDSA256: 80, SA_ECDSA384: 112}.get(int.from_bytes(m[4:6], "big"), n))
            if m[0] != NST:
                out.append((direction, m[0], n))
    return out, bool(obs.get("client_complete") and obs.get("server_complete"))


def t_tamper_cases(rng, tier):
    thorough = tier == "thorough"
    cases = []
    configs = list(TAMPER_CONFIGS)
    if thorough:      # one more: P-384 identity, SHA-256 suite, a single X25519 key share
        configs.append(("H", _cfg(cert="ec384", c_alpn=ALPN2, s_alpn=ALPN2, s_suites=[S1301], c_groups=[G_X25519])))
    for name, cfg in configs:
        msgs, complete = _dry_lengths(cfg)
        DRY[name] = {"lengths": {"%s/%s" % (d, HS_NAMES.get(t, t)): n for d, t, n in msgs}, "complete": complete}
        cases.append({"suite": "tls-tamper", "cfg": cfg, "tamper": None, "config": name})     # the honest run itself
        if name == "A":
            stride, all_masks = 1, thorough
        elif name == "F":
            stride, all_masks = (1 if thorough else 8), True
        else:
            stride, all_masks = (1 if thorough else 2), True
        for direction, t, n in msgs:
            # header bytes always, then every stride-th position (offset drawn once per message)
            off = rng.randrange(stride) if stride > 1 else 0
            positions = [p for p in range(n) if p < 6 or p >= n - 2 or (p - off) % stride == 0]
            for p in positions:
                masks = MASKS if all_masks else (rng.choice(MASKS),)
                for mk in masks:
                    cases.append({"suite": "tls-tamper", "cfg": cfg, "config": name,
                                  "tamper": {"dir": direction, "msg": t, "occ": 0, "pos": p, "mask": mk}})
    return cases


SUITE_LISTS = [None, [S1301], [S1302], [S1303], [S1301, S1302], [S1302, S1301], [S1301, S1303], [S1303, S1301],
               [S1302, S1303], [S1303, S1302]]
ALPN_PAIRS = [(None, None), (["a"], ["a"]), (["a", "b"], ["b", "a"]), (["a"], ["b"]), (None, ["a"]), (["a"], None),
              (["b", "a", "c"], ["c", "a"])]
SIGALG_LISTS = [None, [SA_ED25519], [SA_ECDSA256], [SA_PSS256], [SA_PKCS256], [SA_ECDSA384]]
VERSION_LISTS = [None, [TLS12], [TLS13, TLS12], [TLS13_D28]]
PSK_EARLY = [(0, False), (1, False), (1, True), (0, True)]
REQ_CC = [(False, False), (True, True), (True, False), (False, True)]


def _group_lists():
    lists = [None, [G_X25519], [G_P256], [G_P384]]
    try:
        from cryptography.hazmat.backends import default_backend
        if default_backend().x448_supported():
            lists.append([G_X448])
    except Exception:  # noqa: BLE001
        pass
    return lists


def _pick(rng, weighted):
    x = rng.random() * sum(w for w, _ in weighted)
    for w, v in weighted:
        x -= w
        if x < 0:
            return v
    return weighted[-1][1]


def t_matrix_cases(rng, tier, scale=1.0):
    groups = _group_lists()
    cfgs = []
    # (1) fixed corner cases, always included
    for cert in GOOD_KINDS:
        cfgs.append(_cfg(cert=cert))
        for sa in SIGALG_LISTS:
            cfgs.append(_cfg(cert=cert, c_sigalgs=sa))
        for rq, cl in REQ_CC:
            cfgs.append(_cfg(cert=cert, reqcert=rq, client_cert=cl))
        for psk, early in PSK_EARLY:
            cfgs.append(_cfg(cert=cert, psk=psk, early=early))
        for g in groups:
            cfgs.append(_cfg(cert=cert, c_groups=g))
    for cs in SUITE_LISTS:
        for ss in SUITE_LISTS:
            cfgs.append(_cfg(c_suites=cs, s_suites=ss))
    for ca, sa in ALPN_PAIRS:
        cfgs.append(_cfg(c_alpn=ca, s_alpn=sa))
        cfgs.append(_cfg(c_alpn=ca, s_alpn=sa, psk=1))
        cfgs.append(_cfg(c_alpn=ca, s_alpn=sa, cert="ed25519", reqcert=True, client_cert=True))
    for cv in VERSION_LISTS:
        cfgs.append(_cfg(c_versions=cv))
        cfgs.append(_cfg(c_versions=cv, psk=1, early=True))
    cfgs.append(_cfg(s_versions=[TLS12]))
    cfgs.append(_cfg(s_versions=[TLS13, TLS12], c_versions=[TLS12, TLS13]))
    for prime in ([S1301], [S1302], [S1303]):
        for ss in (None, [S1301], [S1302, S1301], [S1303, S1301], [S1301, S1302]):
            for cs in (None, [S1301], [S1303, S1302]):
                for early in (False, True):
                    cfgs.append(_cfg(psk=1, early=early, psk_prime_s_suites=prime, s_suites=ss, c_suites=cs))
    for sa in SIGALG_LISTS:
        cfgs.append(_cfg(psk=1, c_sigalgs=sa))
        cfgs.append(_cfg(psk=1, c_sigalgs=sa, psk_prime_s_suites=[S1303]))
    for rq, cl in REQ_CC:
        cfgs.append(_cfg(psk=1, reqcert=rq, client_cert=cl))
        cfgs.append(_cfg(psk=1, reqcert=rq, client_cert=cl, psk_prime_s_suites=[S1303]))
    cfgs.append(_cfg(psk=1, psk_store="other"))
    cfgs.append(_cfg(psk=1, psk_store="other", early=True))
    cfgs.append(_cfg(verify=False))
    cfgs.append(_cfg(ext="00"))
    cfgs.append(_cfg(ext="ab" * 300))
    # (2) sample of the full product (biased towards compatible values so that single incompatibilities show)
    n = int((7800 if tier == "thorough" else 650) * scale)
    for _ in range(n):
        psk, early = _pick(rng, list(zip((4, 3, 2, 1), PSK_EARLY)))
        rq, cl = _pick(rng, list(zip((6, 1.5, 1.5, 1), REQ_CC)))
        if rng.random() < 0.35:
            cs, ss = None, None
        else:
            cs, ss = rng.choice(SUITE_LISTS), rng.choice(SUITE_LISTS)
        ca, sa = rng.choice(ALPN_PAIRS + [(None, None)])
        prime = None
        if psk and rng.random() < 0.5:
            prime = [rng.choice((S1301, S1302, S1303))]
        cfgs.append(_cfg(
            cert=_pick(rng, [(4, "ec256"), (2, "ec384"), (2, "ed25519"), (2, "rsa")]),
            c_suites=cs, s_suites=ss, c_alpn=ca, s_alpn=sa, psk=psk, early=early, reqcert=rq, client_cert=cl,
            c_sigalgs=None if rng.random() < 0.6 else rng.choice(SIGALG_LISTS[1:]),
            c_groups=None if rng.random() < 0.5 else rng.choice(groups[1:]),
            c_versions=_pick(rng, list(zip((14, 2, 3, 1), VERSION_LISTS))),
            psk_prime_s_suites=prime, verify=rng.random() < 0.85,
            psk_store="same" if rng.random() < 0.9 else "other"))
    return [{"suite": "tls-matrix", "cfg": c} for c in cfgs]


def t_badcert_cases(rng, tier):
    cfgs = []
    suites = [None, [S1301], [S1303]] if tier != "thorough" else SUITE_LISTS
    for kt in ("ec256", "ed25519", "rsa"):
        cfgs.append(_cfg(cert=kt))                                    # positive control
        cfgs.append(_cfg(cert=kt, verify=False))
        for kind in BAD_KINDS:
            for verify in (True, False):
                for ss in suites:
                    cfgs.append(_cfg(cert=kind, keytype=kt, verify=verify, s_suites=ss))
                cfgs.append(_cfg(cert=kind, keytype=kt, verify=verify, c_alpn=["h3"], s_alpn=["h3"], reqcert=True, client_cert=True))
                # a ticket of the good server offered to a server with another ticket store and a bad certificate
                cfgs.append(_cfg(cert=kind, keytype=kt, verify=verify, psk=1, psk_store="other"))
                cfgs.append(_cfg(cert=kind, keytype=kt, verify=verify, psk=1, psk_store="other", early=True))
                # ... and ticket suite different from what is negotiated now (also a fallback to the full handshake)
                cfgs.append(_cfg(cert=kind, keytype=kt, verify=verify, psk=1, psk_prime_s_suites=[S1303], s_suites=[S1301]))
            # contrast: the same store knows the ticket -> resumption is legitimate whatever certificate is configured
            cfgs.append(_cfg(cert=kind, keytype=kt, psk=1))
    extra = 40 if tier == "thorough" else 10
    for _ in range(extra):
        cfgs.append(_cfg(cert=rng.choice(BAD_KINDS), keytype=rng.choice(("ec256", "ed25519", "rsa")), verify=rng.random() < 0.5,
                         c_sigalgs=rng.choice(SIGALG_LISTS), c_groups=rng.choice(_group_lists()),
                         psk=rng.choice((0, 1)), psk_store=rng.choice(("same", "other"))))
    return [{"suite": "tls-badcert", "cfg": c} for c in cfgs]


# ------------------------------------------------------------------------------------------
# running

def _reason(stop, complete):
    if complete:
        return "completed"
    if stop is None:
        return "no-progress"
    if stop.get("alert") is not None:
        return "alert_%d" % stop["alert"]
    return "exc_%s" % stop.get("exception")


def _strip(obs):
    o = {k: v for k, v in obs.items() if k not in ("received_c", "received_s", "sent_c", "sent_s")}
    o["stripped"] = True
    return o


def _run_suite(ctx, name, cases, keep, counter):
    t0 = time.time()
    st = {"cases": 0, "skipped": 0, "harness_errors": 0, "tampered_positions": {}, "stop_reasons": {}, "completed_both": 0,
          "completed_client_only": 0, "completed_none": 0, "no_common_option": 0, "expected_complete": 0, "resumed_both": 0,
          "early_accepted": 0, "liveness_exempt_resumption_with_reqcert": 0, "oracle_failures": 0, "failure_kinds": {},
          "reported": 0}
    seen = set()
    for case in cases:
        tam = case.get("tamper")
        obs = t_handshake(case["cfg"], tam)
        st["cases"] += 1
        if counter[0] < OBS_FULL_CAP:
            keep.append((case, obs))
        else:
            keep.append((case, _strip(obs)))
        counter[0] += 1
        if obs.get("skipped"):
            st["skipped"] += 1
            continue
        if obs.get("harness_error"):
            st["harness_errors"] += 1
        else:
            cc, sc = obs["client_complete"], obs["server_complete"]
            st["completed_both" if cc and sc else ("completed_client_only" if cc else "completed_none")] += 1
            st["resumed_both"] += int(cc and sc and obs["resumed_c"] and obs["resumed_s"])
            st["early_accepted"] += int(bool(obs["early_s"]))
            if tam:
                k = "%s/%s" % (tam["dir"], HS_NAMES.get(tam["msg"], tam["msg"]))
                st["tampered_positions"][k] = st["tampered_positions"].get(k, 0) + 1
                r = _reason(obs["client_stop"] if tam["dir"] == "s2c" else obs["server_stop"],
                            cc if tam["dir"] == "s2c" else sc)
            else:
                exp = _expect(_norm(case["cfg"]), obs)
                c = _norm(case["cfg"])
                if exp["no_common"]:
                    st["no_common_option"] += 1
                elif exp["can_resume"] and c["reqcert"]:
                    st["liveness_exempt_resumption_with_reqcert"] += 1
                elif exp["sig_ok"] and (exp["cert_ok"] or exp["can_resume"]):
                    st["expected_complete"] += 1
                if cc and sc:
                    r = "completed"
                else:
                    r = "c:%s s:%s" % (_reason(obs["client_stop"], cc), _reason(obs["server_stop"], sc))
            st["stop_reasons"][r] = st["stop_reasons"].get(r, 0) + 1
        res = t_oracle(case, obs)
        if res:
            what, sig = res
            st["oracle_failures"] += 1
            st["failure_kinds"][sig["kind"]] = st["failure_kinds"].get(sig["kind"], 0) + 1
            key = json.dumps(sig, sort_keys=True)
            if st["reported"] < 3 and key not in seen:
                seen.add(key)
                st["reported"] += 1
                ctx.violation("impl-violation", "%s: %s" % (name, what), case, signature=sig)
    st["wall_s"] = round(time.time() - t0, 2)
    return st


def t_run(ctx):
    """all three suites; returns measured statistics per suite and the kept (case, observation) pairs under "_obs".

    Note (behaviour of the tree, not a C03 violation, exempted from the completion expectation and counted as
    liveness_exempt_resumption_with_reqcert): a server with _request_client_certificate that RESUMES a session sends no
    CertificateRequest yet waits for a client Certificate, so the client completes and the server refuses its Finished."""
    t_env()
    tier = ctx.tier
    scale = float(getattr(ctx, "budget_scale", 1.0) or 1.0)
    seeds = [ctx.rng.getrandbits(64) for _ in range(3)]
    keep, counter = [], [0]
    out = {}
    t0 = time.time()
    cases = t_tamper_cases(random.Random(seeds[0]), tier)
    out["tls_tamper"] = _run_suite(ctx, "tls-tamper", cases, keep, counter)
    out["tls_tamper"]["configs"] = {k: dict(v) for k, v in DRY.items()}
    out["tls_tamper"]["gen_s"] = round(time.time() - t0 - out["tls_tamper"]["wall_s"], 2)
    out["tls_matrix"] = _run_suite(ctx, "tls-matrix", t_matrix_cases(random.Random(seeds[1]), tier, scale), keep, counter)
    out["tls_badcert"] = _run_suite(ctx, "tls-badcert", t_badcert_cases(random.Random(seeds[2]), tier), keep, counter)
    out["_obs"] = keep
    return out


def t_replay(ctx, case):
    t_env()
    obs = t_handshake(case.get("cfg"), case.get("tamper"))
    return {"case": case, "obs": obs, "oracle": t_oracle(case, obs)}
