"""C08  Loss-recovery and congestion accounting stay consistent.

Ties: (1) op-sequence correspondence of coq/model/{Recovery,Reno,Cubic,Pacer,RecoveryFloat}.v (PrimFloat
instance, evaluated by vm_compute) against the real QuicPacketRecovery with synthetic QuicSentPacket
objects and recording delivery handlers, for both congestion controllers; floats are compared
bit-exactly (IEEE bit patterns).  An independent Python oracle recomputes the ledger from
spaces[*].sent_packets after every op and checks at-most-once callbacks and the window floor.
(2) op-sequence correspondence of coq/model/Builder.v (C13's model, extracted) against the real QuicPacketBuilder on
flight-shaped histories, with the statement of flight_le_budget as implementation oracle (fl_gen / fl_oracle).
(3) system-level and builder-level implementation oracles for the flight budget (sim_run, bd_run)."""
import itertools
import json
import struct

from vlib import core, corr

DEPENDS = ["RecBase", "Reno", "Cubic", "Pacer", "Recovery", "RecoveryFloat", "C08Consts", "RecoveryProofs",
           "RenoProofs", "CubicProofs", "RangeSet", "Base", "Tok", "C08",
           "Builder", "C13Consts", "BuilderProofs", "BuilderFlight", "BuilderFlightAE", "FlightBudget", "FloatMono", "CubicFloor",
           "C08Probe", "ProbeBudget", "ProbeBudgetProofs", "ProbeFlight",
           "C13Writers", "Writers", "ProbeWriters", "ProbeQuiet", "ProbeWritersProofs", "ProbeBudgetExec"]
GENERATORS = ["c08_consts", "c13_consts", "c08_probe"]
TRUSTED_BASE = [
    "vm_compute evaluation of the PrimFloat instance (coqc, no extraction); Coq's primitive floats = IEEE binary64 "
    "round-to-nearest-even, the same arithmetic CPython uses",
    "correspondence harness harness/props/c08.py (+ harness/vlib/corr.py): decides what 'agree' means",
    "libm pow() for CUBIC ((t-K)**3 and x**(1/3)) is an oracle: values recorded from the running implementation by "
    "wrapping CubicCongestionControl.W_cubic / cubic.better_cube_root; the model checks tag and argument bit-exactly",
    "modelled, not verified: recovery.py, congestion/{base,reno,cubic}.py and packet_builder.py (sizes only, C13's "
    "coq/model/Builder.v) as Gallina functions; logging (quic_logger) is outside the model; handlers are assumed not to "
    "re-enter the recovery object",
    "tools/gen/c08_consts.py, tools/gen/c13_consts.py (read constants from the source into coq/gen/C08Consts.v, C13Consts.v)",
    "extraction of exec_builder (OCaml) for the builder model tie; the builder correspondence reuses C13's encoder and "
    "implementation driver (harness/props/c13.py: b_encode, b_impl, _b_apply, _mk_builder, _crypto)",
    "datagrams_to_send: the budget computation and the life of _probe_pending (set by the timeout, read by the budget, cleared by "
    "the frame writers) are modelled by coq/model/ProbeBudget.v as an interpreter of coq/gen/C08Probe.v, which "
    "tools/gen/c08_probe.py writes from the AST of connection.py / recovery.py (trusted: the generator's recognition of the "
    "statement shapes; it fails closed on anything it does not recognise); what is pending, what the packet builder and the "
    "pacer answer are decision inputs of that model; since round e08 the decisions of the 1-RTT packet loop are computed from "
    "C13's writer model on the builder model (coq/model/ProbeWriters.v abs_iter, per loop iteration) for the theorems "
    "prestop_characterised / one_probe_per_timeout_no_control_frames / f3_extra_datagrams_bounded, the handshake-level decisions and "
    "pacing stay arbitrary; the extracted machine (exec_probebudget; extraction with ExtrOcamlNativeString for the generated writer "
    "names) is compared op by op with real connections by the suite probebudget, whose projection wraps _write_handshake, "
    "_write_application, the frame writers and builder.start_packet as instance attributes and reads builder._packet.is_ack_eliciting, "
    "builder.max_flight_bytes, _state, _close_pending, _handshake_complete / _confirmed, _cryptos and - as the labelled peek the model "
    "must predict - _probe_pending; on_packet_sent for every packet "
    "and the frame writers' discipline as before (flight_budget composes the builder model with on_packet_sent under the stated "
    "discipline).  The connection level is explored by the system-level oracles (sim_run, probe_run: two real QuicConnections "
    "over a simulated network; read the private attributes _loss, _max_datagram_size and wrap _loss._send_probe / "
    "_loss.on_loss_detection_timeout to count the probe timeouts; _probe_pending is not consulted)",
    "cwnd_floor_cubic only: Flocq 4 (IEEE754.BinarySingleNaN, IEEE754.PrimFloat, Prop.Relative) and the standard library's "
    "specification of primitive floats and 63-bit integers, i.e. these named assumptions (Print Assumptions cwnd_floor_cubic): "
    "FloatAxioms.Prim2SF_valid, FloatAxioms.SF2Prim_Prim2SF, FloatAxioms.Prim2SF_SF2Prim, FloatAxioms.add_spec, "
    "FloatAxioms.mul_spec, FloatAxioms.div_spec, FloatAxioms.of_uint63_spec, FloatAxioms.ldshiftexp_spec; "
    "Uint63.add_spec, Uint63.sub_spec, Uint63.lsl_spec, Uint63.lsr_spec, Uint63.lor_spec, Uint63.eqb_correct, Uint63.eqb_refl, "
    "Uint63.leb_spec, Uint63.ltb_spec, Uint63.of_to_Z; and, through Coq's classical real numbers used by Flocq, "
    "ClassicalDedekindReals.sig_forall_dec, ClassicalDedekindReals.sig_not_dec, Classical_Prop.classic, "
    "FunctionalExtensionality.functional_extensionality_dep; plus the primitive float / int63 operations themselves "
    "(PrimFloat.*, PrimInt63.*).  Every other theorem of props/C08.v is closed under the global context (the PrimFloat "
    "instance theorem lists only the primitives)",
]
ASSUMPTIONS = [
    "fresh packet numbers: a (space, packet number) pair is passed to on_packet_sent at most once",
    "sent_bytes >= 0 and max_datagram_size > 0 (cwnd floor theorems); cwnd_floor_cubic: max_datagram_size < 2^52",
    "CUBIC floor (cwnd_floor_cubic, PrimFloat instance): premise cb_anom = false, i.e. no int() of an infinity / NaN occurred "
    "(Python would have raised OverflowError / ValueError out of the controller); the FloatAnomaly guard is no longer a premise. "
    "For an arbitrary interpretation of the float operations the guarded statement cwnd_floor_cubic_partial remains",
    "times are finite floats small enough that no int(inf/nan) or 2**pto_count overflow occurs (sticky anomaly flags "
    "in the model, compared with 0 on every op)",
    "flight budget theorems: max_flight_bytes is set (not the _close_pending round, which sets no budget); CID / token lengths "
    ">= 0; max_datagram_size <= the CryptoPair's 1500-byte limit or a CryptoPair without limit (crypto_fits); caller "
    "discipline of connection.py's frame writers (BuilderFlight.fl_disciplined): frames only inside an open packet with "
    "capacity >= the size of the frame type, bytes pushed only after a frame was started and never beyond "
    "remaining_buffer_space, ACK / CONNECTION_CLOSE frames before any in-flight frame of a packet, bytes pushed into a packet "
    "that is in flight fit remaining_flight_space, an ACK/CLOSE-only packet has at least 2 payload bytes; checked "
    "dynamically on the implementation (fl_oracle recomputes the discipline), not proved of connection.py",
    "one_probe_per_timeout: counts the datagrams_to_send calls whose budget was raised by the probe rule and that wrote an "
    "ack-eliciting frame; calls cut by QuicPacketBuilderStop at or ahead of the probe PING of a 1-RTT packet after an "
    "ack-eliciting frame was written are excluded (for them the statement is refuted: one_probe_per_timeout_refuted, finding "
    "C08-F3); grants = probe timeouts fired + at most one early retransmission (the one-shot reschedule_data() of the receive path)",
    "one_probe_per_timeout_no_control_frames: the 1-RTT decisions of every call are abs_iter of a writer-model input with no frame "
    "pending for a writer ahead of the probe PING (ACK included); prestop_characterised: the writer input's ai_ping_probe equals the "
    "flag (true) and nothing ack-eliciting was written earlier in the call; prestop_fills_packet / f3_extra_datagrams_bounded: fresh "
    "packet, the frame types handed to STREAMS_BLOCKED / MAX_DATA / MAX_STREAMS are in-flight types (ctl_fts_ok), at least R bytes of "
    "room when the packet starts",
    "flight_budget*: every packet type maps to an existing packet space (sp t < number of spaces); the budget is computed from "
    "congestion_window and bytes_in_flight as they are BEFORE the call (CUBIC may reset the window inside on_packet_sent)",
]

N_SPACES = 3


# ------------------------------------------------------------------------------------ floats
def fbits(x):
    if x != x:
        return 0x7FF8000000000000
    return struct.unpack("<Q", struct.pack("<d", x))[0]


def fh(x):
    return float(x).hex()


def ff(h):
    return float.fromhex(h)


def optf(x):
    return [0] if x is None else [1, fbits(x)]


def coqb(b):
    return "true" if b else "false"


# ------------------------------------------------------------------------------------ implementation run
class _Rig:
    """The real QuicPacketRecovery with three spaces, recording handlers and a probe counter."""

    def __init__(self, case, record_oracle=False):
        from aioquic.quic import recovery as R
        from aioquic.quic.congestion import cubic as CU
        self.R = R
        self.probes = 0
        self.events = []         # (space, pn, state) of the current op
        self.oracle = []         # (tag, arg, result) libm calls
        self._undo = []
        if record_oracle and case["cc"] == "cubic":
            self._wrap_cubic(CU)
        self.rec = R.QuicPacketRecovery(
            congestion_control_algorithm=case["cc"], initial_rtt=ff(case["irtt"]),
            max_datagram_size=case["mss"], peer_completed_address_validation=bool(case["pcav"]),
            send_probe=self._probe)
        self.spaces = [R.QuicPacketSpace() for _ in range(N_SPACES)]
        self.rec.spaces = list(self.spaces)

    def _probe(self):
        self.probes += 1

    def _wrap_cubic(self, CU):
        rig = self
        orig_root = CU.better_cube_root
        orig_w = CU.CubicCongestionControl.W_cubic

        def root(x):
            y = -x if x < 0 else x
            rig.oracle.append((0, y, y ** (1.0 / 3.0)))
            return orig_root(x)

        def w_cubic(self, t):
            x = t - self.K
            rig.oracle.append((1, x, x ** 3))
            return orig_w(self, t)

        CU.better_cube_root = root
        CU.CubicCongestionControl.W_cubic = w_cubic
        self._undo.append(lambda: (setattr(CU, "better_cube_root", orig_root),
                                   setattr(CU.CubicCongestionControl, "W_cubic", orig_w)))

    def close(self):
        for u in self._undo:
            u()
        self._undo = []

    def _handler(self, sp, pn):
        def h(state, *args):
            self.events.append((sp, pn, state.value))
        return h

    def apply(self, op):
        """Run one op; returns (status, result) where result is the float returned by next_send_time."""
        from aioquic.quic.packet_builder import QuicSentPacket
        from aioquic.quic.packet import QuicPacketType
        from aioquic.quic.rangeset import RangeSet
        from aioquic import tls
        self.events = []
        k = op[0]
        rec = self.rec
        if k == "send":
            _, sp, pn, inf, ae, cr, tm, nbytes = op
            p = QuicSentPacket(epoch=tls.Epoch.ONE_RTT, in_flight=bool(inf), is_ack_eliciting=bool(ae),
                               is_crypto_packet=bool(cr), packet_number=pn, packet_type=QuicPacketType.ONE_RTT,
                               sent_time=ff(tm), sent_bytes=nbytes)
            p.delivery_handlers.append((self._handler(sp, pn), ()))
            rec.on_packet_sent(packet=p, space=self.spaces[sp])
        elif k == "ack":
            _, sp, ranges, delay, now = op
            rs = RangeSet()
            for a, b in ranges:
                rs.add(a, b)
            try:
                rec.on_ack_received(ack_rangeset=rs, ack_delay=ff(delay), now=ff(now), space=self.spaces[sp])
            except IndexError:
                if len(rs) == 0:
                    return 1, None
                raise
        elif k == "timeout":
            rec.on_loss_detection_timeout(now=ff(op[1]))
        elif k == "discard":
            rec.discard_space(self.spaces[op[1]])
        elif k == "resched":
            rec.reschedule_data(now=ff(op[1]))
        elif k == "pcav":
            rec.peer_completed_address_validation = bool(op[1])
        elif k == "mad":
            rec.max_ack_delay = ff(op[1])
        elif k == "nextsend":
            return 0, ("r", rec._pacer.next_send_time(now=ff(op[1])))
        elif k == "aftersend":
            rec._pacer.update_after_send(now=ff(op[1]))
        else:
            raise ValueError(k)
        return 0, None

    def observe(self):
        rec = self.rec
        cc = rec._cc
        out = [0, 0, rec.bytes_in_flight, rec.congestion_window]
        out += [0] if cc.ssthresh is None else [1, cc.ssthresh]
        for s in self.spaces:
            ks = list(s.sent_packets.keys())
            out += [len(ks)] + ks + [s.ack_eliciting_in_flight] + optf(s.loss_time)
        out += optf(rec.get_loss_detection_time())
        out += [fbits(rec.get_probe_timeout()), self.probes]
        out += optf(rec._pacer.packet_time) + [fbits(rec._pacer.bucket_max)]
        return out


def _key(case):
    return json.dumps(case, sort_keys=True)


_ORACLE_CACHE = {}


def rc_impl(case):
    rig = _Rig(case, record_oracle=True)
    out = []
    try:
        for op in case["ops"]:
            try:
                status, res = rig.apply(op)
            except Exception as e:   # any exception escaping the public recovery API
                out += [99, sum(type(e).__name__.encode())]
                break
            out += [status] + rig.observe()
            out += [len(rig.events)]
            for sp, pn, st in rig.events:
                out += [sp, pn, st]
            out += optf(res[1]) if res else [0]
    finally:
        rig.close()
    if len(_ORACLE_CACHE) > 60000:
        _ORACLE_CACHE.clear()
        _IMPL_CACHE.clear()
    _ORACLE_CACHE[_key(case)] = list(rig.oracle)
    _IMPL_CACHE[_key(case)] = list(out)
    return out


def coqf(h):
    return "(%s)" % h if h.startswith("-") else h


def coq_op(op):
    k = op[0]
    if k == "send":
        _, sp, pn, inf, ae, cr, tm, nbytes = op
        return "fSend %d %d %s %s %s %s %d" % (sp, pn, coqb(inf), coqb(ae), coqb(cr), coqf(tm), nbytes)
    if k == "ack":
        _, sp, ranges, delay, now = op
        rs = "; ".join("(%d, %d)" % (a, b) for a, b in ranges)
        return "fAck %d [%s] %s %s" % (sp, rs, coqf(delay), coqf(now))
    if k == "timeout":
        return "fTimeout %s" % coqf(op[1])
    if k == "discard":
        return "fDiscard %d" % op[1]
    if k == "resched":
        return "fResched %s" % coqf(op[1])
    if k == "pcav":
        return "fPcav %s" % coqb(op[1])
    if k == "mad":
        return "fMad %s" % coqf(op[1])
    if k == "nextsend":
        return "fNextSend %s" % coqf(op[1])
    if k == "aftersend":
        return "fAfterSend %s" % coqf(op[1])
    raise ValueError(k)


def rc_encode(case):
    """The model input is a Gallina expression (evaluated by vm_compute), returned as [expr, cache key]."""
    ops = "[" + "; ".join(coq_op(o) for o in case["ops"]) + "]"
    head = "%d %s %s" % (case["mss"], coqf(case["irtt"]), coqb(case["pcav"]))
    key = _key(case)
    if case["cc"] == "reno":
        return ["run_reno %s %s" % (head, ops), key]
    if key not in _ORACLE_CACHE:
        rc_impl(case)
    orc = "[" + "; ".join("fOr %d %s %s" % (t, coqf(fh(a)), coqf(fh(r))) for t, a, r in _ORACLE_CACHE[key]) + "]"
    return ["run_cubic %s %s %s" % (head, orc, ops), key]


PREAMBLE = ("From Coq Require Import PrimFloat Uint63.\n"
            "From AQ Require Import lib.Base model.RecBase model.Recovery model.RecoveryFloat.\n")


_M63 = (1 << 63) - 1


def digest(tokens):
    """Same function as RecoveryFloat.digest (Uint63 arithmetic wraps modulo 2**63)."""
    h = 0
    for z in tokens:
        a = abs(z)
        h = (h * 1000003 + (a & ((1 << 62) - 1))) & _M63
        h = (h * 1000003 + (a >> 62)) & _M63
        if z < 0:
            h = (h * 1000003 + 7) & _M63
    return [len(tokens), h]


_IMPL_CACHE = {}


def vm_runner(name, encs, shards=None):
    """Evaluate the model on every case.  First pass: only the digest of the model's token list is
    printed; where it equals the digest of the implementation's tokens the two lists are equal (up to a
    2^-63 collision) and the implementation's list is returned as the model's.  Second pass (mismatch
    or no cached implementation output): the model's full token list is printed."""
    res = [None] * len(encs)
    dig = core.run_vm(PREAMBLE, ["digest (%s)" % e[0] for e in encs])
    redo = []
    for i, (e, d) in enumerate(zip(encs, dig)):
        exp = _IMPL_CACHE.get(e[1]) if len(e) > 1 else None
        if exp is not None and exp and exp[0] != "IMPL-DRIVER-EXCEPTION" and digest(exp) == d:
            res[i] = list(exp)
        else:
            redo.append(i)
    if redo:
        full = core.run_vm(PREAMBLE, [encs[i][0] for i in redo])
        for i, f in zip(redo, full):
            res[i] = f
    return res


class VmSuite(corr.Suite):
    """corr.Suite runs models through the extracted driver; float models run in vm_compute.  The shared
    Suite has no hook for that, so the runner is swapped while this suite runs (see NEEDS in docs/C08.md)."""

    def _swap(self):
        orig = corr.core.run_model
        corr.core.run_model = vm_runner
        return orig

    def run(self, cases, label=""):
        _ORACLE_CACHE.clear()
        _IMPL_CACHE.clear()
        orig = self._swap()
        try:
            return super().run(cases, label)
        finally:
            corr.core.run_model = orig

    def disagree(self, case):
        orig = self._swap()
        try:
            return super().disagree(case)
        finally:
            corr.core.run_model = orig

    _slow_shrinks = 0

    def shrink(self, case, pred, max_steps=400):
        """Oracle-driven shrinking is cheap (pure Python) and uses the shared algorithm.  Shrinking a
        model/implementation disagreement needs a coqc run per evaluation, so candidates are evaluated
        in batches (one vm_compute file per round) and only the first disagreement of a run is shrunk."""
        if "disagree" not in pred.__code__.co_names:
            return super().shrink(case, pred, max_steps=max_steps)
        VmSuite._slow_shrinks += 1
        if VmSuite._slow_shrinks > 1:
            return case
        ops = list(case["ops"])
        size = max(1, len(ops) // 2)
        rounds = 0
        while size >= 1 and rounds < 10 and len(ops) > 1:
            rounds += 1
            cands = []
            for i in range(0, len(ops), size):
                c = ops[:i] + ops[i + size:]
                if c:
                    cands.append(_rebuild(case, c))
            bad = batch_disagree(cands)
            hit = next((c for c, b in zip(cands, bad) if b), None)
            if hit is not None:
                ops = hit["ops"]
                size = min(size, max(1, len(ops) // 2))
            elif size == 1:
                break
            else:
                size //= 2
        return _rebuild(case, ops)


def batch_disagree(cases):
    """One vm_compute pass: does the model's digest differ from the implementation's, per case."""
    exps = []
    for c in cases:
        try:
            exps.append(rc_impl(c))
        except Exception:
            exps.append(None)
    digs = core.run_vm(PREAMBLE, ["digest (%s)" % rc_encode(c)[0] for c in cases])
    return [e is None or digest(e) != d for e, d in zip(exps, digs)]


# ------------------------------------------------------------------------------------ implementation oracle
def rc_oracle(case):
    """The property statement coded directly over the implementation (independent of the model):
    after every op the ledger is recomputed from spaces[*].sent_packets; each sent packet is reported at
    most once, only after being sent, and is untracked afterwards; the window never drops below
    2 datagrams (both controllers).  Histories that reuse a packet number are outside the property."""
    rig = _Rig(case)
    mss = case["mss"]
    sent = set()
    reported = {}
    try:
        for i, op in enumerate(case["ops"]):
            if op[0] == "send":
                if (op[1], op[2]) in sent:
                    return None     # not a fresh packet number: outside the quantifier
                if op[7] < 0:
                    return None
            try:
                status, _ = rig.apply(op)
            except Exception as e:
                return ("recovery API raised %s at op %d (%s)" % (type(e).__name__, i, op[0]),
                        {"rule": "raise", "exception": type(e).__name__, "op": op[0]})
            if op[0] == "send":
                sent.add((op[1], op[2]))
            if status == 1:
                continue
            rec = rig.rec
            tracked = 0
            for si, s in enumerate(rig.spaces):
                cnt = 0
                for pn, p in s.sent_packets.items():
                    if p.in_flight:
                        tracked += p.sent_bytes
                    if p.is_ack_eliciting:
                        cnt += 1
                    if (si, pn) not in sent:
                        return ("untracked packet appeared in sent_packets at op %d" % i, {"rule": "tracked"})
                if cnt != s.ack_eliciting_in_flight:
                    return ("ack_eliciting_in_flight=%d but %d ack-eliciting packets are tracked in space %d after op %d (%s)"
                            % (s.ack_eliciting_in_flight, cnt, si, i, op[0]), {"rule": "aeif", "op": op[0]})
            if rec.bytes_in_flight != tracked or rec.bytes_in_flight < 0:
                return ("bytes_in_flight=%d but tracked in-flight bytes=%d after op %d (%s)"
                        % (rec.bytes_in_flight, tracked, i, op[0]), {"rule": "ledger", "op": op[0]})
            if rec.congestion_window < 2 * mss:
                return ("congestion_window=%d below two datagrams (%d) after op %d (%s), cc=%s"
                        % (rec.congestion_window, 2 * mss, i, op[0], case["cc"]),
                        {"rule": "cwnd_floor", "cc": case["cc"], "op": op[0]})
            for sp, pn, st in rig.events:
                if (sp, pn) not in sent:
                    return ("delivery handler invoked for never-sent packet %d/%d at op %d" % (sp, pn, i),
                            {"rule": "callback_unsent"})
                if (sp, pn) in reported:
                    return ("delivery handlers of packet %d/%d invoked twice (op %d and op %d)" % (sp, pn, reported[(sp, pn)], i),
                            {"rule": "callback_twice", "op": op[0]})
                reported[(sp, pn)] = i
                if op[0] in ("send", "discard", "pcav", "mad", "nextsend", "aftersend"):
                    return ("delivery handler invoked by %s at op %d" % (op[0], i), {"rule": "callback_source"})
                if op[0] == "ack" and sp != op[1]:
                    return ("ack in space %d reported packet of space %d" % (op[1], sp), {"rule": "callback_space"})
                if op[0] == "ack" and st == 0 and not any(a <= pn < b for a, b in op[2]):
                    return ("packet %d/%d reported ACKED but not in the acknowledged ranges (op %d)" % (sp, pn, i),
                            {"rule": "callback_range"})
            for (sp, pn) in reported:
                if pn in rig.spaces[sp].sent_packets:
                    return ("packet %d/%d still tracked after its handlers were invoked (op %d)" % (sp, pn, i),
                            {"rule": "tracked_after_report"})
    finally:
        rig.close()
    return None


# ------------------------------------------------------------------------------------ generators
DELTAS = [0.0, 0.0, 0.0, 1e-6, 0.0005, 0.001, 0.004, 0.0123, 0.03, 0.05, 0.1, 0.25, 0.9, 1.0, 2.5]
FLAGS = [(1, 1, 0)] * 6 + [(1, 1, 1)] * 3 + [(1, 0, 0), (0, 0, 0), (0, 1, 0), (0, 0, 1), (1, 0, 1)]
SIZES = [1200, 1200, 1200, 1252, 50, 31, 1, 0, 600, 1452]


def _mk_ranges(rng, outstanding, ever, next_pn):
    """An ack range set: subsets of outstanding packets, already-acked/lost ones, never-sent numbers."""
    ranges = []
    style = rng.random()
    pool = sorted(outstanding)
    if style < 0.35 and pool:            # contiguous prefix/suffix/all
        a = rng.choice(pool)
        b = rng.choice(pool)
        lo, hi = min(a, b), max(a, b)
        ranges.append([lo, hi + 1])
    elif style < 0.7 and pool:           # random subset -> gaps
        for pn in pool:
            if rng.random() < 0.5:
                ranges.append([pn, pn + 1])
        if not ranges:
            ranges.append([pool[-1], pool[-1] + 1])
    elif style < 0.8 and ever:           # only old numbers (already acked / lost / discarded)
        pn = rng.choice(sorted(ever))
        ranges.append([pn, pn + rng.randint(1, 3)])
    elif style < 0.9:                    # never-sent numbers
        a = next_pn + rng.randint(0, 6)
        ranges.append([a, a + rng.randint(1, 4)])
        if pool and rng.random() < 0.5:
            ranges.append([pool[0], pool[0] + 1])
    else:                                # everything and more
        ranges.append([0, max(1, next_pn + rng.randint(0, 3))])
    if rng.random() < 0.15 and ranges:
        ranges.append(list(rng.choice(ranges)))         # repeated range
    if rng.random() < 0.1:
        a = rng.randint(0, next_pn + 2)
        ranges.append([a, a + rng.randint(1, 5)])
    rng.shuffle(ranges)
    return ranges


def gen_history(rng, cc, nmin=5, nmax=60, style=None):
    case = {"cc": cc, "mss": rng.choice([1200, 1200, 1280, 1452]),
            "irtt": fh(rng.choice([0.1, 0.1, 0.333, 0.02, 1.0])), "pcav": int(rng.random() < 0.6), "ops": []}
    rig = _Rig(case)
    try:
        now = rng.choice([0.0, 0.0, 1.0, 1000.125, 17.3])
        next_pn = [0] * N_SPACES
        outstanding = [set() for _ in range(N_SPACES)]
        ever = [set() for _ in range(N_SPACES)]
        style = style or rng.choice(["mixed", "mixed", "mixed", "bulk", "bulk", "handshake", "steady"])
        n = rng.randint(nmin, nmax)
        w = {"mixed": (0.45, 0.30, 0.10, 0.03, 0.03), "bulk": (0.55, 0.35, 0.06, 0.0, 0.01),
             "handshake": (0.40, 0.25, 0.15, 0.08, 0.06), "steady": (0.50, 0.45, 0.03, 0.0, 0.0)}[style]
        scale = rng.choice([1.0, 1.0, 0.1, 3.0])
        while len(case["ops"]) < n:
            now = now + rng.choice(DELTAS) * scale
            r = rng.random()
            op = None
            if style == "bulk":
                sp = 2
            elif style == "steady":
                sp = 0
            else:
                sp = rng.choice([0, 0, 1, 1, 2, 2, 2])
            if r < w[0]:
                burst = rng.choice([1, 1, 1, 2, 3, 5]) if style != "steady" else 1
                for _ in range(burst):
                    if rng.random() < 0.03 and next_pn[sp] > 2 and style == "mixed":
                        # fresh but out of order (never happens in the connection; exercises insertion order)
                        cand = [x for x in range(next_pn[sp] + 5) if x not in ever[sp]]
                        pn = rng.choice(cand)
                    else:
                        pn = next_pn[sp] + (rng.choice([0, 0, 0, 0, 1, 2]) if style != "steady" else 0)
                    next_pn[sp] = max(next_pn[sp], pn + 1)
                    inf, ae, cr = rng.choice(FLAGS) if style != "steady" else (1, 1, 0)
                    if style == "handshake" and rng.random() < 0.5:
                        cr = 1
                    op = ["send", sp, pn, inf, ae, cr, fh(now), rng.choice(SIZES) if style != "steady" else case["mss"]]
                    ever[sp].add(pn)
                    outstanding[sp].add(pn)
                    case["ops"].append(op)
                    try:
                        rig.apply(op)
                    except Exception:      # a raising implementation: keep the history, the oracle reports it
                        return case
                continue
            elif r < w[0] + w[1]:
                if style == "steady" and outstanding[sp]:
                    pn = min(outstanding[sp])
                    ranges = [[pn, pn + 1]] if rng.random() < 0.85 else [[pn + 1, pn + 2]]
                else:
                    ranges = _mk_ranges(rng, outstanding[sp], ever[sp], next_pn[sp])
                if rng.random() < 0.01:
                    ranges = []
                op = ["ack", sp, ranges, fh(rng.choice([0.0, 0.0, 0.001, 0.008, 0.025, 0.1])), fh(now)]
            elif r < w[0] + w[1] + w[2]:
                ldt = rig.rec.get_loss_detection_time()
                if ldt is not None:
                    m = rng.random()
                    if m < 0.45:
                        now = max(now, ldt)
                        t = ldt
                    elif m < 0.8:
                        t = max(now, ldt) + rng.choice([0.0, 1e-9, 0.001, 0.05, 1.0])
                        now = t
                    else:
                        t = now       # spurious / early firing
                else:
                    t = now
                op = ["timeout", fh(t)]
            elif r < w[0] + w[1] + w[2] + w[3]:
                op = ["discard", sp]
            elif r < w[0] + w[1] + w[2] + w[3] + w[4]:
                op = ["resched", fh(now)]
            else:
                m = rng.random()
                if m < 0.25:
                    op = ["pcav", int(rng.random() < 0.7)]
                elif m < 0.45:
                    op = ["mad", fh(rng.choice([0.025, 0.0, 0.001, 0.1, 0.016]))]
                elif m < 0.75:
                    op = ["nextsend", fh(now)]
                else:
                    op = ["aftersend", fh(now)]
            case["ops"].append(op)
            try:
                rig.apply(op)
            except Exception:
                return case
            for s in range(N_SPACES):
                outstanding[s] = set(rig.spaces[s].sent_packets.keys())
    finally:
        rig.close()
    return case


def gen_cases(rng, n):
    out = []
    for i in range(n):
        cc = "reno" if i % 2 == 0 else "cubic"
        out.append(gen_history(rng, cc))
    return out


def gen_long_ca(rng, n):
    """Long single-space histories that reach congestion avoidance (loss, then many acks), HyStart exits and CUBIC idle resets."""
    out = []
    for i in range(n):
        cc = "cubic" if i % 3 else "reno"
        out.append(gen_history(rng, cc, nmin=60, nmax=140, style=rng.choice(["bulk", "steady"])))
    return out


def exhaustive(npk, ccs=("reno", "cubic"), quick=False):
    """Small scope: npk packets sent in one space (flag combinations by position), then every ack subset
    (as a range set) with every placement of a timer firing / discard / second ack."""
    flagsets = [(1, 1, 0), (1, 0, 0), (0, 0, 0), (1, 1, 1)]
    for cc in ccs:
        for fl in itertools.product(flagsets[:2] if (npk > 3 or quick) else flagsets[:3], repeat=npk):
            for mask in range(1, 1 << npk):
                ranges = [[i, i + 1] for i in range(npk) if mask >> i & 1]
                for tail in ("none", "timer", "discard", "ack_all", "timer_ack", "never"):
                    ops = []
                    t = 1.0
                    for i in range(npk):
                        ops.append(["send", 0, i, fl[i][0], fl[i][1], fl[i][2], fh(t), 1000 + i])
                        t += 0.01
                    ops.append(["ack", 0, ranges, fh(0.0), fh(t + 0.05)])
                    if tail == "timer":
                        ops.append(["timeout", fh(t + 0.2)])
                    elif tail == "discard":
                        ops.append(["discard", 0])
                    elif tail == "ack_all":
                        ops.append(["ack", 0, [[0, npk]], fh(0.0), fh(t + 0.06)])
                    elif tail == "timer_ack":
                        ops.append(["timeout", fh(t + 0.2)])
                        ops.append(["ack", 0, [[0, npk + 2]], fh(0.001), fh(t + 0.3)])
                        ops.append(["timeout", fh(t + 5.0)])
                    elif tail == "never":
                        ops.append(["ack", 0, [[npk + 3, npk + 5]], fh(0.0), fh(t + 0.06)])
                        ops.append(["timeout", fh(t + 0.2)])
                    yield {"cc": cc, "mss": 1200, "irtt": fh(0.1), "pcav": 1, "ops": ops}


# ------------------------------------------------------------------------------------ builder sessions of real connections
BUILDER_SESSIONS = []     # one {"cfg":..., "ops":...} (C13's builder case format) per datagrams_to_send call of the simulated runs


class _Recording:
    """While active, QuicConnection builds its datagrams with a subclass of QuicPacketBuilder that records the calls made
    by connection.py's frame writers as a builder op history: start_packet / start_frame / flush as they are called, and
    the bytes the writers pushed into the buffer between two calls (difference of buffer positions) as one push op.
    The recorded sessions are (a) checked against the caller discipline that flight_le_budget assumes and (b) replayed
    through the builder model tie."""

    def __enter__(self):
        import aioquic.quic.connection as conn
        base = conn.QuicPacketBuilder
        self._conn, self._base = conn, base

        class RecBuilder(base):
            def __init__(self, **kw):
                super().__init__(**kw)
                self._rec_cfg = {"client": int(kw["is_client"]), "mds": kw["max_datagram_size"], "peer": len(kw["peer_cid"]),
                                 "host": len(kw["host_cid"]), "token": len(kw.get("peer_token", b"")), "pn": kw.get("packet_number", 0)}
                self._rec_ops = []
                self._rec_last = 0

            def _rec_sync(self):
                n = self._buffer.tell() - self._rec_last
                if n:
                    self._rec_ops.append(["push", n])

            def start_packet(self, packet_type, crypto):
                self._rec_sync()
                self._rec_ops.append(["sp", packet_type.value])
                try:
                    return super().start_packet(packet_type, crypto)
                finally:
                    self._rec_last = self._buffer.tell()

            def start_frame(self, frame_type, capacity=1, handler=None, handler_args=[]):
                self._rec_sync()
                self._rec_ops.append(["sf", int(frame_type), capacity])
                try:
                    return super().start_frame(frame_type, capacity, handler, handler_args)
                finally:
                    self._rec_last = self._buffer.tell()

            def flush(self):
                self._rec_sync()
                self._rec_ops.append(["flush"])
                try:
                    return super().flush()
                finally:
                    self._rec_last = self._buffer.tell()
                    if len(self._rec_ops) > 1:
                        BUILDER_SESSIONS.append({"cfg": dict(self._rec_cfg, mf=self.max_flight_bytes, mt=self.max_total_bytes),
                                                 "ops": self._rec_ops})
        conn.QuicPacketBuilder = RecBuilder
        return self

    def __exit__(self, *a):
        self._conn.QuicPacketBuilder = self._base



# ------------------------------------------------------------------------------------ op-by-op tie of model/ProbeBudget.v
PB_HISTORIES = []          # one {"origin":..., "ops": [...]} per watched endpoint (suite `probebudget`)
PB_ORIGIN = [None]         # replay parameters of the run that is being recorded
_PB_WR = {"none": 0, "written": 1, "stop": 2, "stop_wrote": 3}


def _pb_writer_names():
    """names of the frame writers ahead of / after the probe PING in _write_application, from the generated gen/C08Probe.v"""
    import os
    import re
    out = {"before": [], "after": []}
    try:
        txt = open(os.path.join(core.VERIF, "coq", "gen", "C08Probe.v")).read()
        for k in out:
            m = re.search(r"Definition app_writers_%s : list string := \[(.*?)\]\." % k, txt)
            out[k] = re.findall(r'"(\w+)"%string', m.group(1)) if m else []
    except OSError:
        pass
    return out


class _PBProject:
    """Projects what one QuicConnection does onto the ops of model/ProbeBudget.v (ETimeout / EEarly / ECall with decisions).

    The decisions of a datagrams_to_send call are OBSERVED by wrapping (instance attributes) _write_handshake,
    _write_application, every frame writer they call, and builder.start_packet of the builder they are handed: per packet-loop
    iteration whether start_packet returned, whether the writers ahead of / after the probe PING returned or raised
    QuicPacketBuilderStop and whether the open packet was ack-eliciting then (private read builder._packet.is_ack_eliciting),
    whether the probe PING's writer returned.  After every op the expected model output is recorded: for a call
    (budget raised = builder.max_flight_bytes differs from congestion_window - bytes_in_flight when the first writer runs,
    an ack-eliciting packet was registered, LABELLED PEEK int(conn._probe_pending)); for a timeout / early retransmission
    the labelled peek only."""

    def __init__(self, conn, origin):
        self.conn = conn
        self.hist = {"origin": origin, "ops": []}
        PB_HISTORIES.append(self.hist)
        self.ev = None
        names = _pb_writer_names()
        self.before, self.after = set(names["before"]), set(names["after"])
        self.ok = bool(self.before and self.after)
        for nm in sorted(self.before | self.after | {"_write_ack_frame", "_write_crypto_frame", "_write_ping_frame"}):
            if hasattr(conn, nm):
                self._wrap_writer(nm)
        self._wrap_loop("_write_handshake")
        self._wrap_loop("_write_application")

    # -- wrappers ---------------------------------------------------------------------
    @staticmethod
    def _ae(builder):
        pk = getattr(builder, "_packet", None)
        return bool(pk is not None and pk.is_ack_eliciting)

    def _wrap_writer(self, nm):
        from aioquic.quic.packet_builder import QuicPacketBuilderStop
        orig = getattr(self.conn, nm)

        def w(*a, **kw):
            if self.ev is None:
                return orig(*a, **kw)
            builder = kw.get("builder", a[0] if a else None)
            e = {"k": "w", "name": nm, "probe": kw.get("comment") == "probe", "out": "ok", "ret": None, "ae": False}
            self.ev.append(e)
            try:
                e["ret"] = orig(*a, **kw)
                return e["ret"]
            except QuicPacketBuilderStop:
                e["out"] = "stop"
                raise
            finally:
                e["ae"] = self._ae(builder)
        setattr(self.conn, nm, w)

    def _wrap_loop(self, nm):
        from aioquic.quic.packet_builder import QuicPacketBuilderStop
        orig = getattr(self.conn, nm)

        def w(builder, *a, **kw):
            if self.ev is None:
                return orig(builder, *a, **kw)
            if self.first_mf is None:
                self.first_mf = (builder.max_flight_bytes,)
            sp = builder.start_packet

            def start_packet(*pa, **pk):
                e = {"k": "sp", "ok": True}
                self.ev.append(e)
                try:
                    return sp(*pa, **pk)
                except QuicPacketBuilderStop:
                    e["ok"] = False
                    raise
            builder.start_packet = start_packet
            e = {"k": "loop", "name": nm, "epoch": getattr(a[0] if a else kw.get("epoch"), "value", -1) if nm == "_write_handshake" else -1, "stop": False}
            self.ev.append(e)
            try:
                return orig(builder, *a, **kw)
            except QuicPacketBuilderStop:
                e["stop"] = True
                raise
            finally:
                self.ev.append({"k": "end"})
                del builder.start_packet
        setattr(self.conn, nm, w)

    # -- ops ---------------------------------------------------------------------------
    def timeout(self, pto):
        self.hist["ops"].append({"op": [0, int(pto)], "exp": [int(self.conn._probe_pending)]})

    def early(self):
        self.hist["ops"].append({"op": [1], "exp": [int(self.conn._probe_pending)]})

    def begin_call(self):
        from aioquic.quic.connection import END_STATES
        from aioquic import tls
        conn, rec = self.conn, self.conn._loss
        cr = getattr(conn, "_cryptos", {})
        hk = tls.Epoch.HANDSHAKE in cr and cr[tls.Epoch.HANDSHAKE].send.is_valid()
        self.pre = {"skip": int(conn._state in END_STATES or not conn._network_paths), "close": int(conn._close_pending),
                    "low": int(rec.congestion_window - rec.bytes_in_flight < conn._max_datagram_size),
                    "hc": int(conn._handshake_complete), "hk": int(hk), "cf": int(conn._handshake_confirmed),
                    "base": rec.congestion_window - rec.bytes_in_flight, "pp": int(conn._probe_pending)}
        self.ev, self.first_mf = [], None

    def end_call(self, new_packets):
        ev, self.ev = self.ev, None
        pre = self.pre
        loops, cur = [], None
        for e in ev:
            if e["k"] == "loop":
                cur = {"name": e["name"], "epoch": e["epoch"], "stop": e, "its": []}
                loops.append(cur)
            elif e["k"] == "end":
                cur = None
            elif cur is not None:
                if e["k"] == "sp":
                    cur["its"].append({"start": e["ok"], "w": []})
                elif cur["its"]:
                    cur["its"][-1]["w"].append(e)
        enc = {"initial": [0], "handshake": [0], "app": [0]}
        gaps = 0
        nstop = {"before": 0, "probe": 0}
        for lp in loops:
            raised_stop = lp["stop"]["stop"]
            toks = []
            for k, it in enumerate(lp["its"]):
                last = k == len(lp["its"]) - 1
                halted = last and raised_stop
                ws = it["w"]
                if lp["name"] == "_write_handshake":
                    ack = cry = 0
                    ping_ok = 1
                    for e in ws:
                        if e["name"] == "_write_ack_frame":
                            ack = 2 if e["out"] == "stop" else 0
                            gaps += int(e["ae"])              # ACK-of-ACK PING in a handshake packet: not in the model
                        elif e["name"] == "_write_crypto_frame":
                            cry = 2 if e["out"] == "stop" else (1 if e["ret"] else 0)
                        elif e["name"] == "_write_ping_frame" and e["probe"]:
                            ping_ok = int(e["out"] == "ok")
                    toks += [int(it["start"]), ack, cry, ping_ok, int(last and not halted)]
                else:
                    bef = [e for e in ws if e["name"] in self.before and not e["probe"]]
                    aft = [e for e in ws if e["name"] in self.after]
                    stopped_in = None
                    if halted and it["start"] and ws and ws[-1]["out"] == "stop":
                        stopped_in = "probe" if ws[-1]["probe"] else ("before" if ws[-1]["name"] in self.before else "after")
                    if stopped_in == "before":
                        b = 3 if ws[-1]["ae"] else 2
                    else:
                        b = 1 if (bef and bef[-1]["ae"]) else 0
                    ping_ok = 0 if stopped_in == "probe" else 1
                    if stopped_in == "after":
                        a_ = 3 if ws[-1]["ae"] else 2
                    else:
                        a_ = 1 if (aft and aft[-1]["ae"]) else 0
                    toks += [0, int(it["start"]), b, ping_ok, a_, int(last and not halted)]
                    nstop["before"] += int(stopped_in == "before")
                    nstop["probe"] += int(stopped_in == "probe")
            key = "app" if lp["name"] == "_write_application" else ("initial" if lp["epoch"] == 0 else "handshake")
            enc[key] = [1, len(lp["its"])] + toks
        op = [3, pre["skip"], pre["close"], pre["low"], pre["hc"], pre["hk"], pre["cf"]] + enc["initial"] + enc["handshake"] + enc["app"]
        raised = int(self.first_mf is not None and self.first_mf[0] != pre["base"])
        ae = int(any(p.is_ack_eliciting for p in new_packets)) if not pre["close"] else 0
        self.hist["ops"].append({"op": op, "exp": [raised, ae, int(self.conn._probe_pending)], "pp_before": pre["pp"],
                                 "hs_ack_ping": gaps, "iters": sum(len(lp["its"]) for lp in loops),
                                 "stop_before": nstop["before"], "ping_stop": nstop["probe"]})


# ------------------------------------------------------------------------------------ system-level oracle
class _ProbeWatch:
    """Independent account of the probe allowance of one endpoint ("one probe datagram per timeout").

    A GRANT is a loss-detection timeout that fired and took the probe-timeout branch, observed by wrapping
    QuicPacketRecovery.on_loss_detection_timeout and the send_probe callback the recovery object was constructed with
    (kind "timeout"), or one of the two one-shot early retransmissions of receive_datagram that call
    reschedule_data() directly (kind "early"; at most one per connection).  QuicConnection._probe_pending is never read.

    call(now) = one datagrams_to_send(now): the ack-eliciting in-flight bytes it registers with the recovery object
    (packets that are in flight but not ack-eliciting = acknowledgement-only, exempt) are compared with the room
    max(congestion_window - bytes_in_flight, 0) read BEFORE the call.  A call that exceeds the room is an over-window call:
    it must be paid for by one unconsumed grant (credit), and it may carry at most one datagram (max_datagram_size bytes).
    Credits accumulate (two timeouts without a send in between allow two probe datagrams: the property's literal reading;
    the code is stricter)."""

    def __init__(self, conn, name, log):
        self.conn, self.name, self.log = conn, name, log
        self.grants = {"timeout": 0, "early": 0}
        self.credit = 0
        self.over_calls = 0
        self.over_bytes = 0
        self.probe_calls = 0
        self.calls = 0
        self.history = []          # compact event list for the replay text: ("T"|"E",) / ("D", room, bytes, datagrams)
        self._in_timeout = False
        self._probed = False
        try:
            self.pb = _PBProject(conn, PB_ORIGIN[0])
        except Exception as e:         # the projection must never disturb the oracle
            core.log("C08 probebudget projection not installed: %r" % (e,))
            self.pb = None
        rec = conn._loss
        orig_probe = rec._send_probe
        orig_timeout = rec.on_loss_detection_timeout

        def send_probe():
            kind = "timeout" if self._in_timeout else "early"
            self.grants[kind] += 1
            self.credit += 1
            self.history.append(("T" if self._in_timeout else "E",))
            self._probed = True
            try:
                return orig_probe()
            finally:
                if self.pb is not None and not self._in_timeout:
                    self.pb.early()

        def on_loss_detection_timeout(*, now):
            self._in_timeout = True
            self._probed = False
            try:
                return orig_timeout(now=now)
            finally:
                self._in_timeout = False
                if self.pb is not None:
                    self.pb.timeout(self._probed)
        rec._send_probe = send_probe
        rec.on_loss_detection_timeout = on_loss_detection_timeout

    def snapshot(self):
        return {(i, pn) for i, sp in enumerate(self.conn._loss.spaces) for pn in sp.sent_packets}

    def call(self, now, where=""):
        conn, rec = self.conn, self.conn._loss
        before = self.snapshot()
        cw, bif = rec.congestion_window, rec.bytes_in_flight
        credit = self.credit
        if self.pb is not None:
            self.pb.begin_call()
        try:
            dgs = conn.datagrams_to_send(now)
        finally:
            if self.pb is not None:
                self.pb.ev, pb_ev = None, self.pb.ev
        self.calls += 1
        new = [(i, pn, rec.spaces[i].sent_packets[pn]) for (i, pn) in sorted(self.snapshot() - before)]
        if self.pb is not None:
            self.pb.ev = pb_ev
            self.pb.end_call([p_ for _, _, p_ in new])
        budgeted = sum(p.sent_bytes for _, _, p in new if p.in_flight and p.is_ack_eliciting)
        room = max(cw - bif, 0)
        mds = conn._max_datagram_size
        if new:
            self.probe_calls += int(credit > 0)
            self.history.append(("D", room, budgeted, len(dgs)))
        if budgeted > room:
            self.over_calls += 1
            self.over_bytes += budgeted - room
            grants = self.grants["timeout"] + self.grants["early"]
            if credit <= 0:
                self.log.append(("probe_allowance",
                                 "%s %s: datagrams_to_send put %d ack-eliciting in-flight bytes (%d datagram(s)) on the wire with "
                                 "congestion_window %d, bytes_in_flight %d (room %d) and no unconsumed probe timeout: over-window call "
                                 "number %d after %d fired probe timeout(s) (%d timeout, %d early retransmission); history %s"
                                 % (self.name, where, budgeted, len(dgs), cw, bif, room, self.over_calls, grants,
                                    self.grants["timeout"], self.grants["early"], self.tail())))
            else:
                self.credit -= 1
                if budgeted > max(room, mds):
                    self.log.append(("flight_budget",
                                     "%s %s: %d ack-eliciting in-flight bytes sent by one call, window %d, in flight %d, one probe of %d "
                                     "allowed" % (self.name, where, budgeted, cw, bif, mds)))
        return dgs, new

    def tail(self, n=12):
        return " ".join("%s" % (e[0] if len(e) == 1 else "D(room=%d,sent=%d,dg=%d)" % e[1:]) for e in self.history[-n:])


def sim_run(seed, cc, loss, nbytes, max_steps=1500, extra=False):
    """Two real QuicConnections joined by a lossy in-memory network with virtual time.  After every
    public call (datagrams_to_send / receive_datagram / handle_timer) the ledger is recomputed from
    _loss.spaces[*].sent_packets; the hypotheses of the theorems are checked on real traffic (fresh packet
    numbers per space, sent_bytes > 0, ack-eliciting => in flight); and the flight budget of C08's last
    sentence is checked empirically: the ack-eliciting in-flight bytes registered by one
    datagrams_to_send() call are at most max(cwnd - bytes_in_flight, 0), except for ONE call of at most one datagram per
    probe grant that fired before it (_ProbeWatch: loss-detection timeouts whose PTO branch ran, counted by wrapping
    _loss.on_loss_detection_timeout / _loss._send_probe; the flag _probe_pending itself is NOT consulted).
    extra=True: the application also sends pings at random and the driver calls datagrams_to_send() a second time without
    any event in between (stale state from the first call must not grant anything).
    (Reads the private attributes _loss, _max_datagram_size of QuicConnection.)"""
    import os
    import random
    import ssl
    from aioquic.buffer import Buffer
    from aioquic.quic import events
    from aioquic.quic.configuration import QuicConfiguration
    from aioquic.quic.connection import QuicConnection
    from aioquic.quic.packet import pull_quic_header
    rng = random.Random("c08-sim/%d/%s" % (seed, cc))
    cconf = QuicConfiguration(is_client=True, alpn_protocols=["x"], congestion_control_algorithm=cc)
    cconf.verify_mode = ssl.CERT_NONE
    sconf = QuicConfiguration(is_client=False, alpn_protocols=["x"], congestion_control_algorithm=cc)
    sconf.load_cert_chain(os.path.join(core.REPO, "tests", "ssl_cert.pem"), os.path.join(core.REPO, "tests", "ssl_key.pem"))
    ends = {"c": QuicConnection(configuration=cconf), "s": None}
    now = 0.0
    ends["c"].connect(("1.2.3.4", 1234), now)
    log = []
    stats = {"public_calls": 0, "sending_calls": 0, "probe_calls": 0, "packets": 0, "exempt_packets": 0,
             "probe_grants_timeout": 0, "probe_grants_early": 0, "over_window_calls": 0, "extra_calls": 0, "app_pings": 0}
    watch = {"c": _ProbeWatch(ends["c"], "c", log), "s": None}
    seen = {"c": set(), "s": set()}
    wire = []
    sent_stream = done = False
    answered = set()

    def ledger(name, what):
        conn = ends[name]
        rec = conn._loss
        stats["public_calls"] += 1
        tot = 0
        for si, sp in enumerate(rec.spaces):
            cnt = 0
            for pn, p in sp.sent_packets.items():
                if p.in_flight:
                    tot += p.sent_bytes
                if p.is_ack_eliciting:
                    cnt += 1
            if cnt != sp.ack_eliciting_in_flight:
                log.append(("aeif", "%s after %s: ack_eliciting_in_flight=%d, %d tracked" % (name, what, sp.ack_eliciting_in_flight, cnt)))
        if tot != rec.bytes_in_flight or tot < 0:
            log.append(("ledger", "%s after %s: bytes_in_flight=%d, tracked=%d" % (name, what, rec.bytes_in_flight, tot)))
        if rec.congestion_window < 2 * conn._max_datagram_size:
            log.append(("cwnd_floor", "%s after %s: congestion_window=%d" % (name, what, rec.congestion_window)))

    def snapshot(conn):
        return {(i, pn) for i, sp in enumerate(conn._loss.spaces) for pn in sp.sent_packets}

    for step in range(max_steps):
        for name in ("c", "s"):
            conn = ends[name]
            if conn is None:
                continue
            if extra and sent_stream and rng.random() < 0.05:
                conn.send_ping(step)
                stats["app_pings"] += 1
            ncalls = 2 if extra and rng.random() < 0.3 else 1
            stats["extra_calls"] += ncalls - 1
            for _rep in range(ncalls):
                dgs, new = watch[name].call(now, "step %d" % step)
                for (i, pn, p) in new:
                    stats["packets"] += 1
                    if (i, pn) in seen[name]:
                        log.append(("hyp_fresh", "%s: packet number %d reused in space %d" % (name, pn, i)))
                    seen[name].add((i, pn))
                    if p.sent_bytes <= 0:
                        log.append(("hyp_bytes", "%s: sent_bytes=%d" % (name, p.sent_bytes)))
                    if p.is_ack_eliciting and not p.in_flight:
                        log.append(("hyp_flags", "%s: ack-eliciting packet %d not in flight" % (name, pn)))
                    if p.in_flight and not p.is_ack_eliciting:
                        stats["exempt_packets"] += 1
                if new:
                    stats["sending_calls"] += 1
                ledger(name, "datagrams_to_send")
                for data, _addr in dgs:
                    if rng.random() >= loss:
                        wire.append((now + rng.choice([0.01, 0.02, 0.05]), "s" if name == "c" else "c", data))
        wire.sort(key=lambda x: x[0])
        timers = [t for t in (c.get_timer() for c in ends.values() if c is not None) if t is not None]
        if not wire and not timers:
            break
        now = max(now, min([w[0] for w in wire] + timers))
        while wire and wire[0][0] <= now:
            _, dst, data = wire.pop(0)
            if ends[dst] is None:
                hdr = pull_quic_header(Buffer(data=data), host_cid_length=8)
                ends[dst] = QuicConnection(configuration=sconf, original_destination_connection_id=hdr.destination_cid)
                watch[dst] = _ProbeWatch(ends[dst], dst, log)
            ends[dst].receive_datagram(data, ("1.2.3.4", 1234) if dst == "s" else ("5.6.7.8", 4433), now)
            ledger(dst, "receive_datagram")
        for name, c in ends.items():
            if c is None:
                continue
            t = c.get_timer()
            if t is not None and t <= now:
                # a real clock fires slightly late; firing at exactly get_timer() can be a no-op that leaves
                # the loss timer at the same instant (see docs/C08.md, observation 4)
                now += 1e-6
                c.handle_timer(now)
                ledger(name, "handle_timer")
            ev = c.next_event()
            while ev is not None:
                if isinstance(ev, events.HandshakeCompleted) and name == "c" and not sent_stream:
                    c.send_stream_data(c.get_next_available_stream_id(), bytes(nbytes), end_stream=True)
                    sent_stream = True
                elif isinstance(ev, events.StreamDataReceived) and ev.end_stream and (name, ev.stream_id) not in answered:
                    answered.add((name, ev.stream_id))   # (a duplicate FIN re-emits the event: known finding F1)
                    if name == "s":
                        c.send_stream_data(ev.stream_id, bytes(nbytes // 2), end_stream=True)
                    else:
                        c.close()
                elif isinstance(ev, events.ConnectionTerminated) and name == "s":
                    done = True
                ev = c.next_event()
        if done or len(log) > 5:
            break
    stats["completed"] = int(done)
    for w in watch.values():
        if w is not None:
            stats["probe_calls"] += w.probe_calls
            stats["probe_grants_timeout"] += w.grants["timeout"]
            stats["probe_grants_early"] += w.grants["early"]
            stats["over_window_calls"] += w.over_calls
    return log, stats


def system_runs(ctx, n):
    import os
    tot = {"runs": 0, "public_calls": 0, "sending_calls": 0, "probe_calls": 0, "packets": 0, "exempt_packets": 0, "completed": 0,
           "probe_grants_timeout": 0, "probe_grants_early": 0, "over_window_calls": 0, "extra_calls": 0, "app_pings": 0}
    if not os.path.exists(os.path.join(core.REPO, "tests", "ssl_cert.pem")):
        tot["skipped"] = "tests/ssl_cert.pem not found in the tree"
        return tot
    for k in range(n):
        params = {"seed": ctx.seed + k, "cc": ("reno", "cubic")[k % 2], "loss": (0.0, 0.05, 0.2, 0.4)[(k // 2) % 4],
                  "nbytes": (60000, 200000)[(k // 8) % 2], "extra": bool((k // 4) % 2)}
        PB_ORIGIN[0] = {"sim": params}
        try:
            with _Recording():
                log, st = sim_run(params["seed"], params["cc"], params["loss"], params["nbytes"], extra=params["extra"])
        except Exception as e:
            log, st = [("raise", "simulated connection pair raised %r" % (e,))], {}
        tot["runs"] += 1
        for key, v in st.items():
            tot[key] = tot.get(key, 0) + v
        for rule, what in log[:1]:
            ctx.violation("impl-violation", "system run: " + what, {"sim": params}, signature={"rule": rule, "level": "system"})
    return tot


# ------------------------------------------------------------------------------------ probe allowance scenarios
PROBE_KINDS = ("none", "ping", "retire_cid", "peer_data", "streams_blocked", "reset", "limits_flood", "mix")


def probe_run(p):
    """Window full + probe timeout + pending control frames + queued stream data + repeated datagrams_to_send calls.

    p = {"role": "c"|"s" (endpoint under test E; the other one is the peer P), "cc", "mds", "kinds": one control-frame kind per
    timeout round, "extra": datagrams_to_send calls after the first one of a round (no timeout in between), "acks": deliver
    P's acknowledgements of E's probe datagrams at the end of every round, "seed"}.  Public API only, except the private reads of
    _ProbeWatch.  Kinds (what is pending at E when the timeout fires; all written AHEAD of the probe PING in the 1-RTT packet
    unless noted): none; ping = send_ping() (application PING); retire_cid = change_connection_id() (RETIRE_CONNECTION_ID);
    peer_data = P's stream data has reached E (MAX_STREAM_DATA / MAX_DATA); streams_blocked = E opens more streams than P allows
    (STREAMS_BLOCKED); reset = reset_stream() on a second stream (RESET_STREAM, written after the PING); limits_flood = P's data on
    some 300 streams has reached E (more MAX_STREAM_DATA frames than fit one datagram); mix = ping + retire_cid + peer_data.
    Returns (log, stats)."""
    import os
    import random
    import ssl
    from aioquic.quic.configuration import QuicConfiguration
    from aioquic.quic.connection import QuicConnection
    rng = random.Random("c08-probe/%r" % (sorted(p.items()),))
    tests = os.path.join(core.REPO, "tests")
    role, cc, mds = p["role"], p["cc"], p.get("mds", 1200)
    flood = "limits_flood" in p["kinds"]
    # E's own receive limits are small (so that P's data makes E owe MAX_STREAM_DATA frames); P's are the defaults
    small = {"max_stream_data": 100 if flood else 4000}
    cconf = QuicConfiguration(is_client=True, alpn_protocols=["x"], congestion_control_algorithm=cc, max_datagram_size=mds,
                              **(small if role == "c" else {}))
    cconf.verify_mode = ssl.CERT_NONE
    sconf = QuicConfiguration(is_client=False, alpn_protocols=["x"], congestion_control_algorithm=cc, max_datagram_size=mds,
                              **(small if role == "s" else {}))
    sconf.load_cert_chain(os.path.join(tests, "ssl_cert.pem"), os.path.join(tests, "ssl_key.pem"))
    client = QuicConnection(configuration=cconf)
    server = QuicConnection(configuration=sconf, original_destination_connection_id=client.original_destination_connection_id)
    addr = {"c": ("1.2.3.4", 1234), "s": ("5.6.7.8", 4433)}
    ends = {"c": client, "s": server}
    log = []
    watch = {n: _ProbeWatch(ends[n], n, log) for n in ends}
    other = {"c": "s", "s": "c"}
    stats = {"rounds": 0, "timeouts": 0, "calls": 0, "over_window_calls": 0, "window_full": 0,
             "kinds": {}, "setup": "ok"}
    now = 100.0

    def xfer(src, deliver=True):
        dgs, new = watch[src].call(now)
        if deliver:
            for d, _a in dgs:
                ends[other[src]].receive_datagram(d, addr[src], now)
        return dgs, new

    def drain():
        for c in ends.values():
            while c.next_event() is not None:
                pass

    def due(c):
        t = c.get_timer()
        return t is not None and t <= now

    client.connect(addr["s"], now=now)
    for _ in range(12):
        now += 0.01
        a, _n = xfer("c")
        now += 0.01
        b, _n = xfer("s")
        for c in ends.values():
            if due(c):
                c.handle_timer(now + 1e-6)
        if not a and not b and client._handshake_confirmed:
            break
    drain()
    E, P = ends[role], ends[other[role]]
    we, wp = watch[role], watch[other[role]]
    if not (client._handshake_confirmed and E._loss.bytes_in_flight == 0):
        for _ in range(6):
            now += 0.05
            for c in ends.values():
                if due(c):
                    c.handle_timer(now + 1e-6)
            xfer("c")
            xfer("s")
    if not client._handshake_confirmed:
        stats["setup"] = "handshake not confirmed"
        return log, stats

    clock = [now]      # peer_data advances the time on its own

    def peer_data(nstreams, nbytes, uni=False):
        """P -> E: stream data that makes E owe MAX_STREAM_DATA / MAX_DATA; E's replies reach P only when they put nothing
        in flight (acknowledgements)"""
        for k in range(nstreams):
            P.send_stream_data(P.get_next_available_stream_id(is_unidirectional=bool(uni and k % 2)), bytes(nbytes))
        for _ in range(80):
            clock[0] += 0.002
            dgs, _n = wp.call(clock[0])
            for d, _a in dgs:
                E.receive_datagram(d, addr[other[role]], clock[0])
            back, new = we.call(clock[0])
            if not any(q.in_flight for _, _, q in new):
                for d, _a in back:
                    P.receive_datagram(d, addr[role], clock[0])
            if not dgs and not back:
                break
        drain()

    # E fills its congestion window; nothing it sends from now on arrives (except acknowledgement-only datagrams above)
    sid = E.get_next_available_stream_id()
    E.send_stream_data(sid, bytes(400000))
    sid2 = None
    for _ in range(400):
        dgs, _n = we.call(now)
        rec = E._loss
        if rec.congestion_window - rec.bytes_in_flight < mds and not dgs:
            break
        t = E.get_timer()
        now = max(now + 0.0005, min(t, now + 0.002) if t is not None else now)
    rec = E._loss
    if rec.congestion_window - rec.bytes_in_flight >= mds:
        stats["setup"] = "window not full"
        return log, stats
    stats["window_full"] = 1
    clock[0] = now

    def queue(kind):
        nonlocal sid2
        if kind in ("ping", "mix"):
            E.send_ping(rng.randrange(1 << 20))
        if kind in ("retire_cid", "mix"):
            try:
                E.change_connection_id()
            except Exception:
                pass
        if kind in ("peer_data", "mix"):
            peer_data(2, 3000)
        if kind == "limits_flood":
            peer_data(256, 60, uni=True)       # 128 bidirectional + 128 unidirectional: all that E's MAX_STREAMS allow
        if kind == "streams_blocked":
            for _ in range(140):
                E.send_stream_data(E.get_next_available_stream_id(), b"y")
        if kind == "reset":
            if sid2 is None:
                sid2 = E.get_next_available_stream_id()
                E.send_stream_data(sid2, bytes(5000))
            else:
                E.reset_stream(sid2, 7)
                sid2 = None

    for kind in p["kinds"]:
        stats["rounds"] += 1
        stats["kinds"][kind] = stats["kinds"].get(kind, 0) + 1
        queue(kind)
        now = max(now, clock[0])
        # fire E's timer until a probe timeout has fired (ack / pacing timers come first)
        g0 = we.grants["timeout"]
        for _ in range(20):
            t = E.get_timer()
            if t is None:
                break
            now = max(now, t) + 1e-6
            E.handle_timer(now)
            if we.grants["timeout"] > g0:
                break
            we.call(now)
        if we.grants["timeout"] == g0:
            stats["setup"] = "no probe timeout in round %d" % stats["rounds"]
            break
        stats["timeouts"] += we.grants["timeout"] - g0
        probes = []
        for k in range(1 + p.get("extra", 3)):
            dgs, new = we.call(now, "round %d (%s) call %d" % (stats["rounds"], kind, k))
            stats["calls"] += 1
            probes += dgs
            # the driver must not run into the next timeout: stay before E's loss timer (pacing timers are passed)
            nxt = E._loss.get_loss_detection_time()
            step = 0.0015
            if nxt is not None and now + step >= nxt:
                step = max((nxt - now) / 4, 0.0)
            now += step
        if p.get("acks") and probes:
            d = probes[-1][0]
            P.receive_datagram(d, addr[role], now)
            now += 0.001
            back, _n = wp.call(now)
            for dd, _a in back[:1]:
                E.receive_datagram(dd, addr[other[role]], now)
            drain()
        clock[0] = now
        if log:
            break
    stats["over_window_calls"] = we.over_calls
    stats["grants"] = dict(we.grants)
    return log, stats


def probe_params(ctx, n):
    """the scenario families: every kind x both roles x both controllers first, then random rounds"""
    rng = ctx.rng
    out = []
    for kind in PROBE_KINDS:
        for role in ("c", "s"):
            for cc in ("reno", "cubic"):
                out.append({"role": role, "cc": cc, "mds": 1200, "kinds": [kind, kind if kind != "limits_flood" else "none"],
                            "extra": 3, "acks": 0, "seed": ctx.seed})
    base = len(out)
    while len(out) < max(n, base):
        out.append({"role": rng.choice("cs"), "cc": rng.choice(("reno", "cubic")), "mds": rng.choice((1200, 1200, 1350, 1452)),
                    "kinds": [rng.choice(PROBE_KINDS[:6] + ("mix",)) for _ in range(rng.randint(1, 4))],
                    "extra": rng.randint(1, 4), "acks": rng.randint(0, 1), "seed": ctx.seed + len(out)})
    return out


def probe_runs(ctx, n):
    import os
    tot = {"runs": 0, "rounds": 0, "timeouts": 0, "calls": 0, "over_window_calls": 0, "window_full": 0,
           "kinds": {}, "setup_failures": {}, "limits_flood_violations": 0}
    if not os.path.exists(os.path.join(core.REPO, "tests", "ssl_cert.pem")):
        tot["skipped"] = "tests/ssl_cert.pem not found in the tree"
        return tot
    reported = set()
    for params in probe_params(ctx, n):
        PB_ORIGIN[0] = {"probe": params}
        try:
            log, st = probe_run(params)
        except Exception as e:
            import traceback
            log, st = [("raise", "probe scenario raised %r at %s" % (e, traceback.format_exc().strip().splitlines()[-3:]))], {}
        tot["runs"] += 1
        for key in ("rounds", "timeouts", "calls", "over_window_calls", "window_full"):
            tot[key] += st.get(key, 0)
        for k, v in st.get("kinds", {}).items():
            tot["kinds"][k] = tot["kinds"].get(k, 0) + v
        if st.get("setup", "ok") != "ok":
            tot["setup_failures"][st["setup"]] = tot["setup_failures"].get(st["setup"], 0) + 1
        for rule, what in log[:1]:
            # finding C08-F3: exactly one datagram more than the fired timeouts, in the scenario built for it
            flood = ("limits_flood" in params["kinds"] and rule == "probe_allowance"
                     and st.get("over_window_calls") == sum(st.get("grants", {}).values()) + 1)
            tot["limits_flood_violations"] += int(flood)
            sig = {"rule": rule, "level": "connection", "scenario": "probe"}
            if flood:
                sig["cause"] = "stop_before_probe_ping"
            key = (rule, flood)
            if key in reported:
                continue
            reported.add(key)
            ctx.violation("impl-violation", "probe scenario: " + what, {"probe": params}, signature=sig)
    return tot


# ------------------------------------------------------------------------------------ close round (finding C08-F2)
def close_round_run(cc, mds):
    """A resumed client (0-RTT) fills its congestion window with early data, receives the server's whole first flight
    (it now holds Initial, Handshake and 1-RTT send keys) and the application calls close() before the next
    datagrams_to_send(): the _close_pending branch sets no flight budget and the 1-RTT CONNECTION_CLOSE packet that
    shares the datagram with the Initial one is padded to the datagram size, which marks it in flight.
    Returns (in-flight bytes registered by the close round that are not acknowledgement-only, cwnd - bytes_in_flight
    before it, bytes_in_flight after, cwnd after)."""
    import os
    import ssl
    from aioquic.quic.configuration import QuicConfiguration
    from aioquic.quic.connection import QuicConnection
    tests = os.path.join(core.REPO, "tests")
    saddr, caddr = ("5.6.7.8", 4433), ("1.2.3.4", 1234)

    def mk(ticket=None):
        cconf = QuicConfiguration(is_client=True, alpn_protocols=["x"], max_datagram_size=mds, congestion_control_algorithm=cc)
        cconf.verify_mode = ssl.CERT_NONE
        saved, ssaved = [], []
        if ticket:
            cconf.session_ticket = ticket[0]
        client = QuicConnection(configuration=cconf, session_ticket_handler=saved.append)
        sconf = QuicConfiguration(is_client=False, alpn_protocols=["x"], congestion_control_algorithm=cc)
        sconf.load_cert_chain(os.path.join(tests, "ssl_cert.pem"), os.path.join(tests, "ssl_key.pem"))
        fetch = (lambda label: ticket[1] if label == ticket[1].ticket else None) if ticket else None
        server = QuicConnection(configuration=sconf, original_destination_connection_id=client.original_destination_connection_id,
                                session_ticket_handler=ssaved.append, session_ticket_fetcher=fetch)
        return client, server, saved, ssaved
    c, s, saved, ssaved = mk()
    now = 10.0
    c.connect(saddr, now=now)
    for _ in range(8):
        now += 0.01
        for d, _a in c.datagrams_to_send(now):
            s.receive_datagram(d, caddr, now)
        for d, _a in s.datagrams_to_send(now):
            c.receive_datagram(d, saddr, now)
    if not saved or not ssaved:
        return None
    c, s, _, _ = mk((saved[0], ssaved[0]))
    now = 20.0
    c.connect(saddr, now=now)
    c.send_stream_data(c.get_next_available_stream_id(), bytes(30000))
    first = c.datagrams_to_send(now)
    s.receive_datagram(first[0][0], caddr, now)
    now += 0.01
    for d, _a in s.datagrams_to_send(now):
        c.receive_datagram(d, saddr, now)
    rec = c._loss
    before = {(i, pn) for i, sp in enumerate(rec.spaces) for pn in sp.sent_packets}
    room = rec.congestion_window - rec.bytes_in_flight
    c.close()
    c.datagrams_to_send(now)
    added = 0
    for i, sp in enumerate(rec.spaces):
        for pn, p in sp.sent_packets.items():
            if (i, pn) not in before and p.in_flight:
                added += p.sent_bytes        # CONNECTION_CLOSE + PADDING: not an acknowledgement-only packet
    return added, room, rec.bytes_in_flight, rec.congestion_window


# Candidate finding C08-F2 (docs/C08.md).  known_findings.json is a shared file that checks never write: until the entry is
# listed there (NEEDS in docs/C08.md) it is registered in memory, so that the scenario below is reported through the
# known-finding path (KNOWN-FINDING line, evidence.known_findings_hit) -- for exactly this signature and nothing else.
LOCAL_KNOWN_FINDINGS = [{
    "id": "C08-F2-close-round-ignores-flight-budget",
    "property": "C08",
    "status": "open",
    "what": "the CONNECTION_CLOSE round (_close_pending branch of datagrams_to_send) sets no max_flight_bytes: a client that still "
            "holds Initial keys pads the 1-RTT CONNECTION_CLOSE packet to the datagram size, which marks it in flight "
            "(max_datagram_size 1452, window full of 0-RTT data: 1357 in-flight bytes sent with cwnd - bytes_in_flight = 1272; "
            "afterwards bytes_in_flight 15241 > congestion_window 15156)",
    "match": {"rule": "flight_budget", "level": "connection", "closing": True},
}, {
    "id": "C08-F3-stop-before-probe-ping-keeps-allowance",
    "property": "C08",
    "status": "open",
    "what": "_probe_pending is cleared only where the probe PING is written; when the control frames written ahead of it in the "
            "1-RTT packet (MAX_STREAM_DATA for 256 peer streams) fill the probe datagram, QuicPacketBuilderStop leaves "
            "_write_application with the flag still set and the next datagrams_to_send() call (no timeout in between) raises the "
            "flight budget to a full datagram again: two over-window datagrams (1186 + 1200 bytes) for one probe timeout "
            "(Coq: one_probe_per_timeout_refuted; docs/C08.md finding F3, docs/C08-fix-3.patch)",
    "match": {"rule": "probe_allowance", "level": "connection", "scenario": "probe", "cause": "stop_before_probe_ping"},
}]


def close_rounds(ctx):
    st = {"runs": 0, "over_budget": 0, "skipped": 0, "results": []}
    import os
    if not os.path.exists(os.path.join(core.REPO, "tests", "ssl_cert.pem")):
        st["skipped"] = "tests/ssl_cert.pem not found in the tree"
        return st
    for cc in ("reno", "cubic"):
        for mds in (1200, 1452):
            try:
                r = close_round_run(cc, mds)
            except Exception as e:
                ctx.violation("impl-violation", "close round scenario raised %r" % (e,), {"close_round": {"cc": cc, "mds": mds}},
                              signature={"rule": "raise", "level": "connection", "closing": True})
                continue
            if r is None:
                st["skipped"] += 1
                continue
            st["runs"] += 1
            added, room, bif, cw = r
            st["results"].append({"cc": cc, "mds": mds, "in_flight_added": added, "room": room, "bytes_in_flight": bif, "cwnd": cw})
            if added > max(room, 0):
                st["over_budget"] += 1
                ctx.violation("impl-violation",
                              "close round: %d in-flight bytes (CONNECTION_CLOSE + PADDING, not acknowledgement-only, no probe) sent with "
                              "cwnd - bytes_in_flight = %d; afterwards bytes_in_flight %d, congestion_window %d" % (added, room, bif, cw),
                              {"close_round": {"cc": cc, "mds": mds}},
                              signature={"rule": "flight_budget", "level": "connection", "closing": True})
    return st


# ------------------------------------------------------------------------------------ builder-level flight budget
# frame classes written by the cases: (frame type, in-flight?, ack-eliciting?)
BD_FRAMES = {"ack": 0x02, "close": 0x1C, "padding": 0x00, "ping": 0x01, "crypto": 0x06, "stream": 0x08}
BD_NON_IN_FLIGHT = ("ack", "close")


def bd_run(case):
    """Drive the real QuicPacketBuilder the way QuicConnection.datagrams_to_send does (non in-flight
    frames first in a packet, frame bodies sized with remaining_flight_space / remaining_buffer_space,
    QuicPacketBuilderStop ends the flight).  Returns (datagram sizes, packets, frames per packet)."""
    from aioquic.quic.crypto import CryptoPair
    from aioquic.quic.packet import QuicPacketType, QuicProtocolVersion
    from aioquic.quic.packet_builder import QuicPacketBuilder, QuicPacketBuilderStop
    ptypes = {"initial": QuicPacketType.INITIAL, "handshake": QuicPacketType.HANDSHAKE, "one_rtt": QuicPacketType.ONE_RTT}
    builder = QuicPacketBuilder(host_cid=bytes(case["host_cid"]), peer_cid=bytes(case["peer_cid"]),
                                version=QuicProtocolVersion.VERSION_1, is_client=bool(case["is_client"]),
                                max_datagram_size=case["mds"], packet_number=case.get("pn0", 0),
                                peer_token=bytes(case["token"]))
    crypto = CryptoPair()
    crypto.setup_initial(bytes(8), is_client=bool(case["is_client"]), version=QuicProtocolVersion.VERSION_1)
    builder.max_flight_bytes = case["max_flight"]
    builder.max_total_bytes = case["max_total"]
    frames = {}
    payload = {}
    case["_payload"] = payload      # bytes written into each packet by the caller (scratch, not part of the case)
    try:
        for op in case["ops"]:
            if op[0] == "packet":
                builder.start_packet(ptypes[op[1]], crypto)
                frames[builder.packet_number] = []
                payload[builder.packet_number] = 0
            else:
                _, kind, capacity, body = op
                buf = builder.start_frame(BD_FRAMES[kind], capacity)
                frames[builder.packet_number].append(kind)
                room = builder.remaining_buffer_space if kind in BD_NON_IN_FLIGHT else builder.remaining_flight_space
                n = max(0, min(body, room))
                if n:
                    buf.push_bytes(bytes(n))
                payload[builder.packet_number] = payload.get(builder.packet_number, 0) + 1 + n
    except QuicPacketBuilderStop:
        pass
    datagrams, packets = builder.flush()
    return [len(d) for d in datagrams], packets, frames


def bd_oracle(case):
    """C08, last sentence, at the level where it is decided: one builder session (= one datagrams_to_send call) adds at
    most max(max_flight_bytes, 0) in-flight bytes -- ALL packets marked in flight, acknowledgement-only ones included
    (they are in flight only when padded, and the padding stays inside the flight capacity) -- where QuicConnection sets
    max_flight_bytes = cwnd - bytes_in_flight (one datagram if a probe is pending).  No allowance for the sample-padding
    byte (C08-F1, fixed by e93c691): budget + 1 is a violation."""
    if case["max_flight"] is None:
        return None
    try:
        sizes, packets, frames = bd_run(case)
    except Exception as e:
        return ("packet builder raised %s" % type(e).__name__, {"rule": "builder_raise", "exception": type(e).__name__})
    budget = max(case["max_flight"], 0)
    payload = case.pop("_payload", {})
    flight = 0
    for p in packets:
        fr = frames.get(p.packet_number, [])
        # only exemption (theorem flight_le_budget, clause 3 of the discipline): an ACK / CLOSE "frame" of a single byte,
        # which no real frame writer produces, gets the header-protection sample padding and is then in flight
        one_byte_ack = all(k in BD_NON_IN_FLIGHT for k in fr) and payload.get(p.packet_number) == 1
        if p.in_flight and not one_byte_ack:
            flight += p.sent_bytes
    if flight > budget:
        return ("%d in-flight bytes were put on the wire while the budget (cwnd - bytes_in_flight) was %d; packets: %s"
                % (flight, case["max_flight"],
                   [(p.packet_type.name, p.sent_bytes, int(p.in_flight), frames.get(p.packet_number)) for p in packets]),
                {"rule": "flight_budget", "level": "builder", "overshoot": flight - budget})
    if any(sz > case["mds"] for sz in sizes):
        return ("datagram larger than max_datagram_size", {"rule": "datagram_size"})
    return None


def bd_gen(rng, n):
    out = []
    for _ in range(n):
        mds = rng.choice([1200, 1200, 1280, 1452])
        mf = rng.choice([None, 0, -50, 1, 30, 100, 300, 600, 601, 1199, 1200, 1201, 2000, 2400, 5000, 12000,
                         rng.randint(0, 3000), rng.randint(0, 3000)])
        case = {"is_client": int(rng.random() < 0.5), "mds": mds, "host_cid": [0] * rng.choice([0, 8, 8, 20]),
                "peer_cid": [0] * rng.choice([0, 8, 8, 20]), "token": [0] * rng.choice([0, 0, 0, 16, 80]),
                "max_flight": mf, "max_total": rng.choice([None, None, None, 3600, 1500, 900, rng.randint(100, 4000)]),
                "ops": []}
        style = rng.choice(["handshake", "app", "mixed", "mixed"])
        for _ in range(rng.randint(1, 6)):
            if style == "handshake":
                pt = rng.choice(["initial", "handshake", "one_rtt"])
            elif style == "app":
                pt = "one_rtt"
            else:
                pt = rng.choice(["initial", "handshake", "one_rtt", "one_rtt"])
            case["ops"].append(["packet", pt])
            if rng.random() < 0.5:      # non in-flight frames first, as _write_application / _write_handshake do
                case["ops"].append(["frame", rng.choice(["ack", "ack", "ack", "close"]), rng.choice([1, 5, 20, 64]),
                                    rng.choice([4, 10, 30, 200, 1500])])
            for _ in range(rng.choice([0, 1, 1, 2, 3])):
                kind = rng.choice(["ping", "padding", "crypto", "stream", "stream", "crypto"])
                if kind in ("ping", "padding"):
                    case["ops"].append(["frame", kind, 1, rng.choice([0, 0, 0, 3, 2000]) if kind == "padding" else 0])
                else:
                    case["ops"].append(["frame", kind, rng.choice([2, 10, 19, 100]), rng.choice([0, 1, 50, 100, 600, 2000])])
        out.append(case)
    return out


def builder_runs(ctx, n):
    """Implementation oracle only (no Coq model of the builder): explored, not proved."""
    st = {"cases": 0, "with_budget": 0, "packets": 0, "coalesced_initial_one_rtt": 0, "budget_below_datagram": 0, "violations": 0}
    reported = 0
    for case in corr.load_corpus("C08", "builder") + bd_gen(ctx.rng, n):
        st["cases"] += 1
        try:
            sizes, packets, frames = bd_run(case)
            case.pop("_payload", None)
            st["packets"] += len(packets)
            names = [p.packet_type.name for p in packets]
            if "INITIAL" in names and "ONE_RTT" in names:
                st["coalesced_initial_one_rtt"] += 1
        except Exception:
            pass
        if case["max_flight"] is not None:
            st["with_budget"] += 1
            if case["max_flight"] < case["mds"]:
                st["budget_below_datagram"] += 1
        bad = bd_oracle(case)
        if bad:
            st["violations"] += 1
            if reported < 2:
                reported += 1
                # shrink: drop ops while the oracle still fails (keeping the case well formed)
                ops = list(case["ops"])
                i = len(ops) - 1
                while i >= 0:
                    cand = dict(case, ops=ops[:i] + ops[i + 1:])
                    ok = cand["ops"] and cand["ops"][0][0] == "packet"
                    if ok and _safe_bd(cand):
                        ops = cand["ops"]
                    i -= 1
                small = dict(case, ops=ops)
                what, sig = bd_oracle(small) or bad
                ctx.violation("impl-violation", "builder: " + what, {"builder": small}, signature=sig)
    return st


def _safe_bd(case):
    try:
        return bool(bd_oracle(case))
    except Exception:
        return False



# ------------------------------------------------------------------------------------ builder MODEL tie (flight budget theorems)
# The flight-budget theorems (coq/proofs/BuilderFlight.v, FlightBudget.v) are about C13's model of QuicPacketBuilder
# (coq/model/Builder.v, extracted as exec_builder).  Its tie to the code is re-run here on flight-shaped histories:
# C13's encoder / implementation driver (same observables: outcome, remaining_buffer_space, remaining_flight_space,
# packet_is_empty, packet_number after every op; datagram lengths and packet metadata incl. in_flight / sent_bytes per
# flush) with C08's own generator and C08's own oracle (the statement of flight_le_budget coded on the implementation).
FL_NIF = (0x02, 0x03, 0x1C, 0x1D)          # NON_IN_FLIGHT_FRAME_TYPES


def _c13():
    from props import c13
    return c13


def _uvar_size(v):
    v %= 1 << 64
    return 1 if v < 64 else 2 if v < 16384 else 4 if v < (1 << 30) else 8 if v < (1 << 62) else None


def fl_gen(rng, n):
    """Builder histories shaped like one datagrams_to_send call (ACK / CLOSE first in a packet, in-flight frame bodies
    sized with remaining_flight_space, QuicPacketBuilderStop ends the flight, one flush at the end), recorded as
    concrete ops in C13's case format by driving the real builder.  A wild fraction breaks one of the three flight
    clauses of the discipline (one-byte ACK, ACK after an in-flight frame, body sized with remaining_buffer_space)."""
    c13 = _c13()
    cases = []
    for _ in range(n):
        mds = rng.choice([1200, 1200, 1280, 1452, 1500])
        ph = rng.choice([(8, 8), (8, 8), (0, 0), (20, 20), (8, 0)])
        hdr1 = 3 + ph[0]
        mf = rng.choice([None, 0, -50, 1, hdr1 + 16, hdr1 + 17, hdr1 + 18, hdr1 + 19, 45, 46, 100, 300, 600, 601, 1199, 1200, 1201,
                         2000, 2400, 5000, 12000, rng.randint(0, 3000), rng.randint(0, 3000), rng.randint(0, 200)])
        cfg = {"client": int(rng.random() < 0.5), "mds": mds, "peer": ph[0], "host": ph[1],
               "token": rng.choice([0, 0, 0, 16, 80]), "mf": mf,
               "mt": rng.choice([None, None, None, 3600, 1500, 900, rng.randint(100, 4000)]), "pn": rng.choice([0, 0, 7, 65535])}
        wild = rng.random() < 0.2
        b = c13._mk_builder(cfg)
        crypto = c13._crypto(mds)
        ops = []

        def do(op):
            code, _ = c13._b_apply(b, crypto, op)
            ops.append(op)
            return code
        style = rng.choice(["handshake", "app", "mixed", "mixed"])
        stopped = False
        for _ in range(rng.randint(1, 6)):
            if style == "handshake":
                pt = rng.choice([0, 2, 5])
            elif style == "app":
                pt = 5
            else:
                pt = rng.choice([0, 2, 5, 5, 1])
            if do(["sp", pt]) != 0:
                break
            if rng.random() < 0.5:       # non in-flight frames first, as _write_handshake / _write_application do
                if do(["sf", rng.choice([2, 2, 2, 3, 0x1C, 0x1D]), rng.choice([1, 5, 20, 64])]) != 0:
                    break
                nb = max(0, min(rng.choice([4, 10, 30, 200, 1500]), b.remaining_buffer_space))
                if wild and rng.random() < 0.4:
                    nb = 0               # a one-byte ACK "frame" (clause 3)
                if nb:
                    do(["push", nb])
            for _ in range(rng.choice([0, 1, 1, 2, 3])):
                kind = rng.choice(["ping", "padding", "crypto", "stream", "stream", "crypto", "hsdone"])
                if kind in ("ping", "padding", "hsdone"):
                    ft, cap = {"ping": 1, "padding": 0, "hsdone": 0x1E}[kind], 1
                    body = rng.choice([0, 0, 0, 3, 2000]) if kind == "padding" else 0
                else:
                    ft, cap = (6 if kind == "crypto" else rng.choice([8, 0x0A, 0x0F])), rng.choice([2, 10, 19, 100])
                    body = rng.choice([0, 1, 50, 100, 600, 2000])
                if do(["sf", ft, cap]) != 0:
                    stopped = True
                    break
                room = b.remaining_flight_space
                if wild and rng.random() < 0.3:
                    room = b.remaining_buffer_space        # clause 2
                nb = max(0, min(body, room))
                if nb:
                    do(["push", nb])
                if wild and rng.random() < 0.25:           # clause 1: ACK after an in-flight frame
                    if do(["sf", 2, 1]) == 0:
                        nb = max(0, min(rng.choice([4, 200, 1500]), b.remaining_buffer_space))
                        if nb:
                            do(["push", nb])
            if stopped:
                break
        do(["flush"])
        cases.append({"cfg": cfg, "ops": ops})
    return cases


def _fl_eval(case):
    """flight_le_budget coded on the real builder (public behaviour only; the discipline is recomputed here from the
    ops and the public properties, independently of the model): in a history that respects the caller discipline
    (C13's clauses + the three flight clauses) the sent_bytes of ALL packets with in_flight set sum up to at most
    max(0, max_flight_bytes).  Without clause 3 (one-byte ACK-only packets allowed) the same holds for the ack-eliciting
    in-flight packets (flight_le_budget_ack_eliciting); and every datagram is <= max_datagram_size.
    Returns (violation or None, disciplined, clause 3 respected, in-flight bytes, in-flight packets)."""
    c13 = _c13()
    cfg = case["cfg"]
    b = c13._mk_builder(cfg)
    crypto = c13._crypto(cfg["mds"])
    mf = cfg["mf"]
    disc = disc3 = True           # clauses of C13 + flight clauses 1, 2 ; flight clause 3
    in_packet = cur_inflight = False
    payload = 0
    flight = flight_ae = npk = 0
    bad = None
    for i, op in enumerate(case["ops"]):
        k = op[0]
        if k == "sf":
            sz = _uvar_size(op[1])
            if not in_packet or sz is None or sz > op[2]:
                disc = False
            if op[1] in FL_NIF and cur_inflight:
                disc = False
        elif k == "push":
            try:
                ok = in_packet and not b.packet_is_empty and 0 <= op[1] <= b.remaining_buffer_space
                if ok and cur_inflight and op[1] > b.remaining_flight_space:
                    ok = False
            except (AssertionError, AttributeError):
                ok = False
            if not ok:
                disc = False
        elif k in ("sp", "flush"):
            if in_packet and not cur_inflight and payload == 1:
                disc3 = False
        code, res = c13._b_apply(b, crypto, op)
        if k == "sp":
            in_packet = code == 0
            cur_inflight = False
            payload = 0
        elif k == "sf" and code == 0:
            payload += _uvar_size(op[1]) or 0
            if op[1] not in FL_NIF:
                cur_inflight = True
        elif k == "push" and code == 0:
            payload += op[1]
        elif k == "flush":
            in_packet = cur_inflight = False
            payload = 0
            if res is not None:
                dgs, pkts = res
                for d in dgs:
                    if len(d) > cfg["mds"] and bad is None:
                        bad = ("datagram of %d bytes, max_datagram_size %d" % (len(d), cfg["mds"]),
                               {"rule": "datagram_size", "level": "builder"})
                flight += sum(p.sent_bytes for p in pkts if p.in_flight)
                flight_ae += sum(p.sent_bytes for p in pkts if p.in_flight and p.is_ack_eliciting)
                npk += sum(1 for p in pkts if p.in_flight)
        if bad is None and mf is not None and disc and ((disc3 and flight > max(0, mf)) or flight_ae > max(0, mf)):
            bad = ("disciplined builder history put %d in-flight bytes (%d ack-eliciting) on the wire with max_flight_bytes = %d "
                   "(= cwnd - bytes_in_flight) (op %d)" % (flight, flight_ae, mf, i),
                   {"rule": "flight_budget", "level": "builder", "overshoot": max(flight if disc3 else 0, flight_ae) - max(0, mf)})
    return bad, disc, disc3, flight, npk


def fl_oracle(case):
    return _fl_eval(case)[0]


def flight_suite(ctx):
    c13 = _c13()
    return corr.Suite(ctx, "builderflight", "exec_builder", c13.b_encode, c13.b_impl, fl_oracle, _ops, _rebuild,
                      nontrivial=lambda c, out: any(o[0] == "sf" for o in c["ops"]) and len(c["ops"]) >= 3,
                      opname=lambda o: o[0])


# ------------------------------------------------------------------------------------ driver
def _ops(c):
    return c["ops"]


def _rebuild(c, ops):
    d = dict(c)
    d["ops"] = ops
    return d


def _nontrivial(c, out):
    kinds = {o[0] for o in c["ops"]}
    return "send" in kinds and ("ack" in kinds or "timeout" in kinds or "discard" in kinds)


def suite(ctx):
    s = VmSuite(ctx, "recovery", "vm:RecoveryFloat", rc_encode, rc_impl, rc_oracle, _ops, _rebuild,
                nontrivial=_nontrivial, opname=lambda o: o[0])
    return s


def _tally(s, cases):
    """Outcome histogram measured on the implementation: how deep the explored histories go."""
    h = s.stats["outcome_histogram"]
    for c in cases:
        rig = _Rig(c)
        ca = lost = acked = False
        try:
            for op in c["ops"]:
                try:
                    rig.apply(op)
                except Exception:
                    break
                for _, _, st in rig.events:
                    if st == 1:
                        lost = True
                    else:
                        acked = True
                if rig.rec._cc.ssthresh is not None:
                    ca = True
        finally:
            rig.close()
        h["%s:%s" % (c["cc"], "left-slow-start" if ca else "slow-start-only")] += 1
        if lost:
            h["some-packet-lost"] += 1
        if acked:
            h["some-packet-acked"] += 1



# ------------------------------------------------------------------------------------ suite `probebudget`
PB_CHUNK = 300


def pb_chunks(hists):
    """cut the recorded histories into cases of at most PB_CHUNK ops; a case that starts with the flag set begins with one
    probe-timeout op (the model's state is the flag and the one-shot bit of the early retransmission, which fires once);
    calls the model cannot express (an ACK-of-ACK PING in an Initial / Handshake packet) end a case and are counted"""
    cases, skipped = [], 0
    for h in hists:
        cur, k, pp = [], 0, 0
        def close():
            nonlocal cur, k
            if any(o["op"][0] == 3 for o in cur):
                cases.append({"origin": h["origin"], "chunk": k, "ops": cur})
                k += 1
            cur = []
        for o in h["ops"]:
            if o.get("hs_ack_ping"):
                skipped += 1
                close()
                pp = o["exp"][-1]
                continue
            if not cur and pp:
                cur.append({"op": [0, 1], "exp": [1], "synthetic": True})
            cur.append(o)
            pp = o["exp"][-1]
            if len(cur) >= PB_CHUNK:
                close()
        close()
    return cases, skipped


def pb_oracle(case):
    """the probe allowance on the observations alone (no model): a call's budget is raised only with the flag set, a call never
    sets the flag, and the raised calls that registered an ack-eliciting packet and left the flag clear are at most the grants"""
    grants = probes = 0
    pp = 0
    for i, o in enumerate(case["ops"]):
        op, exp = o["op"], o["exp"]
        if op[0] == 0:
            grants += int(bool(op[1]))
        elif op[0] == 1:
            grants += 1
        elif op[0] == 3:
            raised, ae, after = exp
            before = o.get("pp_before", pp)
            if raised and not before:
                return ("op %d: the budget of a datagrams_to_send call was raised to one datagram while _probe_pending was False" % i,
                        {"rule": "probe_allowance", "level": "connection", "suite": "probebudget", "cause": "raised_without_flag"})
            if after and not before:
                return ("op %d: a datagrams_to_send call SET _probe_pending" % i,
                        {"rule": "probe_allowance", "level": "connection", "suite": "probebudget", "cause": "flag_set_by_call"})
            if raised and ae and not after:
                probes += 1
                if probes > grants:
                    return ("op %d: %d raised calls that sent an ack-eliciting packet and consumed the flag after %d grant(s)"
                            % (i, probes, grants),
                            {"rule": "probe_allowance", "level": "connection", "suite": "probebudget", "cause": "more_probes_than_grants"})
        pp = exp[-1]
    return None


def pb_suite(ctx):
    return corr.Suite(ctx, "probebudget", "exec_probebudget",
                      encode=lambda c: [t for o in c["ops"] for t in o["op"]],
                      impl=lambda c: [t for o in c["ops"] for t in o["exp"]],
                      oracle=pb_oracle,
                      nontrivial=lambda c, out: any(o["op"][0] == 3 and o["exp"][0] for o in c["ops"]))


def pb_runs(ctx):
    hists = list(PB_HISTORIES)
    del PB_HISTORIES[:]
    cases, skipped = pb_chunks(hists)
    st = {"endpoints": len(hists), "cases": len(cases), "ops": 0, "timeouts": 0, "probe_timeouts": 0, "early": 0, "calls": 0,
          "raised_calls": 0, "raised_ae_calls": 0, "flag_kept_after_raised_ae": 0, "packet_iterations": 0,
          "stop_ahead_of_ping": 0, "ping_stop": 0, "handshake_level_calls": 0, "calls_skipped_hs_ack_ping": skipped,
          "projection_installed": int(bool(hists)) }
    for c in cases:
        for o in c["ops"]:
            if o.get("synthetic"):
                continue
            st["ops"] += 1
            op, exp = o["op"], o["exp"]
            if op[0] == 0:
                st["timeouts"] += 1
                st["probe_timeouts"] += int(bool(op[1]))
            elif op[0] == 1:
                st["early"] += 1
            elif op[0] == 3:
                st["calls"] += 1
                st["raised_calls"] += exp[0]
                st["raised_ae_calls"] += int(exp[0] and exp[1])
                st["flag_kept_after_raised_ae"] += int(exp[0] and exp[1] and exp[2])
                st["packet_iterations"] += o.get("iters", 0)
                st["handshake_level_calls"] += int(not op[6])
                st["stop_ahead_of_ping"] += o.get("stop_before", 0)
                st["ping_stop"] += o.get("ping_stop", 0)
    ps = pb_suite(ctx)
    # the whole quick tier is run: the model costs microseconds per op
    ps.run(cases)
    st["disagreements"] = ps.stats["disagreements"]
    st["oracle_failures"] = ps.stats["oracle_failures"]
    return ps, st


def run(ctx):
    import time
    s = suite(ctx)
    s.run(corr.load_corpus("C08", s.name), "corpus")
    rng = ctx.rng
    # generation is cheap and always complete (the PRNG stream does not depend on timing)
    ex = list(exhaustive(3, quick=True)) if not ctx.thorough else list(exhaustive(3)) + list(exhaustive(4))
    rnd = gen_cases(rng, ctx.n(700, 20000))
    lng = gen_long_ca(rng, ctx.n(60, 2000))
    batches = [("exhaustive", ex), ("random", rnd), ("long", lng)]
    # One vm_compute pass over everything (every coqc process pays the library loading once, which takes
    # 5-20 s on a loaded machine); thorough runs are cut into chunks.  Safety net for the quick tier: chunks
    # that would start after the deadline are skipped and counted.
    allc = [c for _, b in batches for c in b]
    chunk = 600 if not ctx.thorough else 6000
    # (counted from here: the separate coqc of props/C08.v, 15-45 s since cwnd_floor_cubic pulls in Flocq and the reals, is not
    # charged to the recovery tie)
    deadline = None if ctx.thorough else time.time() + 90
    skipped = 0
    for i in range(0, len(allc), chunk):
        if deadline is not None and i > 0 and time.time() > deadline:
            skipped += len(allc) - i
            break
        s.run(allc[i:i + chunk])
    _tally(s, rnd[:300] + lng[:60])
    for kf in LOCAL_KNOWN_FINDINGS:
        if not any(k.get("id") == kf["id"] for k in ctx.known):
            ctx.known = list(ctx.known) + [kf]
    system = system_runs(ctx, ctx.n(24, 200))
    probing = probe_runs(ctx, ctx.n(64, 600))
    PB_ORIGIN[0] = None
    # op-by-op tie of model/ProbeBudget.v: the histories projected from the system runs and the probe scenarios above
    ps, probebudget = pb_runs(ctx)
    builder = builder_runs(ctx, ctx.n(4000, 60000))
    closing = close_rounds(ctx)
    # builder MODEL <-> QuicPacketBuilder on flight-shaped histories + the statement of flight_le_budget as oracle
    fs = flight_suite(ctx)
    fl_cases = corr.load_corpus("C08", fs.name) + fl_gen(rng, ctx.n(2500, 40000))
    # builder sessions recorded from the real connections of the system runs: the discipline assumed by the flight theorems is
    # checked on what connection.py really does, and the sessions go through the model tie and the oracle as well
    sessions = [c for c in BUILDER_SESSIONS if c["cfg"]["mf"] is not None]
    del BUILDER_SESSIONS[:]
    real = {"sessions": len(sessions), "ops": sum(len(c["ops"]) for c in sessions), "undisciplined": 0, "in_flight_packets": 0,
            "budget_below_datagram": sum(1 for c in sessions if c["cfg"]["mf"] < c["cfg"]["mds"])}
    for c in sessions:
        _, disc, disc3, _fl, npk = _fl_eval(c)
        real["in_flight_packets"] += npk
        if not (disc and disc3):
            real["undisciplined"] += 1
            if real["undisciplined"] == 1:
                ctx.violation("correspondence", "hypothesis of flight_le_budget fails on real traffic: a datagrams_to_send call drove the "
                              "packet builder outside the caller discipline (BuilderFlight.fl_disciplined)", {"builderflight": c},
                              signature={"rule": "caller_discipline", "level": "connection"})
    step = max(1, len(sessions) // ctx.n(1500, 20000))
    fl_cases += sessions[::step]
    fl_hist = {"disciplined": 0, "one_byte_ack_only": 0, "undisciplined": 0, "with_budget": 0, "budget_below_datagram": 0,
               "in_flight_packets": 0, "budget_exactly_used": 0}
    for c in fl_cases:
        _, disc, disc3, fl, npk = _fl_eval(c)
        fl_hist["disciplined" if disc and disc3 else "one_byte_ack_only" if disc else "undisciplined"] += 1
        fl_hist["in_flight_packets"] += npk
        if c["cfg"]["mf"] is not None:
            fl_hist["with_budget"] += 1
            fl_hist["budget_below_datagram"] += int(c["cfg"]["mf"] < c["cfg"]["mds"])
            fl_hist["budget_exactly_used"] += int(disc and fl == c["cfg"]["mf"] > 0)
    try:
        fs.run(fl_cases)
    except core.BuildError as e:      # the builder model does not build against this tree: the oracle still runs
        core.log("C08 builder model not runnable (%s): implementation oracle only" % (str(e)[:200],))
        for c in fl_cases:
            badc = fl_oracle(c)
            if badc:
                ctx.violation("impl-violation", "builderflight: " + badc[0], {"builderflight": c}, signature=badc[1])
                break
    return corr.merge_coverage(
        [s, fs, ps],
        "op histories on the real QuicPacketRecovery (3 spaces, reno and cubic alternating): sends with all flag "
        "combinations, ack range sets with gaps / never-sent / already-acked / repeated numbers, loss timer and PTO "
        "firings at, after and before get_loss_detection_time, discards with packets in flight, reschedule_data, "
        "pacer calls; plus small-scope exhaustive (3 packets quick / <=4 thorough x all ack subsets x tails). "
        "distinct = distinct model expression; non-trivial = at least one send followed by an ack/timeout/discard",
        {"exhaustive_small_scope": skipped < len(rnd) + len(lng) or skipped == 0, "exhaustive_cases": len(ex),
         "cases_skipped_by_time_guard": skipped, "system_tie": system, "builder_flight_budget": builder,
         "builder_model_tie": fl_hist, "builder_sessions_of_real_connections": real, "close_round": closing,
         "probe_allowance": probing, "probebudget_tie": probebudget,
         "generated": {"exhaustive": len(ex), "random": len(rnd), "long": len(lng)}})


def replay(ctx, rep):
    s = suite(ctx)
    case = rep["case"]
    if isinstance(case, dict) and "builder" in case:
        sizes, packets, frames = bd_run(case["builder"])
        case["builder"].pop("_payload", None)
        return {"builder": {"oracle": bd_oracle(case["builder"]), "datagrams": sizes,
                            "packets": [(p.packet_type.name, p.packet_number, p.sent_bytes, int(p.in_flight),
                                         int(p.is_ack_eliciting), frames.get(p.packet_number)) for p in packets]}}
    if isinstance(case, dict) and ("builderflight" in case or "cfg" in case):
        c = case.get("builderflight", case)
        fs = flight_suite(ctx)
        try:
            d, e, g = fs.disagree(c)
        except Exception as ex:
            d, e, g = None, None, repr(ex)
        return {"builderflight": {"disagree": d, "impl": e, "model": g, "oracle": fl_oracle(c)}}
    if isinstance(case, dict) and "close_round" in case:
        p = case["close_round"]
        return {"close_round": dict(zip(("in_flight_added", "room", "bytes_in_flight", "cwnd"), close_round_run(p["cc"], p["mds"])))}
    if isinstance(case, dict) and "sim" in case:
        p = case["sim"]
        log, st = sim_run(p["seed"], p["cc"], p["loss"], p["nbytes"], extra=p.get("extra", False))
        return {"system": {"violations": log[:10], "stats": st}}
    if isinstance(case, dict) and "origin" in case and "ops" in case:
        # a probebudget case: re-run the scenario it was projected from, project again, compare with the model
        org = case["origin"] or {}
        del PB_HISTORIES[:]
        PB_ORIGIN[0] = org
        if "probe" in org:
            probe_run(org["probe"])
        elif "sim" in org:
            p = org["sim"]
            sim_run(p["seed"], p["cc"], p["loss"], p["nbytes"], extra=p.get("extra", False))
        cases, _ = pb_chunks(list(PB_HISTORIES))
        del PB_HISTORIES[:]
        ps = pb_suite(ctx)
        out = []
        for c in cases:
            d, e, g = ps.disagree(c)
            if d or pb_oracle(c):
                out.append({"chunk": c["chunk"], "impl": e, "model": g, "oracle": pb_oracle(c)})
        return {"probebudget": {"cases": len(cases), "bad": out[:5], "stored_case_oracle": pb_oracle(case)}}
    if isinstance(case, dict) and "probe" in case:
        log, st = probe_run(case["probe"])
        return {"probe": {"violations": log[:10], "stats": st}}
    if not isinstance(case, dict):
        return {"error": "case was truncated when it was stored; not replayable"}
    d, e, g = s.disagree(case)
    return {"recovery": {"disagree": d, "impl": e, "model": g, "oracle": rc_oracle(case)}}
