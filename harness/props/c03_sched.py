"""C03 tls-sched: adversary-scheduled runs against real tls.Context objects, judged by the two-party theorems
(coq/props/C03.v both_complete_agree / client_completes_only_with_authentic_peer), coded directly.

Two honest sessions A and B of the SAME server identity (client A, server A, client B, server B: four real Contexts).
A Dolev-Yao-lite network: everything an endpoint emits goes to the adversary's pool; nothing is delivered unless the
adversary does it.  Its moves (drawn from the case's seed): forward the oldest undelivered message of a link, deliver a
LATER message first (reorder), deliver an already delivered message again (replay), drop, inject a message of the OTHER
session (cross-connection), truncate (a prefix, the rest possibly later), flip one byte.  As in QuicConnection an endpoint
that raised an Alert is closed; an endpoint that raised anything else keeps running (and the escape is recorded).

Oracle (independent of the model): every client that reaches CLIENT_POST_HANDSHAKE must have a MATCHING server among the
two - one whose handshake and 1-RTT secrets emitted so far are exactly the client's with the directions mirrored, and
that reports the same cipher suite, ALPN, resumption flag and early-data verdict; if that server completed too, the key
logs mirror completely.  (Completing with the other session's server is legitimate: same certificate / ticket store.)"""
import random

from props import c03_tls

SUITE = "tls-sched"
CONFIGS = dict(c03_tls.TAMPER_CONFIGS)
CONFIG_NAMES = ["A", "B", "C", "D", "E", "G"]
MOVES = (("forward", 62), ("reorder", 8), ("replay", 8), ("drop", 5), ("cross", 8), ("truncate", 4), ("flip", 5))


def sched_cases(rng, tier):
    n = 600 if tier == "quick" else 6000
    cases = [{"suite": SUITE, "cfg": name, "seed": 0, "honest": True} for name in CONFIG_NAMES]     # controls: forwarder only
    # controls: forwarder that cross-wires the sessions (client A <-> server B, client B <-> server A): legitimate completion
    cases += [{"suite": SUITE, "cfg": name, "seed": 0, "honest": True, "swap": True} for name in CONFIG_NAMES]
    for i in range(n):
        cases.append({"suite": SUITE, "cfg": CONFIG_NAMES[i % len(CONFIG_NAMES)], "seed": rng.randrange(1 << 30)})
    return cases


def _pick(rng):
    x = rng.randrange(sum(w for _, w in MOVES))
    for name, w in MOVES:
        if x < w:
            return name
        x -= w
    return "forward"


class _End(object):
    def __init__(self, ctx, info, role, sess):
        self.ctx, self.info, self.role, self.sess = ctx, info, role, sess
        self.closed = None
        self.escaped = None


def sched_run(case):
    tls = c03_tls._tls()
    cfg = CONFIGS[case["cfg"]]
    rng = random.Random(case["seed"])
    ends = {}
    for sess in ("A", "B"):
        c, s, info = c03_tls.t_make_pair(cfg)
        ends[sess, "c"] = _End(c, info, "c", sess)
        ends[sess, "s"] = _End(s, info, "s", sess)
    order = (tls.Epoch.INITIAL, tls.Epoch.HANDSHAKE, tls.Epoch.ONE_RTT)
    # link (sess, to_role) -> messages emitted for it, and how many were forwarded in order so far
    links = {(sess, to): [] for sess in ("A", "B") for to in ("c", "s")}
    nxt = {k: 0 for k in links}
    delivered = {k: [] for k in links}
    moves = []

    def call(key, data):
        e = ends[key]
        if e.closed is not None:
            return
        bufs = c03_tls._bufs()
        try:
            e.ctx.handle_message(data, bufs)
        except tls.Alert as ex:
            e.closed = type(ex).__name__
            return
        except Exception as ex:  # noqa: BLE001
            e.escaped = type(ex).__name__
            return
        to = (key[0] if not case.get("swap") else ("B" if key[0] == "A" else "A"), "s" if key[1] == "c" else "c")
        for ep in order:
            data_out = bytes(bufs[ep].data)
            try:
                for m in c03_tls._split(data_out):
                    links[to].append(m)
            except Exception:  # noqa: BLE001
                pass

    call(("A", "c"), b"")
    call(("B", "c"), b"")
    honest = bool(case.get("honest"))
    for _step in range(60):
        pending = [k for k in links if nxt[k] < len(links[k])]
        if not pending and (honest or _step > 40):
            break
        move = "forward" if honest else _pick(rng)
        if move == "forward" or not any(delivered.values()):
            if not pending:
                continue
            k = pending[0] if honest else rng.choice(sorted(pending))
            m = links[k][nxt[k]]
            nxt[k] += 1
            delivered[k].append(m)
            moves.append(("forward", k, m[0]))
            call(k, m)
            continue
        if move == "drop":
            if pending:
                k = rng.choice(sorted(pending))
                nxt[k] += 1
                moves.append(("drop", k, links[k][nxt[k] - 1][0]))
            continue
        if move == "reorder":
            later = [k for k in pending if nxt[k] + 1 < len(links[k])]
            if later:
                k = rng.choice(sorted(later))
                i = rng.randrange(nxt[k] + 1, len(links[k]))
                moves.append(("reorder", k, links[k][i][0]))
                call(k, links[k][i])
            continue
        pool = [(k, m) for k in sorted(links) for m in links[k][:max(nxt[k], 1)] if m]
        if not pool:
            continue
        (sk, m) = rng.choice(pool)
        if move == "replay":
            target = sk
        elif move == "cross":
            target = ("B" if sk[0] == "A" else "A", sk[1])
        else:
            target = rng.choice(sorted(links))
        if move == "truncate":
            m = m[:rng.randrange(1, max(2, len(m)))]
        elif move == "flip":
            p = rng.randrange(len(m))
            m = m[:p] + bytes([m[p] ^ (1 << rng.randrange(8))]) + m[p + 1:]
        moves.append((move, target, m[0]))
        call(target, m)

    def view(e):
        ctx = e.ctx
        ks = ctx.key_schedule
        sec = e.info["secrets_c" if e.role == "c" else "secrets_s"]
        return {
            "state": ctx.state.name, "closed": e.closed, "escaped": e.escaped,
            "complete": ctx.state in (tls.State.CLIENT_POST_HANDSHAKE, tls.State.SERVER_POST_HANDSHAKE),
            "suite": None if ks is None else int(ks.cipher_suite),
            "alpn": ctx.alpn_negotiated, "resumed": bool(ctx.session_resumed), "early": bool(ctx.early_data_accepted),
            "secrets": [list(x) for x in sec],
        }

    obs = {"moves": len(moves), "kinds": sorted(set(mv[0] for mv in moves)),
           "ends": {"%s%s" % k: view(e) for k, e in ends.items()}}
    return obs


def _mirror(secrets):
    flip = {"E": "D", "D": "E"}
    return set((flip[d], ep, cs, sec) for d, ep, cs, sec in secrets if ep in ("HANDSHAKE", "ONE_RTT"))


def sched_oracle(case, obs):
    """-> None or (what, signature)"""
    ends = obs["ends"]
    for ck in ("Ac", "Bc"):
        c = ends[ck]
        if not c["complete"]:
            continue
        cset = set((d, ep, cs, sec) for d, ep, cs, sec in c["secrets"] if ep in ("HANDSHAKE", "ONE_RTT"))
        match = None
        for sk in ("As", "Bs"):
            s = ends[sk]
            m = _mirror(s["secrets"])
            if len(m) >= 3 and m <= cset and (not s["complete"] or m == cset):
                match = sk
                break
        if match is None:
            return ("client %s completed without a matching server (no server holds its secrets)" % ck,
                    {"oracle": "sched-no-matching-server", "cfg": case["cfg"]})
        s = ends[match]
        for f in ("suite", "alpn", "resumed", "early"):
            if c[f] != s[f]:
                return ("client %s and its matching server %s disagree on %s: %r / %r" % (ck, match, f, c[f], s[f]),
                        {"oracle": "sched-disagree", "field": f, "cfg": case["cfg"]})
    # this adversary holds no key at all, so it cannot finish a handshake itself: a server that completed did so with one
    # of the two honest clients, which completed with exactly its secrets
    for sk in ("As", "Bs"):
        s = ends[sk]
        if not s["complete"]:
            continue
        m = _mirror(s["secrets"])
        if not any(ends[ck]["complete"] and m == set((d, ep, cs, sec) for d, ep, cs, sec in ends[ck]["secrets"]
                                                     if ep in ("HANDSHAKE", "ONE_RTT")) for ck in ("Ac", "Bc")):
            return ("server %s completed but no honest client completed with its secrets (keyless adversary)" % sk,
                    {"oracle": "sched-server-completed-alone", "cfg": case["cfg"]})
    if case.get("honest"):
        for k in ("Ac", "As", "Bc", "Bs"):
            if not ends[k]["complete"] and not (case["cfg"] == "G"):
                return ("forwarder-only run did not complete on %s" % k, {"oracle": "sched-honest-run-failed", "cfg": case["cfg"]})
    return None


def sched_suite(ctx, rng):
    cases = sched_cases(rng, ctx.tier)
    stats = {"cases": 0, "client_completions": 0, "both_complete": 0, "cross_session_completions": 0, "closed_endpoints": 0,
             "escaped": {}, "moves": {}}
    keep = []
    for case in cases:
        try:
            obs = sched_run(case)
        except Exception as ex:  # noqa: BLE001   (e.g. the priming handshake for a ticket fails: reported by tls-matrix)
            stats["setup_failed"] = stats.get("setup_failed", 0) + 1
            stats.setdefault("setup_exceptions", {})
            stats["setup_exceptions"][type(ex).__name__] = stats["setup_exceptions"].get(type(ex).__name__, 0) + 1
            continue
        stats["cases"] += 1
        for k in obs["kinds"]:
            stats["moves"][k] = stats["moves"].get(k, 0) + 1
        ends = obs["ends"]
        for ck, sk, ok in (("Ac", "As", "Bs"), ("Bc", "Bs", "As")):
            if ends[ck]["complete"]:
                stats["client_completions"] += 1
                if ends[sk]["complete"]:
                    stats["both_complete"] += 1
                cset = set(tuple(x) for x in ends[ck]["secrets"])
                if not (_mirror(ends[sk]["secrets"]) <= cset) and _mirror(ends[ok]["secrets"]) <= cset:
                    stats["cross_session_completions"] += 1
        for e in ends.values():
            if e["closed"]:
                stats["closed_endpoints"] += 1
            if e["escaped"]:
                stats["escaped"][e["escaped"]] = stats["escaped"].get(e["escaped"], 0) + 1
        bad = sched_oracle(case, obs)
        if bad:
            what, sig = bad
            ctx.violation("impl-violation", "tls-sched: " + what, case, signature=sig)
        if len(keep) < 40:
            keep.append((case, {"moves": obs["moves"], "kinds": obs["kinds"],
                                "states": {k: v["state"] for k, v in ends.items()}}))
    return {SUITE: stats, "_obs": keep}


def sched_replay(ctx, case):
    c03_tls.t_env()
    obs = sched_run(case)
    return {"case": case, "obs": obs, "oracle": sched_oracle(case, obs)}
