"""C05  Network input can never make the QUIC/TLS API raise.

Real QuicConnection endpoints (harness/sim) in every coarse state, fed by
  (a) random / mutated-genuine / coalesced / header-grammar datagrams,
  (b) correctly protected packets (peer puppet) carrying grammar-generated frames: every type x
      boundary values x truncation at every byte x repetition, in every epoch with keys,
  (c) structurally valid hostile TLS messages (ClientHello / ServerHello built with Initial keys,
      EncryptedExtensions / Certificate / CertificateVerify / Finished substituted into the real
      server flight, post-handshake messages).
Implementation oracle (independent of the model): no exception escapes receive_datagram /
datagrams_to_send / get_timer / handle_timer / next_event until ConnectionTerminated, and a close
initiated by the endpoint carries a code of QuicErrorCode (or CRYPTO_ERROR + TLS alert).
Tie: coq/model/ConnRecv.v (extracted) is run on the same decrypted payloads with the abstract
state snapshot taken from the real connection just before the packet; compared: outcome kind,
close error code and frame type (from the ConnectionTerminated event / the CONNECTION_CLOSE on the
wire), number of frames logged in qlog packet_received.frames; and the header decision function
against qlog packet_dropped triggers.
Round s05: path games (harness/props/c05_paths.py) -- the network-path table built up by long histories of migrations and
PATH_CHALLENGE / PATH_RESPONSE validations from up to 20 source addresses, then one more packet; no-raise oracle + table oracle;
coq/model/ConnPaths.v (exec_paths) compared with the real table after every receive / transmit call."""
import collections
import json
import os

from vlib import core, corr
from props import c05_tlsmsg
from props import c05_paths

GENERATORS = ["c05_tables", "c05_tls", "c05_paths", "c05_epochs"]
DEPENDS = ["Frames", "ConnRecv", "FramesP", "ConnRecvP", "C05Tables(gen)", "StreamRecv", "RangeSet", "Base", "Tok", "C05",
           "TlsParse", "TlsRecv", "TlsParseP", "TlsRecvP", "TlsSitesP", "C05Tls(gen)", "TlsDispatch(gen)", "Codec", "TlsCodec",
           "ConnDgram", "ConnDgramP", "ConnClose", "ConnCloseP", "AfterCloseP", "Header", "HeaderProofs", "Varint", "Builder",
           "BuilderProofs", "C13Consts(gen)", "Timers", "TimersSpec", "TimersP", "ConnPaths", "ConnPathsP", "C05Paths(gen)",
           "ConnEpochs", "ConnEpochsP", "C05Epochs(gen)"]
TRUSTED_BASE = [
    "extraction (ExtrOcamlBasic only; Z kept inductive) + coq/extract/driver.ml for running the model",
    "tools/gen/c05_tables.py (ast reader of __frame_handlers / enums; output is compared with the running "
    "connection's behaviour by the correspondence, and the Inductive it emits must be matched exhaustively by the model)",
    "harness/sim (real QuicConnection pairs, wire observer, peer puppet) and harness/props/c05.py "
    "(state snapshot through private attributes, outcome classification, implementation oracle)",
    "modelled, not verified: connection.py receive path below packet protection, packet.py/_buffer.c readers "
    "used by it; handler effects on loss recovery / events / sender halves are outside the model",
    "TLS message layer (coq/model/TlsParse.v, TlsRecv.v): cryptography / X.509 / service_identity / OpenSSL and the "
    "application callbacks are oracle fields (value or exception class per call); which classes those libraries raise is "
    "an observed list, checked by the tlsmsg tie on every explored input (an unlisted class shows as a disagreement); "
    "tools/gen/c05_tls.py + gen/TlsDispatch.v (ast readers) pin enums, dictionaries, default lists, the dispatch table and "
    "the raise-site skeleton of tls.py; harness/props/c05_tlsmsg.py reads the Context's private attributes and wraps "
    "tls.decode_public_key / tls.verify_certificate / Context._handle_reassembled_message to record oracle answers",
    "network-path table (coq/model/ConnPaths.v): tools/gen/c05_paths.py (ast reader: MAX_NETWORK_PATHS, the eviction / promotion "
    "indices, the source listing of every statement that touches _network_paths or a validation flag); the verdict of each packet "
    "(epoch, probing, newest, which challenge a PATH_RESPONSE matched) is model INPUT recorded by harness/props/c05_paths.Recorder "
    "through instance-level wrappers around receive_datagram / datagrams_to_send / connect / _payload_received and the qlog "
    "path-frame encoders; the table oracle peeks at _network_paths (labelled, trusted harness code)",
    "epoch-keyed tables (coq/model/ConnEpochs.v): tools/gen/c05_epochs.py (ast reader: the keys _initialize creates, "
    "_discard_epoch's body as a statement list the model interprets, the output_buf[Epoch.X] subscripts and Epoch.X call "
    "arguments of tls.py, the listing of every statement / expression of connection.py that mentions one of the four dicts and "
    "of every call of _initialize / _discard_epoch / _push_crypto_data / _close_end); the model is not extracted: its "
    "prediction (theorem epoch_tables_total: the key lists of the four dicts stay the ones _initialize created) is compared "
    "with the subject connection's dicts at the end of every oracle world (labelled peeks, trusted harness code); which "
    "output buffers / traffic keys the TLS engine touches per call is over-approximated by ANY sub-list of the generated lists",
    "frame-layer model (ConnRecv.v) calls TlsRecv.crypto_deliver below the CRYPTO handler; in the frames tie the oracle records "
    "of the TLS layer are recorded from the real connection's tls.Context (c05_tlsmsg.Recorder; the transport-parameter verdict "
    "is the QuicConnectionError of the real _alpn_handler)",
]
ASSUMPTIONS = [
    "tls_handle_message_total: wf_cfg (every advertised signature algorithm is Ed25519, Ed448 or a key of SIGNATURE_ALGORITHMS: "
    "Example wf_cfg_default_client/server for the generated defaults) and wf0 (fresh client, or the invariant wf_ctx that the "
    "theorem itself re-establishes); patched = tree with docs/C05-fix-7.patch -- refuted for the tree as it is (T8, T9)",
    "a Context that raised an Alert is dead: the connection closes and never feeds it again (receive_datagram returns on _close_pending)",
    "local configuration is not network input: certificate chain / handshake extensions fit the 4096-byte crypto buffers, the local "
    "private key can sign with the negotiated algorithm, application callbacks (session ticket fetcher / handler) return",
    "receive_total_tls: tls_ok (c_tls st) = wf_cfg + wf0 of the connection's tls.Context (the hypotheses of tls_handle_message_total; "
    "re-established by the theorem itself for the state after the packet); no hypothesis about the TLS engine's answers is left",
    "AEAD/header protection are outside (C02): decrypt_packet is an oracle per packet answering KeyUnavailableError / CryptoError / ANY plaintext; "
    "receive_datagram_total quantifies over all answers",
    "receive_datagram_total: dconn_ok = tls_ok + (_initialize() has run, or server in FIRSTFLIGHT) + (no _close_event while the gate is open): "
    "Example dconn_ok_example; a client must have called connect() (API discipline, as in C09's first_op)",
    "path_datagram_total / path_run_total: tab_ok (len(_network_paths) <= MAX_NETWORK_PATHS, no path object twice): Example tab_ok_example; "
    "re-established by the theorems themselves from connect() / the server's first flight; network_path_update_total has no hypothesis",
    "after_close_send_total: wf_cfg (lengths >= 0), crypto_fits (max_datagram_size <= 1500, the CryptoPair's scratch buffers), close event with "
    "0 <= code, frame type < 2^62: Example close_send_hyps; holds for the tree with docs/C05-fix-10.patch (26d6ec4), refuted before (after_close_refuted)",
]

EXN = {"AssertionError": 1, "IndexError": 2, "KeyError": 3, "UnicodeDecodeError": 4, "ValueError": 5, "TypeError": 6,
       "AttributeError": 7, "CertificateError": 8}
EPOCH_NUM = {"initial": 0, "0rtt": 1, "handshake": 2, "1rtt": 3}
V1 = 1
V2 = 0x6B3343CF
RETRY_SCID = bytes(range(0x60, 0x68))


# ------------------------------------------------------------------------------------------
# tolerance of the harness' own code (round s05c).  Two rules:
#  * a LABELLED PEEK at private state of the implementation (snapshot for the model ties, table oracle) never raises: a
#    missing key / attribute / index becomes the distinguished token MISSING (a missing list: length MISSING), so that a
#    changed private layout shows up as a model/impl disagreement (or as nothing, when the model does not depend on it) and
#    never stops the search;
#  * an exception raised INSIDE HARNESS CODE while one case / one world is being run is recorded as a harness problem of
#    that case (kind "harness", once per exception class and harness site, counted in the evidence) and the run goes on
#    with the next case: the search for a concrete failing input is never cut short by the harness itself.
MISSING = -1
PEEK_MISSES = collections.Counter()
HARNESS_PROBLEMS = collections.Counter()
_HARNESS_CTX = [None]
_FAILED = set()
FAILED = ("HARNESS-FAILED",)
_PEEK_EXC = (KeyError, AttributeError, IndexError, TypeError, ValueError)


def peek(f, default=MISSING, label=None):
    """labelled peek: f() or the distinguished token"""
    try:
        return f()
    except _PEEK_EXC as e:
        PEEK_MISSES[label or ("%s(%s)" % (type(e).__name__, str(e)[:40]))] += 1
        return default


def peek_list(f, label=None):
    """[len] + items of a private list, or [MISSING] when it cannot be read"""
    try:
        xs = [int(x) for x in f()]
    except _PEEK_EXC as e:
        PEEK_MISSES[label or ("%s(%s)" % (type(e).__name__, str(e)[:40]))] += 1
        return [MISSING]
    return [len(xs)] + xs


def _harness_site(exc):
    """(file, function, line) of the innermost traceback frame, and whether it lies in the implementation"""
    tb = exc.__traceback__
    last = None
    while tb is not None:
        last = tb
        tb = tb.tb_next
    if last is None:
        return "?", False
    co = last.tb_frame.f_code
    fn = co.co_filename
    in_impl = "aioquic" in fn and "/harness/" not in fn
    return "%s:%s:%d" % (os.path.basename(fn), co.co_name, last.tb_lineno), in_impl


def harness_problem(suite, case, exc):
    """An exception inside harness code while running ONE case: recorded (once per class + site as a violation of kind
    "harness", always counted), the run continues."""
    import traceback
    site, in_impl = _harness_site(exc)
    key = "%s/%s@%s" % (suite, type(exc).__name__, site)
    HARNESS_PROBLEMS[key] += 1
    ctx = _HARNESS_CTX[0]
    if ctx is None or HARNESS_PROBLEMS[key] > 1:
        return
    try:
        small = corr._short(case, 4000)
    except Exception:
        small = repr(case)[:2000]
    ctx.violation("harness", "%s: harness code raised %r for this case (innermost frame %s%s); the case is skipped, the run "
                  "continues" % (suite, exc, site, ", inside the implementation, reached by a direct harness call" if in_impl else ""),
                  small, signature={"harness_exception": type(exc).__name__, "site": site, "suite": suite},
                  extra={"traceback": "".join(traceback.format_exception(type(exc), exc, exc.__traceback__))[-3000:]}, no_input=True)


def tolerant(suite):
    """decorator for the observe functions of the ties: returns FAILED (and remembers it) when harness code raises"""
    def deco(f):
        def g(case, *a, **kw):
            try:
                k = suite + ":" + _key(case)
            except Exception:
                k = None
            if k is not None and k in _FAILED:
                return FAILED
            try:
                return f(case, *a, **kw)
            except core.BuildError:
                raise
            except Exception as e:  # noqa: BLE001 -- harness failure for this case only
                harness_problem(suite, case, e)
                if k is not None:
                    if len(_FAILED) > 20000:
                        _FAILED.clear()
                    _FAILED.add(k)
                return FAILED
        g.__name__ = getattr(f, "__name__", "observe")
        g.__doc__ = f.__doc__
        return g
    return deco


def guarded_world(suite, case, f):
    """run one world f(); a harness exception is recorded for `case` (a dict or a callable returning it); -> f() or None"""
    try:
        return f()
    except core.BuildError:
        raise
    except Exception as e:  # noqa: BLE001
        try:
            c = case() if callable(case) else case
        except Exception:
            c = None
        harness_problem(suite, c, e)
        return None


class _CtxProxy:
    """ctx as seen by a TSuite: a `correspondence` report whose case FAILS the property oracle itself (the suite's oracle is
    de-duplicated per signature over the whole run, so corr.Suite sees "oracle passes" for the 2nd, 3rd ... input of a class
    that has already been reported as impl-violation) is not a model/impl disagreement with no failing input: it is counted as
    a further input of the reported class instead of being mislabelled."""

    def __init__(self, ctx, suite):
        self.__dict__["_ctx"], self.__dict__["_suite"] = ctx, suite

    def __getattr__(self, k):
        return getattr(self._ctx, k)

    def __setattr__(self, k, v):
        setattr(self._ctx, k, v)

    def violation(self, kind, what, case, signature=None, extra=None, no_input=False):
        raw = getattr(self._suite, "raw_oracle", None)
        if kind == "correspondence" and raw is not None and isinstance(case, dict):
            try:
                bad = raw(case)
            except Exception:  # noqa: BLE001
                bad = None
            if bad:
                self._suite.dup_of_reported[json.dumps(bad[1], sort_keys=True)] += 1
                return False
        return self._ctx.violation(kind, what, case, signature=signature, extra=extra, no_input=no_input)


class TSuite(corr.Suite):
    """corr.Suite whose cases may fail inside harness code: those are recorded by `observe` (tolerant) and left out of the
    comparison; shrinking never aborts on them."""

    def __init__(self, *a, observe=None, **kw):
        corr.Suite.__init__(self, *a, **kw)
        self.ctx = _CtxProxy(self.ctx, self)
        self.observe = observe
        self.harness_failed = 0
        self.raw_oracle = None
        self.dup_of_reported = collections.Counter()

    def _failed(self, case):
        try:
            return self.observe is not None and self.observe(case) is FAILED
        except core.BuildError:
            raise
        except Exception as e:  # noqa: BLE001
            harness_problem(self.name, case, e)
            return True

    def disagree(self, case):
        if self._failed(case):
            return False, None, None
        try:
            return corr.Suite.disagree(self, case)
        except core.BuildError:
            raise
        except Exception as e:  # noqa: BLE001
            harness_problem(self.name, case, e)
            return False, None, None

    def run(self, cases, label=""):
        good = [c for c in cases if not self._failed(c)]
        self.harness_failed += len(cases) - len(good)
        return corr.Suite.run(self, good, label)


# ------------------------------------------------------------------------------------------
# byte helpers (own encoders: nothing from aioquic's parsers is used to build hostile input)
def varint(v, size=None):
    if size is None:
        size = 1 if v < 64 else 2 if v < 16384 else 4 if v < (1 << 30) else 8
    tag = {1: 0, 2: 1, 4: 2, 8: 3}[size]
    return ((tag << (8 * size - 2)) | v).to_bytes(size, "big")


def tls_msg(t, body):
    return bytes([t]) + len(body).to_bytes(3, "big") + body


def tls_ext(t, body):
    return t.to_bytes(2, "big") + len(body).to_bytes(2, "big") + body


def split_tls(data):
    out = []
    while len(data) >= 4:
        n = 4 + int.from_bytes(data[1:4], "big")
        if len(data) < n:
            break
        out.append(data[:n])
        data = data[n:]
    return out, data


def build_long(ptype, dcid, scid, payload, *, keycid, is_client, pn=0, version=V1, token=b"", reserved=0,
               fixed=True, pn_len=2, length_override=None):
    """Initial-key protected long-header packet (keys are derivable from the DCID by anybody)."""
    from aioquic.quic.crypto import CryptoPair
    cp = CryptoPair()
    cp.setup_initial(cid=keycid, is_client=is_client, version=version if version in (V1, V2) else V1)
    if len(payload) + pn_len < 4:
        payload = payload + bytes(4 - pn_len - len(payload))
    tbits = ({0: 1, 1: 2, 2: 3, 3: 0} if version == V2 else {0: 0, 1: 1, 2: 2, 3: 3})[ptype]
    first = 0x80 | (0x40 if fixed else 0) | (tbits << 4) | ((reserved & 3) << 2) | (pn_len - 1)
    hdr = bytes([first]) + version.to_bytes(4, "big") + bytes([len(dcid)]) + dcid + bytes([len(scid)]) + scid
    if ptype == 0:
        hdr += varint(len(token)) + token
    length = pn_len + len(payload) + 16 if length_override is None else length_override
    hdr += varint(length, 2 if length < 16384 else 4) + (pn & ((1 << (8 * pn_len)) - 1)).to_bytes(pn_len, "big")
    return cp.encrypt_packet(hdr, payload, pn)


# ------------------------------------------------------------------------------------------
# frame grammar
B62 = (1 << 62) - 1
BOUND = [0, 1, 2, 3, 4, 5, 7, 8, 63, 64, 100, 1000, 16383, 16384, 65535, 65536, 1 << 20, (1 << 20) + 1, (1 << 30) - 1,
         1 << 30, (1 << 32), (1 << 60) - 1, 1 << 60, (1 << 60) + 1, B62 - 1, B62]


class Gen:
    def __init__(self, rng):
        self.rng = rng

    def v(self, small=False):
        r = self.rng
        x = r.random()
        if small or x < 0.45:
            return r.choice([0, 1, 2, 3, 4, 5, 6, 7, 8, 9, 10, 11, 12, 16, 20, 40, 63])
        if x < 0.85:
            return r.choice(BOUND)
        return r.randrange(B62 + 1)

    def vi(self, v=None, small=False):
        """a varint, sometimes in a non-minimal encoding"""
        v = self.v(small) if v is None else v
        r = self.rng
        if r.random() < 0.15:
            sizes = [s for s in (1, 2, 4, 8) if v < (1 << (8 * s - 2))]
            return varint(v, r.choice(sizes))
        return varint(v)

    def data(self, n=None):
        r = self.rng
        n = r.choice([0, 0, 1, 2, 3, 8, 17, 40]) if n is None else n
        return bytes(r.randrange(256) for _ in range(n))

    def sid(self):
        r = self.rng
        if r.random() < 0.8:
            return r.choice([0, 1, 2, 3, 4, 5, 6, 7, 8, 9, 10, 11, 12, 16, 400, 508, 509, 510, 511, 512, 513, 514, 515, 516])
        return self.v()

    def frame(self, ft=None):
        """One well-formed-by-grammar frame (semantically anything)."""
        r = self.rng
        if ft is None:
            ft = r.choice(FRAME_TYPES)
        t = varint(ft) if r.random() < 0.9 else varint(ft, r.choice([2, 4, 8]))
        if ft == 0x00:
            return t + bytes(r.choice([0, 1, 5, 30]))
        if ft == 0x01 or ft == 0x1E:
            return t
        if ft in (0x02, 0x03):
            n = r.choice([0, 0, 1, 2, 3, 10])
            declared = n if r.random() < 0.85 else self.v()
            b = t + self.vi() + self.vi() + self.vi(declared) + self.vi()
            for _ in range(n):
                b += self.vi(small=r.random() < 0.7) + self.vi(small=r.random() < 0.7)
            if ft == 0x03:
                b += self.vi() + self.vi() + self.vi()
            return b
        if ft == 0x04:
            return t + self.vi(self.sid()) + self.vi() + self.vi(r.choice([0, 1, 5, 100, 1 << 20, (1 << 20) + 1, self.v()]))
        if ft == 0x05:
            return t + self.vi(self.sid()) + self.vi()
        if ft == 0x06:
            d = self.data()
            off = r.choice([0, 0, 1, 4, 100, 1 << 19, (1 << 19) + 1, B62 - len(d), B62, self.v()])
            ln = len(d) if r.random() < 0.85 else self.v()
            return t + self.vi(off) + self.vi(ln) + d
        if ft == 0x07:
            d = self.data()
            return t + self.vi(len(d) if r.random() < 0.85 else self.v()) + d
        if 0x08 <= ft <= 0x0F:
            d = self.data()
            b = t + self.vi(self.sid())
            if ft & 4:
                b += self.vi(r.choice([0, 0, 1, 5, 1000, (1 << 20) - len(d), 1 << 20, B62 - len(d), B62, self.v()]))
            if ft & 2:
                b += self.vi(len(d) if r.random() < 0.85 else self.v())
            return b + d
        if ft in (0x10, 0x14):
            return t + self.vi()
        if ft in (0x11, 0x15):
            return t + self.vi(self.sid()) + self.vi()
        if ft in (0x12, 0x13, 0x16, 0x17):
            return t + self.vi(r.choice([0, 1, 100, (1 << 60) - 1, 1 << 60, (1 << 60) + 1, B62, self.v()]))
        if ft == 0x18:
            n = r.choice([8, 8, 8, 1, 20, 0, 21, 255])
            seq = r.choice([0, 1, 2, 3, 7, 8, 9, 10, 20, 100, self.v()])
            rpt = r.choice([0, 0, 1, seq, seq + 1, max(0, seq - 1), self.v()])
            cid = self.data(n if r.random() < 0.9 else r.choice([0, 3, 8]))
            tok = self.data(16 if r.random() < 0.9 else r.choice([0, 15, 17]))
            return t + self.vi(seq) + self.vi(min(rpt, B62)) + bytes([n]) + cid + tok
        if ft == 0x19:
            return t + self.vi(r.choice([0, 1, 2, 3, 7, 8, 9, 100, self.v()]))
        if ft in (0x1A, 0x1B):
            return t + self.data(8 if r.random() < 0.9 else r.choice([0, 7]))
        if ft in (0x1C, 0x1D):
            reason = r.choice([b"", b"bye", b"\xff\xfe\x80", bytes(range(200, 256)), b"x" * 300])
            b = t + self.vi()
            if ft == 0x1C:
                b += self.vi()
            return b + self.vi(len(reason) if r.random() < 0.85 else self.v()) + reason
        if ft == 0x30:
            return t + self.data(r.choice([0, 1, 10, 100]))
        if ft == 0x31:
            d = self.data(r.choice([0, 1, 10, 100]))
            return t + self.vi(len(d) if r.random() < 0.85 else self.v()) + d
        # unknown frame type
        return t + self.data()

    def unknown_type(self):
        r = self.rng
        return r.choice([0x1F, 0x20, 0x2F, 0x32, 0x3F, 0x40, 0xAF, 0x4000, 0xBABA, 1 << 30, B62, r.randrange(0x32, B62)])


FRAME_TYPES = list(range(0x00, 0x1F)) + [0x30, 0x31]


def gen_payloads(rng, n):
    """frame lists: single frames of every type with boundary fields, truncations at every byte,
    repetitions, mixes, unknown types, empty payloads."""
    g = Gen(rng)
    out = []
    # systematic part: every type, a few instances, every truncation point
    for ft in FRAME_TYPES:
        for _ in range(3):
            f = g.frame(ft)
            out.append([f])
            for k in range(0, len(f)):
                if len(out) < n * 2 and (k < 24 or rng.random() < 0.2):
                    out.append([f[:k]] if k else [])
    out.append([])
    for _ in range(6):
        out.append([varint(g.unknown_type()) + g.data()])
    while len(out) < n:
        x = rng.random()
        if x < 0.35:
            out.append([g.frame()])
        elif x < 0.55:
            f = g.frame()
            out.append([f] * rng.choice([2, 3, 5]))
        elif x < 0.85:
            out.append([g.frame() for _ in range(rng.randint(2, 6))])
        elif x < 0.93:
            fs = [g.frame() for _ in range(rng.randint(1, 3))]
            last = g.frame()
            fs.append(last[:rng.randrange(len(last) + 1)])
            out.append(fs)
        else:
            out.append([g.frame(), varint(g.unknown_type()) + g.data(), g.frame()])
    rng.shuffle(out)
    capped = []
    for fs in out[:n]:
        while sum(len(f) for f in fs) > 1300:
            fs = fs[:-1]
        capped.append(fs)
    return capped


# ------------------------------------------------------------------------------------------
# scenarios: a real connection pair brought into a coarse state, subject = endpoint under test
class Lab:
    """One case's world.  spec: {"side": subject side, "state": ..., "seed": int}"""

    def __init__(self, spec):
        import sim
        self.sim = sim
        self.spec = spec
        side, state, seed = spec["side"], spec["state"], spec["seed"]
        self.side, self.state = side, state
        peer = "server" if side == "client" else "client"
        self.peer_side = peer
        kw = dict(capture_exceptions=True)
        cfg = {"idle_timeout": 8.0}
        if spec.get("dgram", True):
            cfg["max_datagram_frame_size"] = 1200
        kw[side + "_config"] = cfg
        if spec.get("cert"):
            kw["cert"] = spec["cert"]
        if spec.get("server_versions"):
            kw["server_versions"] = list(spec["server_versions"])
        self.hp = None
        self.puppet = None
        self.genuine = None          # first genuine datagram of the pair's own client (first-flight states)
        self.ch_pkt = None
        rewrite = spec.get("rewrite")
        if state == "firstflight":
            self.pair = p = sim.Pair(seed, eager_server=(side == "server"), **kw)
            p.network.isolated.add("server")
            if side == "server":
                p.network.isolated.add("client")
            p.connect(pump=True)
            rec = [w for w in p.network.wire_log if w.direction == "c2s"][0]
            self.genuine = rec.data
            self.ch_pkt = p.observer.by_datagram[rec.index][0]
            p.network.muted.add(peer)
            p.network.isolated.add(peer)
        elif state == "handshake":
            if side == "client":
                # the client sees the ServerHello but none of the server's Handshake packets
                drop_hs = (lambda pkt: False if pkt.type == "handshake" else None)
                self.hp = sim.HalfPair.create(seed, puppet_side="server", rewrite=drop_hs, **kw)
                self.pair = p = self.hp.pair
                p.connect(pump=True)
                p.run(lambda q: False, max_time=0.05)
            else:
                self.pair = p = sim.Pair(seed, **kw)
                p.connect(pump=True)
                p.step()            # client Initial reaches the server, which answers
            p.network.muted.add(peer)
            p.network.isolated.add(peer)
            self.puppet = sim.Puppet(p, as_side=peer)
        elif state == "evilcert":
            # hostile server: its own (self-signed) certificate with many long subjectAltNames
            cert, key = evil_certificate(spec.get("sans", 1), spec.get("san_len", 5), spec.get("evil", "sans"))
            kw["server_config"] = {"certificate": cert, "private_key": key, "certificate_chain": []}
            self.pair = p = sim.Pair(seed, **kw)
        elif state == "rewrite":
            # real handshake in which the hidden server's flight is rewritten (client subject)
            self.hp = sim.HalfPair.create(seed, puppet_side=peer, rewrite=rewrite, **kw)
            self.pair = p = self.hp.pair
            self.puppet = self.hp.puppet
        elif state == "trail":
            # real handshake with the hidden real peer; in its packets of type spec["trail"]["ptype"] further frames are
            # placed AFTER the frame spec["trail"]["after"] (same packet, re-protected with the same number and keys)
            self.trail = make_trailing_rewrite(spec["trail"])
            self.hp = sim.HalfPair.create(seed, puppet_side=peer, rewrite=self.trail, **kw)
            self.pair = p = self.hp.pair
            self.puppet = self.hp.puppet
        elif state == "finishing":
            # one step before the end of the handshake: the hidden real peer's Handshake packets that carry CRYPTO (client:
            # its Finished; server: EncryptedExtensions .. Finished) are HELD BACK; the puppet can deliver them ("@held:..."
            # placeholders) together with anything else in the same packet
            self.held = held = []

            def hold(pkt):
                if pkt.type == "handshake" and any(f.name == "CRYPTO" for f in pkt.frames):
                    held.append([f for f in pkt.frames if f.name == "CRYPTO"])
                    return False
                return None
            self.hp = sim.HalfPair.create(seed, puppet_side=peer, rewrite=hold, **kw)
            self.pair = p = self.hp.pair
            p.connect(pump=True)
            p.run(lambda q: False, max_time=0.05)
            if not held:
                raise RuntimeError("finishing: the hidden %s sent no Handshake CRYPTO" % peer)
            p.network.muted.add(peer)
            p.network.isolated.add(peer)
            self.puppet = self.hp.puppet
        else:
            self.pair = p = sim.Pair(seed, **kw)
            if not p.handshake():
                raise RuntimeError("handshake failed in scenario setup")
            p.run_until_idle()
            subj = p.endpoint(side)
            if state == "keyupdated":
                subj.request_key_update()
                subj.send_ping(1)
                p.pump(subj)
                p.run_until_idle()
            self.puppet = sim.Puppet(p, as_side=peer)
            if not spec.get("live"):          # "live": the real peer stays on the network (path games: NAT rebinding)
                self.puppet.mute_real()
                p.network.isolated.add(peer)
            if state == "closing":
                subj.close(error_code=0, reason_phrase="bye")
                p.pump(subj)
            elif state == "draining":
                self.puppet.send_frames("1rtt", [b"\x1d" + varint(0) + varint(0)])
        self.subject = self.pair.endpoint(side)
        self.peer = self.pair.endpoint(peer)
        self.pg = None               # c05_paths.Game, created by the first path-game op

    # -- what the subject did ------------------------------------------------------------
    def raised(self):
        out = []
        for c in self.subject.raised:
            out.append({"api": c.name, "exception": c.exc_type, "site": exc_site(c.exc), "msg": str(c.exc)[:80]})
        return out

    def settle(self, max_time=40.0):
        """let timers run until the subject reports termination (or the time bound)"""
        subj = self.subject
        if subj.conn is None:
            return
        self.pair.run(lambda q: subj.terminated is not None, max_time=max_time, max_steps=3000)

    def sent_closes(self):
        """CONNECTION_CLOSE frames the subject put on the wire, from its own qlog (packet_sent); the wire
        observer is not used here because the subject may have switched to a peer CID of another length"""
        out = []
        for ev in self.subject.qlog_events():
            if ev["name"] == "transport:packet_sent":
                for f in ev["data"].get("frames", []):
                    if f.get("frame_type") == "connection_close":
                        out.append({"error_code": f.get("error_code"), "transport": f.get("error_space") == "transport"})
        return out

    # -- input ops -------------------------------------------------------------------------
    def peer_addr(self):
        return self.peer.addr

    def apply(self, op):
        k = op[0]
        p = self.pair
        if c05_paths.apply(self, op):      # path games: "path" / "rebind" / "peer"
            return
        if k == "dg":
            p.deliver_now(bytes.fromhex(op[1]), self.peer_addr(), self.subject)
        elif k == "dgx":
            p.deliver_now(bytes.fromhex(op[1]), ("10.9.9.9", 4444), self.subject)
        elif k == "pkt":
            opts = dict(op[3]) if len(op) > 3 else {}
            if op[2] == "@held:init":
                # every held packet but the last one, each as its own packet
                for i in range(len(self.held) - 1):
                    self.send_packet(op[1], self.resolve(["@held:%d" % i]), opts)
            else:
                self.send_packet(op[1], self.resolve(op[2].split(",")) if op[2].startswith("@") else bytes.fromhex(op[2]), opts)
        elif k == "long":
            # Initial-key protected long header packet built by build_long
            o = dict(op[2])
            self.send_long(bytes.fromhex(op[1]), o)
        elif k == "ch":        # ClientHello bytes -> fresh server, genuine CIDs
            ch = bytes.fromhex(op[1])
            self.send_long(b"\x06" + varint(0) + varint(len(ch)) + ch, {})
        elif k == "sh":        # ServerHello bytes -> client in first flight
            sh = bytes.fromhex(op[1])
            self.send_long(b"\x06" + varint(0) + varint(len(sh)) + sh, {})
        elif k == "retry":
            # ["retry", token_len, opts]: a Retry packet with a valid integrity tag (computable by anybody who saw the
            # client's Initial) and a token of token_len bytes, to a client in first flight; its SCID is RETRY_SCID
            self.send_retry(int(op[1]), dict(op[2]) if len(op) > 2 else {})
        elif k == "sh_nopump":  # ServerHello bytes -> client in first flight, datagrams_to_send() NOT called afterwards
            sh = bytes.fromhex(op[1])
            self.send_long(b"\x06" + varint(0) + varint(len(sh)) + sh, dict(op[2] if len(op) > 2 else {}, nopump=True))
        elif k == "ackgame":
            # ["ackgame", epoch, pn_mode, ack_mode, extra frames hex, opts]: a protected packet with a CHOSEN packet number
            # that acknowledges a packet the subject really sent (preferably one that itself carried an ACK frame)
            self.ack_game(op[1], op[2], op[3], bytes.fromhex(op[4]), dict(op[5]) if len(op) > 5 else {})
        elif k == "tls":
            self.puppet.send_tls_message(op[2], bytes.fromhex(op[3]), epoch=op[1])
        elif k == "adv":
            p.run(lambda q: False, max_time=float(op[1]), max_steps=2000)
        elif k == "api":
            getattr(self.subject, op[1])(*op[2:])
            p.pump(self.subject)
        elif k == "run":       # run the (rewritten) handshake
            p.connect(pump=True)
            subj = self.subject
            p.run(lambda q: subj.terminated is not None or subj.raised or subj.handshake_completed, max_time=6.0,
                  max_steps=3000)
        else:
            raise ValueError("unknown op %r" % (k,))

    def resolve(self, frames):
        """payload bytes of a frame list: hex strings, or placeholders that refer to the CRYPTO frames held back in a
        "finishing" world: @held:i / @held:all (the CRYPTO frames of the i-th / of every held packet), @fin_dup (the last
        held CRYPTO frame once more), @end_empty (zero-length CRYPTO at the end of the held data), @zero_empty (zero-length
        CRYPTO at offset 0), @end_new:HEX (new bytes after the held data), @end_overlap:N (the last N held bytes again),
        @end_far:HEX (bytes 100 beyond the end)"""
        from sim import F
        out = b""
        held = getattr(self, "held", None) or []
        allf = [f for pk in held for f in pk]
        end = max([f.fields["offset"] + len(f.fields["data"]) for f in allf] or [0])
        for fr in frames:
            if not fr.startswith("@"):
                out += bytes.fromhex(fr)
                continue
            name, _, arg = fr[1:].partition(":")
            if name == "held":
                pks = held if arg == "all" else [held[int(arg)]] if held else []
                out += b"".join(f.raw for pk in pks for f in pk)
            elif name == "fin_dup":
                out += allf[-1].raw if allf else b""
            elif name == "end_empty":
                out += F.crypto(end, b"")
            elif name == "zero_empty":
                out += F.crypto(0, b"")
            elif name == "end_new":
                out += F.crypto(end, bytes.fromhex(arg))
            elif name == "end_far":
                out += F.crypto(end + 100, bytes.fromhex(arg))
            elif name == "end_overlap":
                n = int(arg)
                data = b"".join(f.fields["data"] for f in allf[-1:])
                out += F.crypto(max(0, end - n), data[-n:] if n else b"")
            else:
                raise ValueError("unknown placeholder %r" % (fr,))
        return out

    def send_retry(self, token_len, o):
        from aioquic.quic.packet import get_retry_integrity_tag
        pk = self.ch_pkt
        version = o.get("version", V1)
        tbits = 0 if version == V2 else 3
        scid = RETRY_SCID
        dcid = pk.scid if not o.get("wrong_dcid") else bytes(8)
        body = bytes([0xC0 | (tbits << 4)]) + version.to_bytes(4, "big") + bytes([len(dcid)]) + dcid + bytes([len(scid)]) + scid
        body += bytes(o.get("fill", 0x5A) for _ in range(token_len))
        tag = get_retry_integrity_tag(body, pk.dcid, version=version if version in (V1, V2) else V1)
        if o.get("bad_tag"):
            tag = bytes(16)
        data = body + tag
        self.last_datagram = data
        if o.get("nopump"):
            self.subject.receive_datagram(data, self.peer_addr())
        else:
            self.pair.deliver_now(data, self.peer_addr(), self.subject)

    def send_long(self, payload, o):
        pk = self.ch_pkt
        if self.side == "server":
            dcid, scid, keycid, is_client = pk.dcid, pk.scid, pk.dcid, True
            pad = 1200
        else:
            dcid, scid, keycid, is_client = pk.scid, bytes(range(0x50, 0x58)), pk.dcid, False
            pad = 0
        if "dcid" in o:
            dcid = bytes.fromhex(o["dcid"])
            if self.side == "server" and not o.get("keep_key"):
                keycid = dcid
        if "scid" in o:
            scid = bytes.fromhex(o["scid"])
        if "keycid" in o:
            keycid = bytes.fromhex(o["keycid"])
        pkt = build_long(o.get("ptype", 0), dcid, scid, payload, keycid=keycid, is_client=is_client,
                         pn=o.get("pn", 0 if self.side == "server" else 1), version=o.get("version", V1),
                         token=bytes.fromhex(o.get("token", "")), reserved=o.get("reserved", 0),
                         pn_len=o.get("pn_len", 2), length_override=o.get("length"))
        pad = o.get("pad", pad)
        data = bytes.fromhex(o.get("prefix", "")) + pkt + bytes.fromhex(o.get("trailer", ""))
        if len(data) < pad:
            data += bytes(pad - len(data))
        self.last_datagram = data
        if o.get("nopump"):
            # receive_datagram() only: the application has not called datagrams_to_send() yet
            self.subject.receive_datagram(data, self.peer_addr())
        else:
            self.pair.deliver_now(data, self.peer_addr(), self.subject)

    def ack_game(self, epoch, pn_mode, ack_mode, extra, opts):
        """Known from the wire observer: which of the subject's packets in this space carried ACK frames and what their
        largest_acked was.  X = the last such packet (opts["pick"] = "first": the first), L = its largest_acked.
        pn_mode: largest_acked (L) | below (L-1) | zero | dup_last (the puppet's last number again) | above (L+1) | next
        ack_mode: x_only ([X]) | upto_x ([0..X]) | all (everything the subject sent) | none"""
        from sim import F
        from sim.puppet import SPACE_OF
        pu = self.puppet
        space = SPACE_OF[epoch]
        direction = "s2c" if self.side == "server" else "c2s"
        sent = [p for p in pu.observer.packets
                if p.direction == direction and p.decrypted and p.space == space and not p.injected]
        ackers = [p for p in sent if any(f.name in ("ACK", "ACK_ECN") for f in (p.frames or []))]
        x = None
        if ackers:
            x = ackers[0] if opts.get("pick") == "first" else ackers[-1]
        elif sent:
            x = sent[-1]
        largest = None
        if x is not None:
            ls = [f.fields.get("largest") for f in (x.frames or []) if f.name in ("ACK", "ACK_ECN")]
            ls = [v for v in ls if v is not None]
            largest = max(ls) if ls else None
        last = pu._last_pn.get(space, -1)
        base = largest if largest is not None else last
        pn = {"largest_acked": base, "below": base - 1, "zero": 0, "dup_last": last, "above": base + 1}.get(pn_mode)
        if pn is not None and pn < 0:
            pn = 0
        frames = []
        if ack_mode != "none" and x is not None:
            if ack_mode == "x_only":
                frames.append(F.ack([(x.pn, x.pn)]))
            elif ack_mode == "upto_x":
                frames.append(F.ack([(0, x.pn)]))
            else:
                pns = sorted({p.pn for p in sent})
                frames.append(F.ack([(pns[0], pns[-1])]))
        if extra:
            frames.append(extra)
        if not frames:
            frames = [F.ping()]
        self.last_ack_game = {"x": None if x is None else x.pn, "largest_acked": largest, "pn": pn, "ackers": len(ackers)}
        kw = {"pn_len": 4}
        if pn is not None:
            kw["pn"] = pn
        if opts.get("nopump"):
            pkt = pu.build_packet(epoch, frames, **kw)
            if epoch == "initial" and self.peer_side == "client" and len(pkt) < 1200:
                pkt += bytes(1200 - len(pkt))
            self.subject.receive_datagram(pkt, self.peer_addr())
        else:
            pu.send_frames(epoch, frames, **kw)

    def send_packet(self, epoch, payload, opts):
        kw = {}
        if opts.get("reserved"):
            kw["reserved_bits"] = opts["reserved"]
        if "dcid_index" in opts:
            cids = [c.cid for c in self.subject.conn._host_cids]
            if cids:
                kw["dcid"] = cids[opts["dcid_index"] % len(cids)]
        if "pn_skip" in opts:
            kw["pn"] = self.puppet.next_pn(epoch) + opts["pn_skip"]
            kw["pn_len"] = 4
        if len(payload) < 4:
            kw["pn_len"] = 4
        self.puppet.send_frames(epoch, payload, **kw)


def evil_certificate(nsans, ln, kind="sans"):
    """Self-signed certificate of a hostile server.  kind: "sans" many long names (A1);
    "badsan" a subjectAltName extension whose DER does not parse (T8); "wildcard" / "ipdns" / "emptydns" a dNSName
    service_identity rejects as a pattern: "*.com", "1.2.3.4", "" (T9)."""
    import datetime
    from cryptography import x509
    from cryptography.hazmat.primitives.asymmetric import ed25519
    from cryptography.x509.oid import NameOID, ObjectIdentifier
    key = ed25519.Ed25519PrivateKey.generate()
    name = x509.Name([x509.NameAttribute(NameOID.COMMON_NAME, "evil")])
    if kind == "badsan":
        ext = x509.UnrecognizedExtension(ObjectIdentifier("2.5.29.17"), b"\x01\x02\x03")
    elif kind == "wildcard":
        ext = x509.SubjectAlternativeName([x509.DNSName("*.com")])
    elif kind == "ipdns":
        ext = x509.SubjectAlternativeName([x509.DNSName("1.2.3.4")])
    elif kind == "emptydns":
        ext = x509.SubjectAlternativeName([x509.DNSName("")])
    else:
        ext = x509.SubjectAlternativeName([x509.DNSName(("a%03d" % i) + "b" * ln + ".example") for i in range(nsans)])
    cert = (x509.CertificateBuilder().subject_name(name).issuer_name(name).public_key(key.public_key())
            .serial_number(1).not_valid_before(datetime.datetime(2020, 1, 1))
            .not_valid_after(datetime.datetime(2040, 1, 1))
            .add_extension(ext, critical=False).sign(key, None))
    if kind != "sans":
        cert = x509.load_der_x509_certificate(cert.public_bytes(__import__("cryptography").hazmat.primitives.serialization.Encoding.DER))
    return cert, key


def exc_site(exc):
    """innermost function of the aioquic package on the traceback"""
    site = None
    tb = exc.__traceback__ if exc is not None else None
    while tb is not None:
        fn = tb.tb_frame.f_code.co_filename
        if "aioquic" in fn and "/harness/" not in fn:
            site = tb.tb_frame.f_code.co_name
        tb = tb.tb_next
    return site


VALID_CODES = None


def valid_close_code(code):
    global VALID_CODES
    if VALID_CODES is None:
        from aioquic.quic.packet import QuicErrorCode
        VALID_CODES = {int(x) for x in QuicErrorCode}
    return code in VALID_CODES or 0x100 <= code <= 0x1FF


def run_ops(case, settle=True):
    """Execute a case on a fresh world; returns (lab, problems) -- problems: list of (what, signature)."""
    lab = Lab(case["spec"])
    for op in case["ops"]:
        lab.apply(op)
    if settle:
        lab.settle()
    return lab, judge(lab)


def oracle_world(report, suite, case):
    """one oracle world: run_ops + judge + report; an exception in harness code is recorded for this case only"""
    def f():
        _, probs = run_ops(case)
        report(probs, case, suite)
        return probs
    return guarded_world(suite.split(":")[0], case, f)


EPOCH_TIE = {"checked": 0, "uninitialised": 0, "disagreements": 0, "first": None, "generator": None}
_EPOCH_KEYS = []
_EPOCH_ATTRS = ("_cryptos", "_crypto_buffers", "_crypto_streams", "_spaces")


def _epoch_init_keys():
    """the key lists gen/C05Epochs.v was generated with (INIT_CRYPTOS .. INIT_SPACES), read again from the tree under test"""
    if not _EPOCH_KEYS:
        try:
            import importlib.util
            path = os.path.join(os.path.dirname(os.path.dirname(os.path.dirname(os.path.abspath(__file__)))),
                                "tools", "gen", "c05_epochs.py")
            sp_ = importlib.util.spec_from_file_location("c05_epochs_gen", path)
            mod = importlib.util.module_from_spec(sp_)
            sp_.loader.exec_module(mod)
            _EPOCH_KEYS.append(mod.read()["keys"])
        except Exception as e:          # the generator fails closed on this tree: nothing to compare with (proof violation)
            EPOCH_TIE["generator"] = "%s: %s" % (type(e).__name__, str(e)[:200])
            _EPOCH_KEYS.append(None)
    return _EPOCH_KEYS[0]


def _epoch_prog():
    import importlib.util
    path = os.path.join(os.path.dirname(os.path.dirname(os.path.dirname(os.path.abspath(__file__)))),
                        "tools", "gen", "c05_epochs.py")
    sp_ = importlib.util.spec_from_file_location("c05_epochs_gen2", path)
    mod = importlib.util.module_from_spec(sp_)
    sp_.loader.exec_module(mod)
    return mod.read()["prog"]


def epoch_tables_check(lab):
    """The prediction of coq/props/C05.v `epoch_tables_total` on the implementation: once _initialize() has run, the key
    lists of _cryptos / _crypto_buffers / _crypto_streams / _spaces are the ones _initialize creates -- after ANY history
    (this world's).  A disagreement is a model/implementation difference (kind `correspondence`), reported at the end of run()."""
    keys = _epoch_init_keys()
    conn = getattr(getattr(lab, "subject", None), "conn", None)
    if keys is None or conn is None:
        return
    got = {}
    for a in _EPOCH_ATTRS:
        got[a] = peek(lambda a=a: [int(k.value) for k in getattr(conn, a).keys()], None, "epoch-table %s" % a)
    if all(v == [] for v in got.values()):
        EPOCH_TIE["uninitialised"] += 1          # constructor state: _initialize has not run
        return
    EPOCH_TIE["checked"] += 1
    if any(got[a] != keys[a] for a in _EPOCH_ATTRS):
        EPOCH_TIE["disagreements"] += 1
        if EPOCH_TIE["first"] is None:
            EPOCH_TIE["first"] = {"spec": lab.spec, "side": lab.side, "state": lab.state,
                                  "impl_keys": got, "model_keys": {a: keys[a] for a in _EPOCH_ATTRS}}


def judge(lab):
    probs = []
    seen = set()
    epoch_tables_check(lab)
    for r in lab.raised():
        sig = {"exception": r["exception"], "site": r["site"]}
        key = (r["exception"], r["site"])
        if key in seen:
            continue
        seen.add(key)
        probs.append(("%s escaped %s() at %s: %s [%s %s]" % (r["exception"], r["api"], r["site"], r["msg"], lab.side, lab.state), sig))
    for f in lab.sent_closes():
        code = f.get("error_code")
        if f.get("transport") and code is not None and not valid_close_code(code):
            probs.append(("close with error code 0x%x outside QuicErrorCode" % code, {"rule": "close_code", "code": code}))
    if getattr(lab, "pg", None) is not None:
        lab.pg.check_table("at the end")
        for rule, what in lab.pg.problems:
            probs.append((what + " [%s %s]" % (lab.side, lab.state), {"rule": "path_table", "what": rule}))
    return probs


def oracle(case):
    _, probs = run_ops(case)
    return probs[0] if probs else None


# ------------------------------------------------------------------------------------------
# model tie: state snapshot -> tokens
def _recv_tokens(r):
    t = [r.highest_offset, r._buffer_start, len(r._buffer)] + list(r._buffer)
    rg = list(r._ranges)
    t += [len(rg)]
    for x in rg:
        t += [x.start, x.stop]
    return t


RECV_MISSING = [MISSING, MISSING, 0, 0]      # a CRYPTO receiver that cannot be read: highest_offset / _buffer_start = MISSING


def _conn_scalars(conn, ctx):
    mdf = peek(lambda: conn._configuration.max_datagram_frame_size, MISSING, "max_datagram_frame_size")
    ps = peek(lambda: conn._peer_cid.sequence_number, MISSING, "_peer_cid")
    return [peek(lambda: int(conn._is_client), MISSING, "_is_client"),
            peek(lambda: conn._local_max_data.used, MISSING, "_local_max_data"),
            peek(lambda: conn._local_max_data.value, MISSING, "_local_max_data"),
            peek(lambda: conn._local_max_streams_bidi.value, MISSING, "_local_max_streams_bidi"),
            peek(lambda: conn._local_max_streams_uni.value, MISSING, "_local_max_streams_uni"),
            peek(lambda: conn._local_max_stream_data_bidi_remote, MISSING, "_local_max_stream_data_bidi_remote"),
            peek(lambda: conn._local_max_stream_data_uni, MISSING, "_local_max_stream_data_uni"),
            -1 if mdf is None else mdf,
            peek(lambda: conn._host_cid_seq, MISSING, "_host_cid_seq"), ctx,
            peek(lambda: conn._remote_active_connection_id_limit, MISSING, "_remote_active_connection_id_limit"),
            0 if ps is None else ps,
            peek(lambda: conn._peer_retire_prior_to, MISSING, "_peer_retire_prior_to"),
            peek(lambda: len(conn._retire_connection_ids), MISSING, "_retire_connection_ids"),
            peek(lambda: conn._local_active_connection_id_limit, MISSING, "_local_active_connection_id_limit")]


def snapshot_tokens(conn, epoch, dcid):
    """Labelled peek at the connection's private state (the model's abstract state).  Never raises: what cannot be read is
    the token MISSING."""
    from aioquic import tls
    streams = []
    for sid, s in peek(lambda: list(conn._streams.items()), [], "_streams"):
        fs = peek(lambda: s.receiver._final_size, MISSING, "receiver._final_size")
        streams.append([sid, peek(lambda: s.max_stream_data_local, MISSING, "max_stream_data_local"),
                        peek(lambda: s.receiver.highest_offset, MISSING, "receiver.highest_offset"), -1 if fs is None else fs])
    ctx = -1
    for c in peek(lambda: list(conn._host_cids), [], "_host_cids"):
        if peek(lambda: c.cid, None, "cid") == dcid:
            ctx = peek(lambda: c.sequence_number, MISSING, "sequence_number")
    t = _conn_scalars(conn, ctx)
    t += peek_list(lambda: (c.sequence_number for c in conn._host_cids), "_host_cids")
    t += peek_list(lambda: (c.sequence_number for c in conn._peer_cid_available), "_peer_cid_available")
    t += peek_list(lambda: sorted(conn._peer_cid_sequence_numbers), "_peer_cid_sequence_numbers")
    t += peek_list(lambda: (int.from_bytes(k, "big") for k in conn._local_challenges.keys()), "_local_challenges")
    t += peek_list(lambda: sorted(conn._streams_finished), "_streams_finished")
    t += peek_list(lambda: (c.sequence_number for c in conn._host_cids
                            if not c.was_sent and c.sequence_number > getattr(conn, "_host_cid_seq_sent", -1)), "_host_cids")
    t += [len(streams)]
    for s in streams:
        t += s
    for ep in (tls.Epoch.INITIAL, tls.Epoch.HANDSHAKE, tls.Epoch.ONE_RTT):
        t += peek(lambda: _recv_tokens(conn._crypto_streams[ep].receiver), RECV_MISSING, "_crypto_streams[%s]" % ep.name)
    # self.tls: configuration + state tokens of the TLS message-layer model (TlsRecv.rd_cfg_ctx)
    t += c05_tlsmsg.snapshot(conn.tls)
    return t


_CACHE = {}
FR_TLS = collections.Counter()      # how often the frames tie reached the TLS message layer


def _key(case):
    return json.dumps(case, sort_keys=True)


@tolerant("frames")
def frames_observe(case):
    """Run prefix ops, snapshot, deliver the final packet, observe.  Returns (tokens, expected)."""
    k = _key(case)
    if k in _CACHE:
        return _CACHE[k]
    patched = int(TREE_PATCHED.get("ncid", 0))
    lab = Lab(case["spec"])
    for op in case["ops"]:
        lab.apply(op)
    subj = lab.subject
    conn = subj.conn
    epoch = case["epoch"]
    payload = lab.resolve(case["frames"])
    opts = case.get("opts", {})
    nq0 = len([e for e in subj.qlog_events() if e["name"] == "transport:packet_received"])
    dcid = lab.puppet.default_dcid()
    if "dcid_index" in opts:
        cids = [c.cid for c in conn._host_cids]
        dcid = cids[opts["dcid_index"] % len(cids)]
    # Oracle answers of the TLS layer (cryptography / X.509 / callbacks): recorded per handle_message call and per
    # dispatched message from the real run (c05_tlsmsg.Recorder), documented inputs of the model
    pre = None
    rec = None
    if conn._close_event is None and not conn._close_pending:
        pre = [patched, EPOCH_NUM[epoch], 0, int(bool(opts.get("reserved")))]
        snap = snapshot_tokens(conn, EPOCH_NUM[epoch], dcid)
        from aioquic import tls as _tls
        rec = c05_tlsmsg.Recorder(_tls, conn.tls, wrap_callbacks=True).install()
    nraised0 = len(subj.raised)
    try:
        lab.send_packet(epoch, payload, opts)
    finally:
        if rec is not None:
            rec.uninstall()
    new_raised = subj.raised[nraised0:]
    recv = [c for c in new_raised if c.name == "receive_datagram"]
    evs = [e for e in subj.qlog_events() if e["name"] == "transport:packet_received"]
    nlog = len(evs[-1]["data"].get("frames", [])) if len(evs) > nq0 else 0
    # outcome from public observables: exception class, else the ConnectionTerminated event
    if recv:
        exp = [3, EXN.get(recv[0].exc_type, 9), 0, nlog]
    else:
        lab.settle(max_time=30.0)
        term = subj.terminated
        closes = lab.sent_closes()
        if term is None or (not closes and term.reason_phrase == "Idle timeout" and int(term.error_code) == 1):
            exp = [0, 0, 0, nlog]
        else:
            ft = -1 if term.frame_type is None else int(term.frame_type)
            exp = [1 if closes else 2, int(term.error_code), ft, nlog]
    later = [c for c in subj.raised[nraised0:] if c.name != "receive_datagram"]
    tokens = None
    if pre is not None and len(snap) > 60000:
        pre = None          # a huge reassembly buffer (far-ahead CRYPTO data in a prefix packet): not run through the model
    if pre is not None:
        FR_TLS["cases_with_handle_message"] += 1 if rec.calls else 0
        FR_TLS["handle_message_calls"] += len(rec.calls)
        FR_TLS["dispatched_messages"] += sum(len(r) for r in rec.calls)
        orcs = [len(rec.calls)]
        for records in rec.calls:
            orcs += c05_tlsmsg.orc_tokens(records)
        tokens = [0] + pre + snap + orcs + [len(payload)] + list(payload)
    res = (tokens, exp, [(c.name, c.exc_type, exc_site(c.exc)) for c in later])
    if len(_CACHE) > 4000:
        _CACHE.clear()
    _CACHE[k] = res
    return res


def frames_encode(case):
    r = frames_observe(case)
    if r is FAILED:
        return [9]
    tokens, _, _ = r
    return tokens if tokens is not None else [9]


def frames_impl(case):
    r = frames_observe(case)
    if r is FAILED:
        return []
    tokens, exp, _ = r
    return exp if tokens is not None else []


TREE_PATCHED = {}


# ------------------------------------------------------------------------------------------
# datagram tie: ConnDgram.receive_datagram (raw bytes -> header parser -> decisions -> decryption oracle -> frame loop,
# coalesced packets) against the real receive_datagram()
STATE_NUM = {"FIRSTFLIGHT": 0, "CONNECTED": 1, "CLOSING": 2, "DRAINING": 3, "TERMINATED": 4}
TRIGGER_NUM = {"header_parse_error": 10, "initial_packet_datagram_too_small": 21, "unknown_connection_id": 22,
               "unsupported_version": 24, "key_unavailable": 41, "payload_decrypt_error": 42}


def _tls_tokens_for(conn):
    """cfg + ctx tokens of self.tls; before _initialize() (fresh server): those of the Context _initialize() will build"""
    from aioquic import tls
    if getattr(conn, "tls", None) is not None:
        return c05_tlsmsg.snapshot(conn.tls)
    c = conn._configuration
    ctx = tls.Context(alpn_protocols=c.alpn_protocols, cadata=c.cadata, cafile=c.cafile, capath=c.capath,
                      cipher_suites=conn.configuration.cipher_suites, is_client=conn._is_client,
                      max_early_data=None if conn._is_client else 0xFFFFFFFF, server_name=c.server_name, verify_mode=c.verify_mode)
    ctx.certificate, ctx.certificate_chain, ctx.certificate_private_key = c.certificate, c.certificate_chain, c.private_key
    ctx.alpn_cb = conn._alpn_handler
    if conn._session_ticket_fetcher is not None:
        ctx.get_session_ticket_cb = conn._session_ticket_fetcher
    if conn._session_ticket_handler is not None:
        ctx.new_session_ticket_cb = conn._handle_session_ticket
    return c05_tlsmsg.snapshot(ctx)


def dgram_snapshot(conn):
    from aioquic import tls
    init = getattr(conn, "tls", None) is not None
    hseq = -1
    for c in peek(lambda: list(conn._host_cids), [], "_host_cids"):
        if peek(lambda: c.cid == conn.host_cid, False, "host_cid"):
            hseq = peek(lambda: c.sequence_number, MISSING, "sequence_number")
    t = [peek(lambda: STATE_NUM[conn._state.name], MISSING, "_state"), peek(lambda: int(conn._close_pending), MISSING, "_close_pending"),
         int(init), peek(lambda: conn._configuration.connection_id_length, MISSING, "connection_id_length"),
         peek(lambda: conn._version or 0, MISSING, "_version"),
         peek(lambda: int(conn._version_negotiated_incompatible), MISSING, "_version_negotiated_incompatible"),
         peek(lambda: conn._retry_count, MISSING, "_retry_count"), hseq]
    t += peek_list(lambda: conn._configuration.supported_versions, "supported_versions")
    if init:
        full = snapshot_tokens(conn, 0, b"")
    else:
        # no streams / CRYPTO receivers / tls yet: the scalar part, empty lists, three empty receivers
        full = _conn_scalars(conn, -1)
        full[11] = 0
        full += peek_list(lambda: (c.sequence_number for c in conn._host_cids), "_host_cids") + [0, 0, 0, 0, 0] + [0]
        full += [0, 0, 0, 0] * 3
        full += _tls_tokens_for(conn)
    return t + full


def build_dgram(lab, parts):
    out = b""
    for part in parts:
        k = part[0]
        if k == "raw":
            out += bytes.fromhex(part[1])
        elif k == "pkt":
            o = dict(part[3]) if len(part) > 3 else {}
            kw = {}
            if o.get("reserved"):
                kw["reserved_bits"] = o["reserved"]
            if "dcid_index" in o:
                cids = [c.cid for c in lab.subject.conn._host_cids]
                kw["dcid"] = cids[o["dcid_index"] % len(cids)]
            if "dcid" in o:
                kw["dcid"] = bytes.fromhex(o["dcid"])
            payload = bytes.fromhex(part[2])
            if len(payload) < 4:
                kw["pn_len"] = 4
            try:
                pkt = lab.puppet.build_packet(part[1], payload, **kw)
            except ValueError:
                pkt = b""
            if o.get("corrupt") and pkt:
                pkt = pkt[:-1] + bytes([pkt[-1] ^ 0x55])
            if o.get("cut") and pkt:
                pkt = pkt[:max(1, len(pkt) - o["cut"])]
            out += pkt
        elif k == "long":
            o = dict(part[2]) if len(part) > 2 else {}
            pk = lab.ch_pkt
            if lab.side == "server":
                dcid, scid, keycid, is_client = pk.dcid, pk.scid, pk.dcid, True
            else:
                dcid, scid, keycid, is_client = pk.scid, bytes(range(0x50, 0x58)), pk.dcid, False
            if "dcid" in o:
                dcid = bytes.fromhex(o["dcid"])
            pkt = build_long(o.get("ptype", 0), dcid, scid, bytes.fromhex(part[1]), keycid=keycid, is_client=is_client,
                             pn=o.get("pn", 0 if lab.side == "server" else 1), version=o.get("version", V1),
                             reserved=o.get("reserved", 0), pn_len=o.get("pn_len", 2), length_override=o.get("length"))
            if o.get("corrupt"):
                pkt = pkt[:-1] + bytes([pkt[-1] ^ 0x55])
            out += pkt
        elif k == "pad":
            if len(out) < part[1]:
                out += bytes(part[1] - len(out))
        elif k == "vn":
            pk = lab.ch_pkt
            out += bytes([0x80 | part[2]]) + bytes(4) + bytes([len(pk.scid)]) + pk.scid + bytes([len(pk.dcid)]) + pk.dcid + \
                b"".join(v.to_bytes(4, "big") for v in part[1])
    return out


@tolerant("dgram")
def dgram_observe(case):
    """-> (tokens, expected)"""
    k = _key(case)
    if k in _CACHE:
        return _CACHE[k]
    from aioquic import tls
    from aioquic.buffer import Buffer
    from aioquic.quic import crypto as qc
    from aioquic.quic.packet import get_retry_integrity_tag, pull_quic_header
    lab = Lab(case["spec"])
    for op in case["ops"]:
        lab.apply(op)
    subj = lab.subject
    conn = subj.conn
    if case.get("retry") is not None:
        # a Retry datagram is built by the Lab (it needs the client's genuine Initial): capture instead of delivering
        r = case["retry"]
        saved = subj.receive_datagram
        box = []
        subj.receive_datagram = lambda d, a: box.append(d)
        try:
            lab.send_retry(r[0], dict(r[1], nopump=True))
        finally:
            del subj.receive_datagram
        data = box[0] + bytes.fromhex(case.get("trailer", ""))
    else:
        data = build_dgram(lab, case["parts"])
    patched = int(TREE_PATCHED.get("firstflight", 1))
    snap = dgram_snapshot(conn)
    had_event = conn._close_event is not None      # the model's snapshot carries no earlier close event: gate only
    # walk over the headers as the loop will (offsets only): which host CID each packet addresses; verdict on a Retry
    hdrs = []
    buf = Buffer(data=data)
    host = {c.cid: c.sequence_number for c in conn._host_cids}
    while not buf.eof() and len(hdrs) < 40:
        start = buf.tell()
        try:
            h = pull_quic_header(buf, host_cid_length=conn._configuration.connection_id_length)
        except ValueError:
            break
        rok = 0
        if h.packet_type.name == "RETRY":
            try:
                tag = get_retry_integrity_tag(buf.data_slice(start, buf.tell() - 16), conn._peer_cid.cid, version=h.version)
                rok = int(h.destination_cid == conn.host_cid and h.integrity_tag == tag)
            except Exception:
                rok = 0
        hdrs.append([host.get(h.destination_cid, -1), rok, h.packet_type.name])
        if start + h.packet_length > len(data) or h.packet_length <= 0:
            break
        buf.seek(start + h.packet_length)
    dec, marks = [], []
    rec = c05_tlsmsg.ClassRecorder(tls, conn)
    real_dec = qc.CryptoPair.decrypt_packet

    def decrypt(self, packet, encrypted_offset, expected_packet_number):
        i = len(dec)
        dec.append(None)
        marks.append(len(rec.calls))
        try:
            r = real_dec(self, packet, encrypted_offset, expected_packet_number)
        except qc.KeyUnavailableError:
            dec[i] = (1, 0, b"")
            raise
        except qc.CryptoError:
            dec[i] = (2, 0, b"")
            raise
        ph, payload, pn = r
        mask = 0x0C if (ph[0] & 0x80) else 0x18
        dec[i] = (0, int(bool(ph[0] & mask)), bytes(payload))
        return r

    ne0 = len(subj.qlog_events())
    nr0 = len(subj.raised)
    rec.install()
    qc.CryptoPair.decrypt_packet = decrypt
    try:
        subj.receive_datagram(data, lab.peer_addr())
    finally:
        qc.CryptoPair.decrypt_packet = real_dec
        rec.uninstall()
    marks.append(len(rec.calls))
    recv = [c for c in subj.raised[nr0:] if c.name == "receive_datagram"]
    # expected
    trace = []
    for e in subj.qlog_events()[ne0:]:
        if e["name"] == "transport:packet_dropped":
            trig = e["data"]["trigger"]
            if trig == "unexpected_packet":
                idx = len(trace)
                ptn = hdrs[idx][2] if idx < len(hdrs) else ""
                trace.append(30 if ptn in ("RETRY", "VERSION_NEGOTIATION") else 26)
            else:
                trace.append(TRIGGER_NUM.get(trig, 99))
        elif e["name"] == "transport:packet_received":
            if e["data"]["header"].get("packet_type") in ("retry", "version_negotiation"):
                trace.append(30)
            else:
                trace.append(100 + len(e["data"].get("frames", [])))
    conn = subj.conn
    if recv:
        exp = [3, EXN.get(recv[0].exc_type, 9), 0, 0, 0, 0, 0]
    else:
        ev = conn._close_event
        if ev is None or had_event:
            cl = [0, 0, 0]
        else:
            by_peer = conn._state.name == "DRAINING"
            cl = [2 if by_peer else 1, int(ev.error_code), -1 if ev.frame_type is None else int(ev.frame_type)]
        exp = [0, 0, STATE_NUM[conn._state.name], int(conn._close_pending)] + cl
    # a VN packet that is ignored because it lists our version is silent in qlog (only a log warning): the model says 30
    if not recv and any(h[2] == "VERSION_NEGOTIATION" for h in hdrs) and not trace:
        trace = [30]
    exp += [len(trace)] + trace
    orcs = [len(hdrs)]
    for i, (seq, rok, _) in enumerate(hdrs):
        d = dec[i] if i < len(dec) and dec[i] is not None else (2, 0, b"")
        calls = rec.calls[marks[i]:marks[i + 1]] if i + 1 < len(marks) else []
        orcs += [seq, rok, d[0], d[1], len(d[2])] + list(d[2]) + [len(calls)]
        for records in calls:
            orcs += c05_tlsmsg.orc_tokens(records)
    tokens = [patched] + snap + orcs + [len(data)] + list(data)
    later_probs = None
    res = (tokens, exp, lab)
    if len(_CACHE) > 1500:
        _CACHE.clear()
    _CACHE[k] = res
    return res


def oracle_dgram(case):
    r = dgram_observe(case)
    if r is FAILED:
        return None
    tokens, exp, lab = r
    lab.pair.pump(lab.subject)
    lab.settle(max_time=20.0)
    probs = judge(lab)
    return probs[0] if probs else None


def gen_dgram_cases(rng, n):
    g = Gen(rng)
    cases = []

    def frames(epoch):
        if epoch in ("initial", "handshake"):
            pool = [0x00, 0x01, 0x02, 0x06, 0x1c, 0x08, 0x1e]
        else:
            pool = FRAME_TYPES
        return b"".join(g.frame(rng.choice(pool)) for _ in range(rng.randint(1, 3))).hex()

    def garbage():
        n_ = rng.choice([1, 2, 5, 20, 21, 40, 60])
        d = bytes(rng.randrange(256) for _ in range(n_))
        if rng.random() < 0.6:
            d = bytes([rng.choice([0x40, 0x43, 0xC0, 0xC3, 0xD0, 0xE0, 0xF0, 0x80, 0x00, 0x3f])]) + d[1:]
        return d.hex()

    combos = [("client", "connected"), ("server", "connected"), ("client", "handshake"), ("server", "handshake"),
              ("client", "keyupdated"), ("server", "keyupdated")]
    for i in range(n):
        x = rng.random()
        if x < 0.62:
            side, state = rng.choice(combos)
            epochs = ["1rtt"] if state != "handshake" else ["initial", "handshake"]
            parts = []
            for _ in range(rng.randint(1, 4)):
                y = rng.random()
                ep = rng.choice(epochs + (["initial", "handshake"] if y < 0.25 else []))
                o = {}
                z = rng.random()
                if z < 0.12:
                    o["corrupt"] = 1
                elif z < 0.18:
                    o["reserved"] = rng.choice([1, 2, 3])
                elif z < 0.26:
                    o["dcid"] = bytes(rng.randrange(256) for _ in range(8)).hex()
                elif z < 0.34 and side == "server":
                    o["dcid_index"] = rng.randrange(8)
                elif z < 0.38:
                    o["cut"] = rng.choice([1, 5, 17])
                parts.append(["pkt", ep, frames(ep), o])
                if ep == "1rtt":
                    break       # a short header packet extends to the end of the datagram
            if rng.random() < 0.25:
                parts.insert(rng.randrange(len(parts) + 1), ["raw", garbage()])
            if rng.random() < 0.2:
                parts.append(["raw", bytes(rng.choice([1, 30])).hex()])
            ops = []
            if rng.random() < 0.1 and state != "handshake":
                ops.append(["pkt", "1rtt", g.frame(rng.choice([0x18, 0x08, 0x0A])).hex()])
            cases.append({"spec": spec(side, state, 100 + rng.randrange(6)), "ops": ops, "parts": parts})
        elif x < 0.8:
            # server first flight: Initial packets under the public Initial keys, coalesced / padded / too small / other types
            parts = []
            for _ in range(rng.randint(1, 3)):
                o = {"ptype": rng.choice([0, 0, 0, 1, 2]), "version": rng.choice([V1, V1, V2, 0x1A2A3A4A])}
                if rng.random() < 0.15:
                    o["corrupt"] = 1
                if rng.random() < 0.1:
                    o["reserved"] = 1
                if rng.random() < 0.15:
                    o["dcid"] = bytes(rng.randrange(256) for _ in range(rng.choice([8, 8, 20]))).hex()
                pl = rng.choice(["01", "00", "", "1f", frames("initial"), (b"\x06" + varint(0) + varint(4) + b"\x01\x00\x00\x00").hex()])
                parts.append(["long", pl, o])
            if rng.random() < 0.2:
                parts.insert(rng.randrange(len(parts) + 1), ["raw", garbage()])
            if rng.random() < 0.8:
                parts.append(["pad", rng.choice([1199, 1200, 1200, 1300])])
            cases.append({"spec": spec("server", "firstflight", 200 + rng.randrange(4)), "ops": [], "parts": parts})
        elif x < 0.9:
            # client first flight: server Initial packets, Version Negotiation
            if rng.random() < 0.5:
                vs = rng.choice([[V1], [V2], [0x1A2A3A4A], [], [V2, V1], [0xAABBCCDD, V2]])
                parts = [["vn", vs, rng.randrange(128)]]
                if rng.random() < 0.3:
                    parts.append(["raw", garbage()])
            else:
                parts = [["long", rng.choice(["01", "1f", frames("initial")]), {"version": rng.choice([V1, V1, V2])}]
                         for _ in range(rng.randint(1, 2))]
            cases.append({"spec": spec("client", "firstflight", 200 + rng.randrange(4)), "ops": [], "parts": parts})
        else:
            ro = {}
            y = rng.random()
            if y < 0.2:
                ro["bad_tag"] = 1
            elif y < 0.35:
                ro["wrong_dcid"] = 1
            elif y < 0.45:
                ro["version"] = V2
            cases.append({"spec": spec("client", "firstflight", 200 + rng.randrange(4)), "ops": [], "parts": [],
                          "retry": [rng.choice([0, 1, 15, 16, 17, 100, 1131, 1300]), ro],
                          "trailer": rng.choice(["", "", "00", garbage()])})
    return cases


# ------------------------------------------------------------------------------------------
# close-branch tie: ConnClose.close_send (sizes, on C13's builder model) against the real datagrams_to_send()
@tolerant("close")
def close_observe(case):
    """case: {"side", "state": firstflight | connected, "token": n, "mds": n, "code", "ft": int | None, "reason": n, "ascii": bool}
    -> (tokens, expected [outcome, ndatagrams, lengths...])"""
    k = _key(case)
    if k in _CACHE:
        return _CACHE[k]
    from aioquic.quic.configuration import QuicConfiguration
    from aioquic.quic.connection import QuicConnection
    from aioquic import tls
    if case["state"] == "firstflight":
        cfg = QuicConfiguration(is_client=True, alpn_protocols=["h3"], max_datagram_size=case["mds"])
        conn = QuicConnection(configuration=cfg)
        conn.connect(("10.0.0.1", 4433), now=0.0)
        conn.datagrams_to_send(now=0.0)
        conn._peer_token = bytes(case["token"])      # what _receive_retry_packet stores (header.token)
    else:
        lab = Lab(spec(case["side"], "connected", 100 + case.get("seed", 0)))
        conn = lab.subject.conn
    reason = ("r" if case.get("ascii", True) else "\u00e9") * case["reason"]
    conn.close(error_code=case["code"], frame_type=case["ft"], reason_phrase=reason)
    keys = [int(conn._handshake_confirmed)] + [int(conn._cryptos[e].send.is_valid())
                                               for e in (tls.Epoch.INITIAL, tls.Epoch.HANDSHAKE, tls.Epoch.ONE_RTT)]
    tokens = [int(TREE_PATCHED.get("retry_close", 1)), int(conn._is_client), conn._max_datagram_size, len(conn._peer_cid.cid),
              len(conn.host_cid), len(conn._peer_token)] + keys + [case["code"]] + \
             ([0] if case["ft"] is None else [1, case["ft"]]) + [len(reason.encode("utf8")), case.get("slack", 0)]
    try:
        out = conn.datagrams_to_send(now=1.0)
        exp = [0, len(out)] + [len(d) for d, _ in out]
    except Exception as e:  # noqa: BLE001 -- the observable is the exception class
        exp = [{"QuicPacketBuilderStop": 1, "BufferWriteError": 2, "AssertionError": 3, "AttributeError": 4,
                "ValueError": 5, "CryptoError": 6}.get(type(e).__name__, 9), 0]
    res = (tokens, exp)
    _CACHE[k] = res
    return res


def oracle_close(case):
    r = close_observe(case)
    if r is FAILED:
        return None
    _, exp = r
    if exp[0] != 0:
        name = {1: "QuicPacketBuilderStop", 2: "BufferWriteError", 3: "AssertionError", 4: "AttributeError", 5: "ValueError",
                6: "CryptoError"}.get(exp[0], "?")
        return ("%s escaped datagrams_to_send() (close branch) [token %s, reason %s]" % (name, case.get("token"), case["reason"]),
                {"exception": name, "site": "start_packet"})
    return None


def gen_close_cases(rng, n):
    cases = []
    toks = [0, 1, 16, 63, 64, 500, 1100, 1129, 1130, 1131, 1139, 1140, 1155, 1156, 1157, 1200, 1300, 1452, 3000]
    for i in range(n):
        x = rng.random()
        ft = rng.choice([None, None, 0, 6, 0x1f, 0x30, 16383, 16384, (1 << 30), (1 << 62) - 1])
        code = rng.choice([0, 1, 7, 10, 63, 64, 0x100, 0x128, 16383, 16384, (1 << 30) - 1, 1 << 30, (1 << 62) - 1])
        reason = rng.choice([0, 1, 18, 100, 1000, 1100, 1128, 1129, 1130, 1150, 1200, 2000])
        if x < 0.7:
            mds = rng.choice([1200, 1200, 1280, 1350, 1452, 1500])
            cases.append({"side": "client", "state": "firstflight", "token": rng.choice(toks + [mds - 45, mds - 70, mds - 29, mds - 30]),
                          "mds": mds, "code": code, "ft": ft, "reason": reason, "ascii": reason >= 1000 or rng.random() < 0.8})
        else:
            cases.append({"side": rng.choice(["client", "server"]), "state": "connected", "seed": rng.randrange(4), "code": code,
                          "ft": ft, "reason": reason, "ascii": reason >= 1000 or rng.random() < 0.8})
    return cases


def detect_patches():
    """Which of the documented fixes does the tree under test carry?  Decided by running the minimal
    witnesses of docs/C05.md (the model's [patched] flag follows the tree so that the tie holds on both)."""
    w = WITNESSES
    res = {}
    for name in ("ncid", "firstflight"):
        try:
            _, probs = run_ops(w[name])
            res[name] = 0 if probs else 1
        except Exception:
            res[name] = 0
    try:
        _, probs = run_ops(w["retry_token_close"])
        res["retry_close"] = 0 if probs else 1
    except Exception:
        res["retry_close"] = 0
    TREE_PATCHED.update(res)
    return res


# ------------------------------------------------------------------------------------------
# header decision tie
PTYPE_NUM = {"INITIAL": 0, "ZERO_RTT": 1, "HANDSHAKE": 2, "RETRY": 3, "VERSION_NEGOTIATION": 4, "ONE_RTT": 5}
DROP_WHY = {"initial_packet_datagram_too_small": 1, "unknown_connection_id": 2, "unsupported_version": 4,
            "non_initial_first_packet": 6}


@tolerant("header")
def header_observe(case):
    k = _key(case)
    if k in _CACHE:
        return _CACHE[k]
    from aioquic.buffer import Buffer
    from aioquic.quic.packet import pull_quic_header
    lab = Lab(case["spec"])
    for op in case["ops"][:-1]:
        lab.apply(op)
    subj = lab.subject
    conn = subj.conn
    firstflight = conn._state.name == "FIRSTFLIGHT"
    host = [c.cid for c in conn._host_cids]
    ne0 = len(subj.qlog_events())
    nr0 = len(subj.raised)
    lab.apply(case["ops"][-1])
    data = lab.last_datagram if case["ops"][-1][0] in ("long",) else bytes.fromhex(case["ops"][-1][1])
    tokens = None
    try:
        h = pull_quic_header(Buffer(data=data), host_cid_length=conn._configuration.connection_id_length)
    except ValueError:
        h = None
    evs = subj.qlog_events()[ne0:]
    drops = [e["data"]["trigger"] for e in evs if e["name"] == "transport:packet_dropped"]
    recv = [c for c in subj.raised[nr0:] if c.name == "receive_datagram"]
    if recv:
        exp = [3, EXN.get(recv[0].exc_type, 9)]
    elif drops and drops[0] in DROP_WHY:
        exp = [1, DROP_WHY[drops[0]]]
    elif drops and drops[0] == "unexpected_packet":
        # Retry / Version Negotiation that is not acted upon; or (patched tree) a non-INITIAL first packet
        exp = [2, 0] if (h is not None and h.packet_type.name in ("RETRY", "VERSION_NEGOTIATION")) else [1, 6]
    elif any(e["name"] == "transport:packet_received" and e["data"]["header"].get("packet_type") in ("retry", "version_negotiation")
             for e in evs):
        exp = [2, 0]
    else:
        exp = [0, 0]      # passed the header decisions (decryption may still have dropped it)
    if h is not None and not (recv and exc_site(recv[0].exc) != "receive_datagram"):
        tokens = [1, int(TREE_PATCHED.get("firstflight", 0)), int(conn._is_client), int(firstflight), PTYPE_NUM[h.packet_type.name],
                  len(data), int(h.destination_cid in host),
                  int(h.version is None or h.version in conn._configuration.supported_versions)]
    res = (tokens, exp, [])
    _CACHE[k] = res
    return res


def header_encode(case):
    r = header_observe(case)
    if r is FAILED:
        return [9]
    t, _, _ = r
    return t if t is not None else [9]


def header_impl(case):
    r = header_observe(case)
    if r is FAILED:
        return []
    t, exp, _ = r
    return exp if t is not None else []


# ------------------------------------------------------------------------------------------
# generators
def spec(side, state, seed, **kw):
    d = {"side": side, "state": state, "seed": seed}
    d.update(kw)
    return d


def gen_frame_cases(rng, n):
    cases = []
    combos = [("client", "connected", "1rtt"), ("server", "connected", "1rtt"), ("client", "keyupdated", "1rtt"),
              ("server", "keyupdated", "1rtt"), ("server", "handshake", "handshake"), ("server", "handshake", "initial"),
              ("client", "handshake", "handshake"), ("client", "handshake", "initial")]
    weights = [6, 6, 1, 1, 1, 1, 1, 1]
    payloads = gen_payloads(rng, n)
    for i, frames in enumerate(payloads):
        side, state, epoch = rng.choices(combos, weights)[0]
        c = {"spec": spec(side, state, 100 + rng.randrange(8)), "ops": [], "epoch": epoch,
             "frames": [f.hex() for f in frames], "opts": {}}
        x = rng.random()
        if x < 0.02:
            c["opts"]["reserved"] = rng.choice([1, 2, 3])
        elif x < 0.06 and epoch == "1rtt":
            c["opts"]["dcid_index"] = rng.randrange(8)
        if rng.random() < 0.15 and epoch == "1rtt":
            # a prefix packet that creates state (streams, cids) the final packet's checks depend on
            g = Gen(rng)
            pre = [g.frame(rng.choice([0x08, 0x0A, 0x0B, 0x0E, 0x0F, 0x04, 0x18, 0x19, 0x1A])) for _ in range(rng.randint(1, 3))]
            c["ops"].append(["pkt", "1rtt", b"".join(pre).hex()])
        cases.append(c)
    # directed part: state-dependent checks (final size, flow control, stream limits, connection IDs)
    g = Gen(rng)

    def st_frame(sid, off, n, fin, explicit_len=True):
        ft = 0x08 | (4 if off else rng.choice([0, 4])) | (2 if explicit_len else 0) | (1 if fin else 0)
        b = varint(ft) + varint(sid)
        if ft & 4:
            b += varint(off)
        if ft & 2:
            b += varint(n)
        return b + bytes(n)

    for i in range(max(20, n // 6)):
        side = rng.choice(["client", "server"])
        peer_ids = [0, 4, 8, 2, 6, 400, 512, 516] if side == "server" else [1, 5, 9, 3, 7, 401, 513, 517]
        own_ids = [1, 5, 3] if side == "server" else [0, 4, 2]
        c = {"spec": spec(side, rng.choice(["connected", "connected", "keyupdated"]), 100 + rng.randrange(8)), "ops": [],
             "epoch": "1rtt", "opts": {}}
        x = rng.random()
        if x < 0.6:
            sid = rng.choice(peer_ids + peer_ids + own_ids)
            pre = []
            for _ in range(rng.randint(0, 3)):
                off = rng.choice([0, 0, 5, 10, 20])
                pre.append(st_frame(sid, off, rng.choice([0, 5, 10]), rng.random() < 0.4))
            if pre and rng.random() < 0.7:
                c["ops"].append(["pkt", "1rtt", b"".join(pre).hex()])
                pre = []
            fin_sizes = [0, 5, 10, 15, 20, 30, (1 << 20), (1 << 20) + 1]
            y = rng.random()
            if y < 0.5:
                last = st_frame(sid, rng.choice([0, 5, 10, 15, 20, (1 << 20) - 5]), rng.choice([0, 5, 10]), rng.random() < 0.5,
                                rng.random() < 0.8)
            elif y < 0.8:
                last = b"\x04" + varint(sid) + varint(rng.choice([0, 7])) + varint(rng.choice(fin_sizes))
            elif y < 0.9:
                last = rng.choice([b"\x05", b"\x11", b"\x15"]) + varint(sid) + varint(rng.choice([0, 100, 1 << 30]))
            else:
                last = st_frame(sid, 0, 3, False) + st_frame(sid, 3, 3, True) + st_frame(sid, 0, 7, False)
            c["frames"] = [f.hex() for f in pre + [last]]
            if rng.random() < 0.15:
                c["frames"] = c["frames"] * 2
        elif x < 0.9:
            dom = [0, 1, 2, 3, 7, 8, 9, 10, 11, 12, 20]

            def nc():
                seq = rng.choice(dom)
                rpt = rng.choice([0, 0, seq, max(0, seq - 1), rng.choice(dom)])
                return b"\x18" + varint(seq) + varint(rpt) + b"\x08" + bytes([seq] * 8) + bytes(16)
            for _ in range(rng.randint(0, 5)):
                if rng.random() < 0.7:
                    c["ops"].append(["pkt", "1rtt", nc().hex()])
                elif side == "server":
                    c["ops"].append(["pkt", "1rtt", "01", {"dcid_index": rng.randrange(8)}])
                else:
                    c["ops"].append(["api", "change_connection_id"])
            y = rng.random()
            if y < 0.7:
                c["frames"] = [nc().hex() for _ in range(rng.choice([1, 1, 2, 3]))]
            else:
                c["frames"] = [(b"\x19" + varint(rng.choice([0, 1, 2, 7, 8, 9, 100]))).hex() for _ in range(rng.choice([1, 2, 9]))]
            if side == "server" and rng.random() < 0.3:
                c["opts"]["dcid_index"] = rng.randrange(8)
        else:
            # CRYPTO after the handshake: reassembly and per-state dispatch of the TLS engine
            t = rng.choice([4, 4, 1, 2, 8, 11, 15, 20, 24, 99])
            body = g.data(rng.choice([0, 3, 30]))
            msg = tls_msg(t, body)
            cut = rng.randrange(len(msg) + 1)
            fr = [b"\x06" + varint(0) + varint(cut) + msg[:cut]]
            if rng.random() < 0.5:
                fr.append(b"\x06" + varint(cut) + varint(len(msg) - cut) + msg[cut:])
            if rng.random() < 0.3:
                fr.reverse()
            c["frames"] = [f.hex() for f in fr]
        cases.append(c)
    # CRYPTO in the Handshake epoch while the handshake is in progress: grammar-built TLS messages reach the message layer
    # below the frame handler (client: waiting for EncryptedExtensions; server: waiting for the client's Finished)
    for i in range(max(60, n // 12)):
        side = rng.choice(["client", "server"])
        types = [8, 8, 8, 11, 13, 15, 20, 4, 2] if side == "client" else [20, 20, 11, 15, 1, 4, 8]
        msgs = b""
        for _ in range(rng.choice([1, 1, 2, 3])):
            t = rng.choice(types)
            msgs += c05_tlsmsg.hello_grammar(rng, t == 1) if t in (1, 2) else c05_tlsmsg.other_grammar(rng, t)
        if rng.random() < 0.15:
            msgs = c05_tlsmsg.mutate(rng, msgs)
        msgs = msgs[:1000]
        cut = rng.randrange(len(msgs) + 1)
        fr = [b"\x06" + varint(0) + varint(cut) + msgs[:cut]]
        if rng.random() < 0.6:
            fr.append(b"\x06" + varint(cut) + varint(len(msgs) - cut) + msgs[cut:])
        if rng.random() < 0.2:
            fr.reverse()
        if rng.random() < 0.3:
            fr.append(g.frame(rng.choice([0x00, 0x01, 0x02, 0x1c])))
        cases.append({"spec": spec(side, "handshake", 100 + rng.randrange(8)), "ops": [], "epoch": "handshake",
                      "frames": [f.hex() for f in fr], "opts": {}})
    return cases


# ------------------------------------------------------------------------------------------
# (h) round s05c: frames placed AFTER the frame that completes a state transition, in the SAME packet.  A handler that
# finishes a transition mid-packet (handshake completion + epoch discard, HANDSHAKE_DONE, a close, the last CRYPTO bytes of a
# flight, NEW_CONNECTION_ID retiring the CID in use, RESET_STREAM / STOP_SENDING / FIN that finish a stream) leaves the frame
# loop running: whatever follows in that packet is dispatched against the state AFTER the transition.  aioquic's own peer
# never writes anything behind those frames, so only a generator produces this ordering.
def _trailing_pool(rng, g, epoch, sid=None):
    """one trailing frame (hex) for a packet of `epoch` -- legal and illegal types for that epoch"""
    from sim import F
    sid = rng.choice([0, 1, 2, 3, 4, 5, 8]) if sid is None else sid
    x = rng.random()
    if epoch != "1rtt":
        pool = [F.ping(), F.ack([(0, 0)]), F.ack([(0, rng.choice([0, 1, 3]))]), F.padding(rng.choice([1, 3])), F.crypto(0, b""),
                F.crypto(rng.choice([0, 1, 50, 1000]), g.data(rng.choice([0, 1, 4]))),
                F.connection_close(rng.choice([0, 1, 10]), 0, b"x"), F.handshake_done(), F.path_response(bytes(8)),
                F.stream(0, 0, b"hi"), F.new_connection_id(1, 0, bytes(8)), F.connection_close(0, app=True)]
        return (rng.choice(pool) if x < 0.9 else g.frame()).hex()
    pool = [F.ping(), F.ack([(0, 0)]), F.padding(2), F.crypto(0, b""), F.crypto(rng.choice([0, 1, 200]), g.data(rng.choice([0, 1, 4]))),
            F.stream(sid, 0, b"abc"), F.stream(sid, rng.choice([0, 3, 10]), g.data(rng.choice([0, 2])), fin=rng.random() < 0.5),
            F.stream(sid, 0, b"", fin=True), F.max_stream_data(sid, rng.choice([0, 10, 1 << 30])), F.stream_data_blocked(sid, 5),
            F.reset_stream(sid, 0, rng.choice([0, 3, 10])), F.stop_sending(sid, 0), F.path_response(bytes(8)),
            F.path_challenge(bytes(8)), F.handshake_done(), F.retire_connection_id(rng.choice([0, 1, 2, 7])),
            F.new_connection_id(rng.choice([1, 2, 3, 9]), rng.choice([0, 1, 2]), bytes([7] * 8)), F.new_token(b"tok"),
            F.max_data(1 << 30), F.max_streams(200), F.datagram(b"d"), F.connection_close(0, 0, b""),
            F.connection_close(0, app=True)]
    return (rng.choice(pool) if x < 0.85 else g.frame()).hex()


def gen_trailing_frame_cases(rng, n):
    """frames-tie cases ({spec, ops, epoch, frames}): [ ... transition-completing frame, trailing frame(s)] in one packet"""
    from sim import F
    g = Gen(rng)
    cases = []

    def trailing(epoch, k=None, sid=None):
        return [_trailing_pool(rng, g, epoch, sid) for _ in range(rng.choice([1, 1, 2, 3]) if k is None else k)]

    def crypto_trailing():
        return rng.choice([["@fin_dup"], ["@end_empty"], ["@zero_empty"], ["@end_new:" + g.data(rng.choice([1, 4, 4])).hex()],
                           ["@end_new:18000000"], ["@end_overlap:%d" % rng.choice([1, 4, 36])], ["@end_far:00"],
                           ["@fin_dup", "@end_empty"], ["@held:all"]])

    def add(side, state, epoch, frames, ops=(), opts=None, klass=""):
        cases.append({"spec": spec(side, state, 100 + rng.randrange(8)), "ops": [list(o) for o in ops], "epoch": epoch,
                      "frames": list(frames), "opts": dict(opts or {}), "klass": klass})

    # 1. the end of the handshake (genuine flights, held back by the "finishing" world)
    #    server: [client Finished, X]  -- the Finished completes the handshake and discards the Handshake epoch mid-packet
    sure = [["@fin_dup"], ["@end_empty"], ["@end_new:18000000"], ["@zero_empty"], ["@end_overlap:4"]]
    for i in range(max(10, n // 6)):
        tr = sure[i] if i < len(sure) else (crypto_trailing() if rng.random() < 0.6 else trailing("handshake"))
        pre = trailing("handshake", 1) if rng.random() < 0.2 else []
        add("server", "finishing", "handshake", pre + ["@held:-1"] + tr, klass="after-client-finished")
    #    client: [last packet of the server's flight (.. Finished), X]; [HANDSHAKE_DONE, X] in 1-RTT right after the flight (the
    #    whole flight must have been delivered: without it the client has no 1-RTT keys and the packet is not read at all)
    for i in range(max(10, n // 6)):
        tr = sure[i] if i < len(sure) else (crypto_trailing() if rng.random() < 0.6 else trailing("handshake"))
        add("client", "finishing", "handshake", ["@held:-1"] + tr, ops=[["pkt", "handshake", "@held:init"]],
            klass="after-server-finished")
    for i in range(max(8, n // 8)):
        full = [["pkt", "handshake", "@held:init"], ["pkt", "handshake", "@held:-1"]]
        tr = trailing("1rtt") if rng.random() < 0.7 else [F.crypto(0, b"").hex(), F.crypto(0, tls_msg(4, g.data(3))).hex()]
        add("client", "finishing", "1rtt", [F.handshake_done().hex()] + tr, ops=full, klass="after-handshake-done")
    # 2. established connections, 1-RTT
    for i in range(n):
        side = rng.choice(["client", "server"])
        state = rng.choice(["connected", "connected", "keyupdated"])
        peer_ids = [0, 4, 8, 2, 6] if side == "server" else [1, 5, 9, 3, 7]
        own_ids = [1, 3] if side == "server" else [0, 2]
        sid = rng.choice(peer_ids + peer_ids + own_ids)
        ops = []
        x = i % 8
        if x == 0:      # a close by the peer: the loop goes on in DRAINING
            first = [rng.choice([F.connection_close(rng.choice([0, 1, 0x128]), rng.choice([0, 6]), b"bye"),
                                 F.connection_close(rng.choice([0, 77]), app=True)]).hex()]
            klass = "after-connection-close"
        elif x == 1:    # a frame that makes the endpoint itself close (the loop stops there: the rest must stay unread)
            first = [rng.choice([varint(g.unknown_type()) + b"\x00", F.max_streams((1 << 60) + 1), F.stream(sid, B62, b"xx"),
                                 F.new_token(b""), F.retire_connection_id(99)]).hex()]
            klass = "after-error-frame"
        elif x == 2:    # NEW_CONNECTION_ID retiring the CID in use (and more)
            seq = rng.choice([1, 2, 3, 7])
            first = [F.new_connection_id(seq, rng.choice([seq, seq, 1, seq - 1 if seq > 1 else 1]), bytes([seq] * 8)).hex()]
            if rng.random() < 0.4:
                ops.append(["pkt", "1rtt", F.new_connection_id(1, 0, bytes([1] * 8)).hex()])
            klass = "after-new-connection-id-retiring"
        elif x == 3:    # RESET_STREAM that finishes a stream
            if rng.random() < 0.7:
                ops.append(["pkt", "1rtt", F.stream(sid, 0, b"abc", fin=rng.random() < 0.3).hex()])
            first = [F.reset_stream(sid, 0, rng.choice([0, 3, 3, 10])).hex()]
            klass = "after-reset-stream"
        elif x == 4:    # STOP_SENDING
            if rng.random() < 0.7:
                ops.append(["pkt", "1rtt", F.stream(sid, 0, b"abc").hex()])
            first = [F.stop_sending(sid, 0).hex()]
            klass = "after-stop-sending"
        elif x == 5:    # FIN completes the receiving half
            first = [F.stream(sid, 0, b"abc", fin=True).hex()]
            klass = "after-stream-fin"
        elif x == 6:    # HANDSHAKE_DONE (again) / a complete post-handshake TLS message: the last CRYPTO bytes of a flight
            if rng.random() < 0.5:
                first = [F.handshake_done().hex()]
                klass = "after-handshake-done"
            else:
                msg = tls_msg(4, (3600).to_bytes(4, "big") + (1).to_bytes(4, "big") + b"\x00" + (16).to_bytes(2, "big") + bytes(16) +
                              (0).to_bytes(2, "big")) if rng.random() < 0.7 else tls_msg(rng.choice([24, 20, 99]), g.data(3))
                first = [F.crypto(0, msg).hex()]
                ex = rng.choice([F.crypto(0, msg), F.crypto(len(msg), b""), F.crypto(0, b""), F.crypto(len(msg), g.data(4)),
                                 F.crypto(len(msg) - 1, msg[-1:]), F.crypto(len(msg), msg)])
                add(side, state, "1rtt", first + [ex.hex()] + (trailing("1rtt", 1, sid) if rng.random() < 0.3 else []), ops,
                    klass="after-last-crypto-bytes")
                continue
        else:           # PATH_CHALLENGE / RETIRE_CONNECTION_ID of the CID in use / MAX_STREAMS, then more of the same kind
            first = [rng.choice([F.path_challenge(bytes(8)), F.retire_connection_id(0), F.retire_connection_id(1)]).hex()]
            klass = "after-path-or-retire"
        opts = {"dcid_index": rng.randrange(8)} if (side == "server" and rng.random() < 0.15) else {}
        pre = trailing("1rtt", 1, sid) if rng.random() < 0.15 else []
        add(side, state, "1rtt", pre + first + trailing("1rtt", None, sid), ops, opts, klass)
    return cases


TRAIL_TRIGGERS = {
    # subject side -> [(packet type of the hidden peer, frame that completes a transition, what it completes)]
    "server": [("initial", "CRYPTO", "ClientHello: the last CRYPTO bytes of the first flight; handshake keys are installed"),
               ("handshake", "CRYPTO", "client Finished: handshake complete, Handshake epoch discarded mid-packet")],
    "client": [("initial", "CRYPTO", "ServerHello: handshake keys are installed mid-packet"),
               ("handshake", "CRYPTO", "EncryptedExtensions .. Finished: handshake complete"),
               ("1rtt", "HANDSHAKE_DONE", "handshake confirmed, Handshake epoch discarded mid-packet"),
               ("1rtt", "NEW_CONNECTION_ID", "connection IDs issued right after the handshake")],
}


def gen_trailing_worlds(rng, n):
    """whole real handshakes (both subject sides) in which the hidden real peer's own packets get trailing frames"""
    g = Gen(rng)
    crypto_items = [[["dup"]], [["empty"]], [["empty0"]], [["new", "18000000"]], [["overlap", 4]], [["far", "00"]],
                    [["dup"], ["empty"]], [["new", "00"]]]
    cases = []
    combos = [(side, t) for side in ("server", "client") for t in TRAIL_TRIGGERS[side]]
    i = 0
    while len(cases) < n:
        side, (ptype, after, _) = combos[i % len(combos)]
        rnd = i // len(combos)
        i += 1
        if after == "CRYPTO" and rnd < len(crypto_items):
            items = crypto_items[rnd]                       # every CRYPTO variant on every trigger first
        elif after == "CRYPTO" and rng.random() < 0.4:
            items = rng.choice(crypto_items)
        else:
            items = [["raw", _trailing_pool(rng, g, ptype)] for _ in range(rng.choice([1, 1, 2]))]
            if rng.random() < 0.3:
                items.insert(0, ["dup"])
        tr = {"ptype": ptype, "after": after, "items": items, "where": rng.choice(["after", "after", "end"])}
        if rng.random() < 0.25:
            tr["nth"] = rng.choice([0, 0, 0, 1])
        sp = spec(side, "trail", 800 + rng.randrange(6), trail=tr)
        if rng.random() < 0.3:
            sp["cert"] = "rsa"                              # a longer server flight (several Handshake packets)
        cases.append({"spec": sp, "ops": [["run"]], "klass": "%s/%s/%s" % (side, ptype, after)})
    return cases


def run_trailing_worlds(ctx, rng, n, stats, report):
    hist = collections.Counter()
    applied = collections.Counter()
    for case in gen_trailing_worlds(rng, n):
        def f(case=case):
            lab, probs = run_ops(case)
            seen = lab.trail.seen
            applied[case["klass"]] += seen["applied"]
            report(probs, {"spec": case["spec"], "ops": case["ops"]}, "trailing-frames:" + case["klass"])
        hist[case["klass"]] += 1
        guarded_world("trailing-frames", case, f)
        stats["worlds"] += 1
    stats["trailing_worlds"] = dict(hist)
    stats["trailing_packets_rewritten"] = dict(applied)
    stats["protected_packets"] += sum(applied.values())


def gen_header_cases(rng, n):
    cases = []
    for i in range(n):
        side = rng.choice(["server", "server", "client"])
        state = rng.choice(["firstflight", "firstflight", "connected"]) if side == "server" else rng.choice(["firstflight", "connected"])
        sp = spec(side, state, 200 + rng.randrange(4))
        x = rng.random()
        if state == "firstflight" and x < 0.7:
            o = {"ptype": rng.choice([0, 0, 1, 2, 3]), "version": rng.choice([V1, V1, V2, 0x1A2A3A4A, 0xFF00001D]),
                 "pad": rng.choice([0, 1199, 1200, 1200])}
            if rng.random() < 0.3:
                o["dcid"] = bytes(rng.randrange(256) for _ in range(rng.choice([0, 4, 8, 20]))).hex()
            if rng.random() < 0.2:
                o["scid"] = bytes(rng.randrange(256) for _ in range(rng.choice([0, 8, 20]))).hex()
            cases.append({"spec": sp, "ops": [["long", (b"\x01" + bytes(rng.choice([0, 20]))).hex(), o]]})
        else:
            first = rng.choice([0x40, 0x43, 0x5F, 0xC0, 0xD0, 0xE0, 0xF0, 0x80, 0xCF])
            ver = rng.choice([V1, V1, V2, 0, 0x1A2A3A4A])
            if first & 0x80:
                dl, sl = rng.choice([0, 8, 8, 20]), rng.choice([0, 8, 20])
                body = bytes([first]) + ver.to_bytes(4, "big") + bytes([dl]) + bytes(rng.randrange(256) for _ in range(dl)) + \
                    bytes([sl]) + bytes(rng.randrange(256) for _ in range(sl))
                if ver == 0:
                    body += b"".join(rng.choice([V1, V2, 0xAABBCCDD]).to_bytes(4, "big") for _ in range(rng.randint(0, 3)))
                else:
                    ln = rng.choice([20, 30, 60])
                    body += (varint(0) if (first & 0x30) == 0 else b"") + varint(ln) + bytes(rng.randrange(256) for _ in range(ln))
            else:
                body = bytes([first]) + bytes(rng.randrange(256) for _ in range(rng.choice([7, 8, 30, 60])))
            if rng.random() < 0.3:
                body += bytes(rng.choice([1, 1200]))
            cases.append({"spec": sp, "ops": [["dg", body.hex()]]})
    return cases


def mutate(rng, data):
    data = bytearray(data)
    x = rng.random()
    if x < 0.35 and data:
        for _ in range(rng.choice([1, 1, 2, 8])):
            data[rng.randrange(len(data))] ^= 1 << rng.randrange(8)
    elif x < 0.5 and data:
        i = rng.randrange(min(len(data), 40))
        data[i] = rng.randrange(256)
    elif x < 0.65:
        data = data[:rng.randrange(len(data) + 1)]
    elif x < 0.75:
        data += bytes(rng.randrange(256) for _ in range(rng.choice([1, 16, 200])))
    elif x < 0.85 and len(data) > 8:
        i = rng.randrange(len(data) - 4)
        del data[i:i + rng.choice([1, 2, 4])]
    else:
        i = rng.randrange(len(data) + 1)
        data[i:i] = bytes(rng.randrange(256) for _ in range(rng.choice([1, 2, 4])))
    return bytes(data)


STATES = [("client", "firstflight"), ("server", "firstflight"), ("client", "handshake"), ("server", "handshake"),
          ("client", "connected"), ("server", "connected"), ("client", "keyupdated"), ("server", "keyupdated"),
          ("client", "closing"), ("server", "closing"), ("client", "draining"), ("server", "draining")]


def run_datagram_fuzz(ctx, rng, n_worlds, per_world, stats, report):
    """(a) random / mutated-genuine / coalesced datagrams in every coarse state.  Many datagrams are fed
    to one world; on the first problem the world's op list is the replay."""
    for w in range(n_worlds):
        side, state = STATES[w % len(STATES)]
        sp = spec(side, state, 300 + rng.randrange(6))
        ops = []
        guarded_world("datagram-fuzz", lambda: {"spec": sp, "ops": ops},
                      lambda: _datagram_fuzz_world(rng, sp, ops, per_world, stats, report))


def _datagram_fuzz_world(rng, sp, ops, per_world, stats, report):
    side, state = sp["side"], sp["state"]
    if True:
        lab = Lab(sp)
        peer_dir = "s2c" if side == "client" else "c2s"
        pool = [r.data for r in lab.pair.network.wire_log if r.direction == peer_dir and r.data][-12:]
        if lab.genuine and side == "server":
            pool.append(lab.genuine)
        for i in range(per_world):
            x = rng.random()
            if x < 0.25 or not pool:
                n = rng.choice([0, 1, 2, 5, 20, 21, 40, 100, 1200, 1500])
                d = bytes(rng.randrange(256) for _ in range(n))
                if d and rng.random() < 0.5:
                    d = bytes([rng.choice([0x40, 0x43, 0xC0, 0xC3, 0xD0, 0xE0, 0xF0, 0x80])]) + d[1:]
            elif x < 0.75:
                d = mutate(rng, rng.choice(pool))
            elif x < 0.9:
                d = rng.choice(pool) + mutate(rng, rng.choice(pool))
            else:
                d = rng.choice(pool)          # replay of a genuine datagram (duplicate)
            op = ["dg" if rng.random() < 0.9 else "dgx", d.hex()]
            ops.append(op)
            lab.apply(op)
            stats["datagrams"] += 1
            if rng.random() < 0.03:
                op = ["adv", rng.choice([0.01, 0.3, 2.0])]
                ops.append(op)
                lab.apply(op)
            if lab.subject.raised:
                break
        lab.settle()
        stats["worlds"] += 1
        stats["states"]["%s/%s" % (side, state)] += 1
        probs = judge(lab)
        if probs:
            report(probs, {"spec": sp, "ops": ops}, "datagram-fuzz")


# -- (c) hostile TLS --------------------------------------------------------------------------
def client_hello_variants(rng, genuine_ch):
    """Structurally valid ClientHello messages with hostile fields, derived from a genuine one."""
    body = genuine_ch[4:]
    # fixed part: version(2) random(32) sid(1+n) suites(2+n) comp(1+n) exts(2+n)
    p = 34
    p += 1 + body[p]
    ns = int.from_bytes(body[p:p + 2], "big")
    p += 2 + ns
    p += 1 + body[p]
    head = body[:p]
    exts_raw = body[p + 2:]
    exts = []
    q = 0
    while q + 4 <= len(exts_raw):
        t = int.from_bytes(exts_raw[q:q + 2], "big")
        ln = int.from_bytes(exts_raw[q + 2:q + 4], "big")
        exts.append((t, exts_raw[q + 4:q + 4 + ln]))
        q += 4 + ln

    def build(ex, head=head):
        eb = b"".join(tls_ext(t, b) for t, b in ex)
        return tls_msg(1, head + len(eb).to_bytes(2, "big") + eb)

    def repl(t, nb):
        return [(a, (nb if a == t else b)) for a, b in exts]

    def drop(t):
        return [(a, b) for a, b in exts if a != t]

    def ks(entries):
        eb = b"".join(g.to_bytes(2, "big") + len(k).to_bytes(2, "big") + k for g, k in entries)
        return len(eb).to_bytes(2, "big") + eb

    def sni(name, name_type=0):
        e = bytes([name_type]) + len(name).to_bytes(2, "big") + name
        return len(e).to_bytes(2, "big") + e

    def alpn(names):
        eb = b"".join(bytes([len(x)]) + x for x in names)
        return len(eb).to_bytes(2, "big") + eb

    KS, SNI, ALPN, SV, SA, SG, PSKM, TP = 51, 0, 16, 43, 13, 10, 45, 0x39
    out = {
        "genuine": build(exts),
        "no_key_share": build(drop(KS)),
        "empty_key_share": build(repl(KS, ks([]))),
        "unknown_group": build(repl(KS, ks([(0x9999, b"abc")]))),
        "short_x25519": build(repl(KS, ks([(29, b"short")]))),
        "long_x25519": build(repl(KS, ks([(29, bytes(33))]))),
        "zero_x25519": build(repl(KS, ks([(29, bytes(32))]))),
        "bad_p256": build(repl(KS, ks([(23, b"\x04" + bytes(64))]))),
        "empty_p256": build(repl(KS, ks([(23, b"")]))),
        "bad_x448": build(repl(KS, ks([(30, bytes(5))]))),
        "p384_point": build(repl(KS, ks([(24, b"\x04" + bytes(96))]))),
        "unknown_then_short": build(repl(KS, ks([(0x1234, b"z"), (29, b"")]))),
        "sni_non_ascii": build(repl(SNI, sni(b"caf\xc3\xa9.example"))),
        "sni_ff": build(repl(SNI, sni(b"\xff"))),
        "sni_empty": build(repl(SNI, sni(b""))),
        "sni_unknown_type": build(repl(SNI, sni(b"x", 7))),
        "sni_oversized": build(repl(SNI, sni(b"a" * 700))),
        "alpn_empty_list": build(repl(ALPN, alpn([]))),
        "alpn_non_ascii": build(repl(ALPN, alpn([b"\xff\xfe"]))),
        "alpn_empty_name": build(repl(ALPN, alpn([b""]))),
        "no_alpn": build(drop(ALPN)),
        "no_supported_versions": build(drop(SV)),
        "no_sig_algs": build(drop(SA)),
        "empty_sig_algs": build(repl(SA, (0).to_bytes(2, "big"))),
        "no_groups": build(drop(SG)),
        "no_transport_params": build(drop(TP)),
        "empty_transport_params": build(repl(TP, b"")),
        "garbage_transport_params": build(repl(TP, bytes(rng.randrange(256) for _ in range(40)))),
        "tp_preferred_address": build(repl(TP, dict(exts).get(TP, b"") + varint(0x0D) + varint(41) + bytes(41))),
        "tp_version_info_short": build(repl(TP, dict(exts).get(TP, b"") + varint(0x11) + varint(3) + bytes(3))),
        "duplicate_key_share": build(exts + [(KS, dict(exts).get(KS, b""))]),
        "duplicate_sni": build(exts + [(SNI, sni(b"\xff"))]),
        "psk_last_garbage": build(exts + [(41, bytes(10))]),
        "psk_not_last": build([(41, (0).to_bytes(2, "big") + (0).to_bytes(2, "big"))] + exts),
        "psk_identity_no_binder": build(exts + [(41, (6 + 2).to_bytes(2, "big") + (2).to_bytes(2, "big") + b"id" + bytes(4) + (0).to_bytes(2, "big"))]),
        "early_data_no_psk": build(exts + [(42, b"")]),
        "psk_modes_empty": build(repl(PSKM, b"\x00")),
        "ext_len_overrun": build(exts[:-1]) [:-2] if len(exts) > 1 else build(exts),
        "wrong_legacy_version": tls_msg(1, b"\x03\x01" + head[2:] + build(exts)[4 + len(head):]),
        "no_ciphers": tls_msg(1, body[:35 + body[34]] + (0).to_bytes(2, "big") + b"\x01\x00" + build(exts)[4 + len(head):]),
        "trailing_bytes": tls_msg(1, build(exts)[4:] + b"zz"),
        "short_body": tls_msg(1, body[:20]),
        "empty_body": tls_msg(1, b""),
        "two_hellos": build(exts) + build(exts),
        "server_hello_to_server": tls_msg(2, body),
        "finished_first": tls_msg(20, bytes(32)),
        "unknown_msg_type": tls_msg(99, b"abc"),
    }
    for i in range(6):
        out["mut%d" % i] = tls_msg(1, mutate(rng, body))
    # transport-parameter grammar: the genuine parameters with version_information (0x11) replaced -- chosen version x
    # available-versions lists (other compatible version first / only / unknown versions / duplicates / empty), and
    # other parameters at their validation boundaries; run_tls sends the "tp_" variants to servers configured with
    # both versions AND with a single version
    tp = dict(exts).get(TP, b"")
    params = []
    q = 0
    try:
        while q < len(tp):
            pid, q = _rd_varint(tp, q)
            ln, q = _rd_varint(tp, q)
            params.append((pid, tp[q:q + ln]))
            q += ln
    except Exception:
        params = []

    def tpb(ps):
        return b"".join(varint(i) + varint(len(v)) + v for i, v in ps)

    def with_vi(chosen, available):
        v = chosen.to_bytes(4, "big") + b"".join(a.to_bytes(4, "big") for a in available)
        return build(repl(TP, tpb([(i, x) for i, x in params if i != 0x11] + [(0x11, v)])))

    def with_param(pid, value):
        return build(repl(TP, tpb([(i, x) for i, x in params if i != pid] + [(pid, value)])))

    for cname, chosen in (("v1", V1), ("v2", V2), ("unk", 0x1A2A3A4A), ("zero", 0)):
        for aname, avail in (("v2v1", [V2, V1]), ("v1v2", [V1, V2]), ("v2", [V2]), ("v1", [V1]), ("none", []),
                             ("unk_v2_v1", [0x1A2A3A4A, V2, V1]), ("v2v2v1", [V2, V2, V1]), ("zero_v1", [0, V1])):
            out["tp_vi_%s_%s" % (cname, aname)] = with_vi(chosen, avail)
    out["tp_vi_odd_length"] = with_param(0x11, V1.to_bytes(4, "big") + b"\x00\x00")
    out["tp_no_version_info"] = build(repl(TP, tpb([(i, x) for i, x in params if i != 0x11])))
    for pid, vals in ((0x0E, [0, 1, 2]), (0x0A, [20, 21]), (0x0B, [16383, 16384]), (0x03, [1199, 1200, 65528]),
                      (0x01, [0, 1 << 40]), (0x04, [(1 << 62) - 1]), (0x08, [1 << 60, (1 << 60) + 1]), (0x20, [0, 65536])):
        for v in vals:
            out["tp_param_%x_%d" % (pid, v)] = with_param(pid, varint(v))
    out["tp_duplicate_param"] = build(repl(TP, tpb(params + params[:1])))
    out["tp_unknown_param"] = build(repl(TP, tpb(params + [(0x7F31, b"abc")])))
    return out


def _rd_varint(b, q):
    n = 1 << (b[q] >> 6)
    return int.from_bytes(b[q:q + n], "big") & ((1 << (8 * n - 2)) - 1), q + n


def server_hello_variants(rng):
    def sh(key_share=(29, bytes(range(1, 33))), suite=0x1301, comp=0, sv=0x0304, extra=(), psk=None, legacy=0x0303, sid=b""):
        ex = b""
        if sv is not None:
            ex += tls_ext(43, sv.to_bytes(2, "big"))
        if key_share is not None:
            ex += tls_ext(51, key_share[0].to_bytes(2, "big") + len(key_share[1]).to_bytes(2, "big") + key_share[1])
        if psk is not None:
            ex += tls_ext(41, psk.to_bytes(2, "big"))
        for t, b in extra:
            ex += tls_ext(t, b)
        body = legacy.to_bytes(2, "big") + bytes(32) + bytes([len(sid)]) + sid + suite.to_bytes(2, "big") + bytes([comp]) + \
            len(ex).to_bytes(2, "big") + ex
        return tls_msg(2, body)
    out = {
        "plausible": sh(),
        "no_key_share": sh(key_share=None),
        "unknown_group": sh(key_share=(0x9999, b"x")),
        "short_x25519": sh(key_share=(29, b"x")),
        "zero_x25519": sh(key_share=(29, bytes(32))),
        "x448_not_offered": sh(key_share=(30, bytes(range(56)))),
        "bad_p256": sh(key_share=(23, b"\x04" + bytes(64))),
        "p384": sh(key_share=(24, b"\x04" + bytes(96))),
        "empty_key": sh(key_share=(29, b"")),
        "bad_suite": sh(suite=0x0005),
        "bad_comp": sh(comp=1),
        "no_version": sh(sv=None),
        "tls12": sh(sv=0x0303),
        "psk_unsolicited": sh(psk=0),
        "psk_index": sh(psk=7),
        "unknown_ext": sh(extra=[(0xABCD, bytes(9))]),
        "dup_key_share": sh(extra=[(51, (0x9999).to_bytes(2, "big") + (0).to_bytes(2, "big"))]),
        "legacy_wrong": sh(legacy=0x0301),
        "trailing": tls_msg(2, sh()[4:] + b"q"),
        "truncated": tls_msg(2, sh()[4:30]),
        "empty": tls_msg(2, b""),
        "client_hello_to_client": tls_msg(1, bytes(40)),
        "ee_before_hello": tls_msg(8, b"\x00\x00"),
    }
    for i in range(6):
        out["mut%d" % i] = tls_msg(2, mutate(rng, sh()[4:]))
    return out


def flight_mutations(rng):
    """name -> function(list of genuine handshake-flight messages [EE, CERT, CV, FIN]) -> new list"""
    def ee(f):
        def g(msgs):
            return [tls_msg(8, f(msgs[0][4:]))] + msgs[1:]
        return g

    def ee_ext(ex_bytes, where="front"):
        def f(body):
            exts = body[2:]
            new = ex_bytes + exts if where == "front" else exts + ex_bytes
            return len(new).to_bytes(2, "big") + new
        return ee(f)

    def alpn(names):
        eb = b"".join(bytes([len(x)]) + x for x in names)
        return tls_ext(16, len(eb).to_bytes(2, "big") + eb)

    def at(i, newmsg):
        def g(msgs):
            m = list(msgs)
            m[i] = newmsg(msgs[i]) if callable(newmsg) else newmsg
            return m
        return g

    def cert(entries, ctx=b""):
        eb = b"".join(len(d).to_bytes(3, "big") + d + len(x).to_bytes(2, "big") + x for d, x in entries)
        return tls_msg(11, bytes([len(ctx)]) + ctx + len(eb).to_bytes(3, "big") + eb)

    def cv(alg=None, sig=None):
        def f(m):
            a = int.from_bytes(m[4:6], "big") if alg is None else alg
            s = m[8:] if sig is None else sig
            return tls_msg(15, a.to_bytes(2, "big") + len(s).to_bytes(2, "big") + s)
        return f

    out = {
        "identity": lambda msgs: list(msgs),
        "ee_alpn_empty_list": ee_ext(alpn([])),
        "ee_alpn_non_ascii_only": ee_ext(alpn([b"\xff"])),
        "ee_alpn_two": ee_ext(alpn([b"a", b"b"])),
        "ee_alpn_unoffered": ee_ext(alpn([b"zz"]), "back"),
        "ee_early_data": ee_ext(tls_ext(42, b"")),
        "ee_no_extensions": ee(lambda body: (0).to_bytes(2, "big")),
        "ee_empty": ee(lambda body: b""),
        "ee_trailing": ee(lambda body: body + b"x"),
        "ee_bad_tp": ee(lambda body: (lambda e: len(e).to_bytes(2, "big") + e)(tls_ext(0x39, bytes(rng.randrange(256) for _ in range(30))))),
        "ee_tp_dup_param": ee_ext(tls_ext(0x39, varint(4) + varint(1) + b"\x05" + varint(4) + varint(1) + b"\x06")),
        "cert_empty_list": at(1, cert([])),
        "cert_garbage_der": at(1, cert([(b"hello", b"")])),
        "cert_empty_der": at(1, cert([(b"", b"")])),
        # T11: the X.509 version INTEGER (a0 03 02 01 02) set to 18: x509.InvalidVersion is not a ValueError
        "cert_bad_version": at(1, lambda m: m.replace(b"\xa0\x03\x02\x01\x02", b"\xa0\x03\x02\x01\x12", 1)),
        "cert_version_1": at(1, lambda m: m.replace(b"\xa0\x03\x02\x01\x02", b"\xa0\x03\x02\x01\x01", 1)),
        "cert_context": at(1, lambda m: tls_msg(11, b"\x03abc" + m[5:])),
        "cert_chain_garbage": at(1, lambda m: tls_msg(11, m[4:5] + (lambda eb: len(eb).to_bytes(3, "big") + eb)(m[8:] + (3).to_bytes(3, "big") + b"abc" + (0).to_bytes(2, "big")))),
        "cert_truncated": at(1, lambda m: tls_msg(11, m[4:40])),
        "cert_trailing": at(1, lambda m: tls_msg(11, m[4:] + b"x")),
        "cv_alg_rsa_pss": at(2, cv(alg=0x0804)),
        "cv_alg_ecdsa": at(2, cv(alg=0x0403)),
        "cv_alg_rsa_pkcs1": at(2, cv(alg=0x0401)),
        "cv_alg_ed448": at(2, cv(alg=0x0808)),
        "cv_alg_unadvertised": at(2, cv(alg=0x0101)),
        "cv_sig_empty": at(2, cv(sig=b"")),
        "cv_sig_garbage": at(2, cv(sig=bytes(64))),
        "cv_sig_long": at(2, cv(sig=bytes(600))),
        "cv_truncated": at(2, lambda m: tls_msg(15, m[4:7])),
        "fin_wrong": at(3, tls_msg(20, bytes(32))),
        "fin_short": at(3, tls_msg(20, bytes(5))),
        "fin_empty": at(3, tls_msg(20, b"")),
        "order_cert_first": lambda msgs: [msgs[1], msgs[0]] + msgs[2:],
        "order_skip_cert": lambda msgs: [msgs[0]] + msgs[2:],
        "order_fin_early": lambda msgs: [msgs[0], msgs[3]],
        "cert_request": lambda msgs: [msgs[0], tls_msg(13, b"\x00" + (lambda e: len(e).to_bytes(2, "big") + e)(tls_ext(13, b"\x00\x02\x08\x07")))] + msgs[1:],
        "cert_request_no_sigalgs": lambda msgs: [msgs[0], tls_msg(13, b"\x00\x00\x00")] + msgs[1:],
        "cert_request_garbage": lambda msgs: [msgs[0], tls_msg(13, bytes(7))] + msgs[1:],
        "unknown_type": lambda msgs: [tls_msg(77, b"zz")] + msgs,
    }
    for i in range(8):
        j = i % 4
        out["mut%d_%d" % (j, i)] = at(j, lambda m: tls_msg(m[0], mutate(rng, m[4:])))
    return out


def trailing_items(items, trig):
    """frames placed after the trigger frame `trig` (a parsed sim.wire.Frame): ["dup"] the trigger once more; for a CRYPTO
    trigger ["empty"] zero-length CRYPTO at its end, ["empty0"] zero-length at offset 0, ["new", hex] new bytes at its end,
    ["overlap", n] its last n bytes again, ["far", hex] bytes 100 beyond its end; ["raw", hex] anything else"""
    from sim import F
    out = []
    is_crypto = trig.name == "CRYPTO"
    off = trig.fields.get("offset", 0) if is_crypto else 0
    data = trig.fields.get("data", b"") if is_crypto else b""
    end = off + len(data)
    for it in items:
        k = it[0]
        if k == "dup":
            out.append(trig.raw)
        elif k == "empty":
            out.append(F.crypto(end, b""))
        elif k == "empty0":
            out.append(F.crypto(0, b""))
        elif k == "new":
            out.append(F.crypto(end, bytes.fromhex(it[1])))
        elif k == "far":
            out.append(F.crypto(end + 100, bytes.fromhex(it[1])))
        elif k == "overlap":
            n = min(int(it[1]), len(data))
            out.append(F.crypto(end - n, data[len(data) - n:]))
        elif k == "raw":
            out.append(bytes.fromhex(it[1]))
        else:
            raise ValueError("unknown trailing item %r" % (it,))
    return out


def make_trailing_rewrite(tr):
    """HalfPair rewrite from a JSON description (so that a replay file rebuilds it): {"ptype": packet type, "after": frame name,
    "items": [...], "where": "after" (right behind the LAST such frame of the packet) | "end" (behind every frame of the
    packet), "nth": only the n-th matching packet (default: every one)}"""
    seen = {"matched": 0, "applied": 0, "skipped_size": 0}

    def rewrite(pkt):
        if pkt.type != tr["ptype"]:
            return None
        frames = [f for f in pkt.frames if f.name != "PADDING"]
        idx = [i for i, f in enumerate(frames) if f.name == tr["after"]]
        if not idx:
            return None
        k = seen["matched"]
        seen["matched"] += 1
        if tr.get("nth") is not None and k != tr["nth"]:
            return None
        i = idx[-1]
        trailing = trailing_items(tr["items"], frames[i])
        raws = [f.raw for f in frames]
        new = raws[:i + 1] + trailing + raws[i + 1:] if tr.get("where", "after") == "after" else raws + trailing
        if sum(len(x) for x in new) > 1380:
            seen["skipped_size"] += 1
            return None
        seen["applied"] += 1
        return new
    rewrite.seen = seen
    return rewrite


def make_flight_rewrite(mut):
    from sim import F

    def rewrite(pkt):
        if pkt.type != "handshake":
            return None
        cr = [f for f in pkt.frames if f.name == "CRYPTO"]
        if not cr or cr[0].fields["offset"] != 0:
            return None
        msgs, rest = split_tls(cr[0].fields["data"])
        if len(msgs) < 4:
            return None
        new = mut(msgs)
        data = b"".join(new) + rest
        return [F.crypto(0, data)] + [f.raw for f in pkt.frames if f.name not in ("CRYPTO", "PADDING")]
    return rewrite


def post_handshake_messages(rng):
    def nst(lifetime=3600, age=1, nonce=b"", ticket=b"t" * 16, exts=b"", raw=None):
        body = lifetime.to_bytes(4, "big") + age.to_bytes(4, "big") + bytes([len(nonce)]) + nonce + \
            len(ticket).to_bytes(2, "big") + ticket + len(exts).to_bytes(2, "big") + exts
        return (4, body if raw is None else raw)
    out = {
        "nst_ok": nst(),
        "nst_max_lifetime": nst(lifetime=0xFFFFFFFF),
        "nst_early_data_bad": nst(exts=tls_ext(42, (5).to_bytes(4, "big"))),
        "nst_early_data_ok": nst(exts=tls_ext(42, (0xFFFFFFFF).to_bytes(4, "big"))),
        "nst_early_data_short": nst(exts=tls_ext(42, b"\x00")),
        "nst_empty_ticket": nst(ticket=b""),
        "nst_big_nonce": nst(nonce=bytes(255)),
        "nst_unknown_ext": nst(exts=tls_ext(0x7777, bytes(5))),
        "nst_truncated": nst(raw=bytes(6)),
        "nst_empty": nst(raw=b""),
        "nst_trailing": (4, nst()[1] + b"x"),
        "key_update": (24, b"\x00"),
        "finished_again": (20, bytes(32)),
        "client_hello_again": (1, bytes(50)),
        "cert_request_post": (13, b"\x00\x00\x00"),
        "unknown": (200, b""),
        "big": (4, bytes(3000)),
    }
    for i in range(4):
        out["nst_mut%d" % i] = (4, mutate(rng, nst()[1]))
    return out


# ------------------------------------------------------------------------------------------
# minimal witnesses of the confirmed defects (also in corpus/C05)
def _w_ncid():
    nc = lambda seq, rpt: (b"\x18" + varint(seq) + varint(rpt) + b"\x08" + bytes([seq % 256] * 8) + bytes(16)).hex()
    ops = [["pkt", "1rtt", nc(8, 7)], ["pkt", "1rtt", nc(20, 7)], ["pkt", "1rtt", nc(10, 7)],
           ["pkt", "1rtt", "01", {"dcid_index": 1}], ["pkt", "1rtt", "01", {"dcid_index": 2}],
           ["pkt", "1rtt", "01", {"dcid_index": 3}], ["pkt", "1rtt", nc(20, 11)]]
    return {"spec": spec("server", "connected", 31), "ops": ops}


def _w_ack():
    ops = [["pkt", "1rtt", "01", {"pn_skip": 1}] for _ in range(620)] + [["adv", 0.1]]
    return {"spec": spec("client", "connected", 33), "ops": ops}


def _w_retry(n, bad="1f"):
    o = {"keycid": RETRY_SCID.hex(), "scid": RETRY_SCID.hex(), "pn": 1}
    return {"spec": spec("client", "firstflight", 34), "ops": [["retry", n], ["long", bad, o], ["adv", 0.05]]}


WITNESSES = {
    "firstflight": {"spec": spec("server", "firstflight", 30), "ops": [["dg", (b"\x40" + bytes(30)).hex()]]},
    "firstflight_0rtt": {"spec": spec("server", "firstflight", 30),
                         "ops": [["dg", (bytes([0xD0]) + (1).to_bytes(4, "big") + b"\x08" + bytes(8) + b"\x08" + bytes(8) + varint(20) + bytes(20)).hex()]]},
    "transmit_before_path": {"spec": spec("server", "firstflight", 30), "ops": [["dg", "00"]]},
    "ncid": _w_ncid(),
    "ack_ranges": _w_ack(),
    "close_reason": {"spec": spec("client", "evilcert", 505, sans=14, san_len=50), "ops": [["run"]]},
    # R1: Retry with an oversized token, then an Initial packet (keys derive from the Retry's SCID) with an unknown frame type:
    # the close branch of datagrams_to_send() raises QuicPacketBuilderStop (start_packet / start_frame)
    "retry_token_close": _w_retry(1300),
    "retry_token_close_frame": _w_retry(1140),
}


# ------------------------------------------------------------------------------------------
def run(ctx):
    import logging
    logging.getLogger("quic").setLevel(logging.CRITICAL)
    rng = ctx.rng
    stats = {"datagrams": 0, "worlds": 0, "states": collections.Counter(), "tls_messages": 0, "protected_packets": 0,
             "problem_signatures": collections.Counter(), "witness": {}}
    reported = {}
    _HARNESS_CTX[0] = ctx
    HARNESS_PROBLEMS.clear()
    PEEK_MISSES.clear()
    _FAILED.clear()
    EPOCH_TIE.update(checked=0, uninitialised=0, disagreements=0, first=None, generator=None)
    del _EPOCH_KEYS[:]

    def report(probs, case, suite):
        for what, sig in probs:
            key = json.dumps(sig, sort_keys=True)
            stats["problem_signatures"][key] += 1
            if key in reported:
                continue
            reported[key] = True
            ctx.violation("impl-violation", "%s: %s" % (suite, what), corr._short(case, 6000), signature=sig)

    import time as _time
    _t = [_time.time()]
    stats["phase_s"] = {}

    def phase(name):
        now = _time.time()
        stats["phase_s"][name] = round(now - _t[0], 1)
        _t[0] = now

    patches = detect_patches()
    stats["tree_carries_fix"] = dict(patches)

    def world(suite, case):
        """one oracle world (run_ops + judge + report); harness exceptions are recorded for this case, the run continues"""
        def f():
            _, probs = run_ops(case)
            report(probs, case, suite)
            return probs
        return guarded_world(suite, case, f)

    # 0. corpus + minimal witnesses of the documented findings (always first)
    for name, case in WITNESSES.items():
        probs = world("witness:" + name, case)
        stats["witness"][name] = [p[1] for p in probs] if probs is not None else ["harness-failed"]
    for case in corr.load_corpus("C05", "oracle"):
        world("corpus", case)

    phase("witnesses")
    # 1. model ties
    fr = TSuite(ctx, "frames", "exec_c05", frames_encode, frames_impl, None,
                lambda c: c["frames"], lambda c, fs: dict(c, frames=fs),
                nontrivial=lambda c, out: len(c["frames"]) >= 1, opname=_frame_name, observe=frames_observe)
    hd = TSuite(ctx, "header", "exec_c05", header_encode, header_impl, None, None, None,
                nontrivial=lambda c, out: bool(out), observe=header_observe)

    def once(f, suite="oracle"):
        # one violation per distinct signature over the whole run (the suites report directly); an exception inside the
        # oracle's own (harness) code is a harness problem of this case, not a finding about the implementation
        def g(case):
            try:
                bad = f(case)
            except core.BuildError:
                raise
            except Exception as e:  # noqa: BLE001
                harness_problem(suite + "-oracle", case, e)
                return None
            if not bad:
                return None
            key = json.dumps(bad[1], sort_keys=True)
            stats["problem_signatures"][key] += 1
            if key in reported:
                return None
            reported[key] = True
            return bad
        return g
    fr.oracle, fr.raw_oracle = once(oracle_frames, "frames"), oracle_frames
    hd.oracle, hd.raw_oracle = once(oracle, "header"), oracle
    tm = TSuite(ctx, "tlsmsg", "exec_tlsrecv", c05_tlsmsg.encode, c05_tlsmsg.impl, None, None, None,
                nontrivial=lambda c, out: bool(c.get("data") or c.get("genuine")), opname=None, observe=tls_observe)
    tm.raw_oracle = lambda c: c05_tlsmsg.oracle(c, exc_site)
    tm.oracle = once(tm.raw_oracle, "tlsmsg")
    cl = TSuite(ctx, "close", "exec_close", lambda c: close_observe(c)[0], lambda c: close_observe(c)[1], None, None, None,
                nontrivial=lambda c, out: True, observe=close_observe)
    cl.oracle, cl.raw_oracle = once(oracle_close, "close"), oracle_close
    cl.run(corr.load_corpus("C05", "close"), "corpus")
    cl.run(gen_close_cases(rng, ctx.n(250, 6000)))
    _CACHE.clear()
    dg = TSuite(ctx, "dgram", "exec_dgram", lambda c: dgram_observe(c)[0], lambda c: dgram_observe(c)[1], None, None, None,
                nontrivial=lambda c, out: len(out) > 8, observe=dgram_observe)
    dg.oracle, dg.raw_oracle = once(oracle_dgram, "dgram"), oracle_dgram
    dg.run(corr.load_corpus("C05", "dgram"), "corpus")
    dcases = gen_dgram_cases(rng, ctx.n(600, 12000))
    for i in range(0, len(dcases), 300):
        dg.run(dcases[i:i + 300])
        _CACHE.clear()
    stats["datagrams"] += len(dcases)
    phase("close+dgram ties")
    fr.run(corr.load_corpus("C05", "frames"), "corpus")
    hd.run(corr.load_corpus("C05", "header"), "corpus")
    tcases_ = gen_trailing_frame_cases(rng, ctx.n(400, 4000))
    thist = collections.Counter(c.pop("klass") for c in tcases_)
    stats["trailing_frame_cases"] = dict(thist)
    fr.run(tcases_)
    _CACHE.clear()
    stats["protected_packets"] += sum(1 + len(c["ops"]) for c in tcases_)
    phase("trailing frames tie")
    fcases = gen_frame_cases(rng, ctx.n(5000, 60000))
    for i in range(0, len(fcases), 1000):
        fr.run(fcases[i:i + 1000])
        _CACHE.clear()
    stats["protected_packets"] += sum(1 + len(c["ops"]) for c in fcases)
    phase("frames tie")
    tm.run(corr.load_corpus("C05", "tlsmsg"), "corpus")
    tcases = c05_tlsmsg.gen_cases(rng, ctx.n(2500, 40000))
    for i in range(0, len(tcases), 1500):
        part = tcases[i:i + 1500]
        tm.run(part)
        for c in part:
            if tls_observe(c) is FAILED:
                continue
            tm.stats["op_histogram"][c05_tlsmsg.op_name(c)] += 1
            tm.stats["outcome_histogram"][json.dumps(c05_tlsmsg.impl(c)[:2])] += 1
        c05_tlsmsg._OBS.clear()
    stats["tls_messages"] += len(tcases)
    phase("tlsmsg tie")
    hcases = gen_header_cases(rng, ctx.n(600, 6000))
    hd.run(hcases)
    _CACHE.clear()
    stats["datagrams"] += len(hcases)
    for s in (fr, hd):
        for k in list(s.stats["outcome_histogram"]):
            pass

    phase("header tie")
    # 2. (a) datagram fuzz in every coarse state
    run_datagram_fuzz(ctx, rng, ctx.n(48, 600), ctx.n(250, 400), stats, report)
    phase("datagram fuzz")

    # 3. (b) multi-packet sessions: many grammar packets per connection, all epochs with keys, timers in between
    run_sessions(ctx, rng, ctx.n(60, 900), stats, report)
    phase("sessions")

    # 3b. packet-number / ACK-of-ACK games by a key-holding peer
    run_ack_games(ctx, rng, ctx.n(120, 1600), stats, report)
    phase("ack games")

    # 3b'. whole handshakes with trailing frames behind the transition-completing frame of the real peer's own packets
    run_trailing_worlds(ctx, rng, ctx.n(160, 1600), stats, report)
    phase("trailing worlds")

    # 3c. network-path table games: many source addresses, validations, promotion back, then one more packet
    pt = TSuite(ctx, "paths", "exec_paths", path_tie_encode, path_tie_impl, None,
                lambda c: c["ops"], lambda c, ops: dict(c, ops=ops),
                nontrivial=lambda c, out: len(out) > 12,
                opname=lambda o: o[0] + (":" + o[2] if o[0] == "path" else ""), observe=path_observe)
    pt.oracle, pt.raw_oracle = once(oracle, "paths"), oracle
    run_path_games(ctx, rng, ctx.n(96, 1500), stats, report, pt)
    phase("path games")

    # 4. (c) hostile TLS
    run_tls(ctx, rng, stats, report)

    # 5. Retry packets with token sizes around what an Initial header can carry, followed by something that makes the
    #    client close (or by the application's own close()): the close branch of datagrams_to_send (finding R1)
    phase("hostile tls")
    run_retry(ctx, rng, stats, report)
    phase("retry worlds")

    stats["frames_tls_layer"] = dict(FR_TLS)
    # epoch-keyed tables: theorem epoch_tables_total's prediction against the subject's dicts, every oracle world
    stats["epoch_tables_tie"] = {k: v for k, v in EPOCH_TIE.items() if k != "first"}
    # the epoch-table obligations (discard_body_keeps: _discard_epoch removes no entry; key_facts_hold; epoch_sites_known; the
    # generator's fail-closed shapes) broken on this tree are a `proof` violation of their own: harness/main.py reports a broken
    # closure only when the search found no concrete failing input, and this one should be visible next to the replay
    try:
        broken = [b for b in ctx.broken_deps() if "ConnEpochs" in b or "C05Epochs" in b or "c05_epochs" in b]
    except Exception:
        broken = []
    if broken:
        log = (ctx.build or {}).get("log", "") or ""
        i = log.find('File "./proofs/ConnEpochsP.v"')
        if i < 0:
            i = log.find('File "./model/ConnEpochs.v"')
        if i < 0:
            i = log.find("ConnEpochs")
        ctx.violation("proof",
                      "epochs: the proof obligations about the epoch-keyed dicts (coq/props/C05.v epoch_tables_total: after "
                      "_initialize no subscript of _cryptos / _crypto_buffers / _crypto_streams / _spaces raises KeyError) no longer "
                      "check against this tree: %s" % "; ".join(broken),
                      None, signature={"suite": "epochs", "kind": "proof"},
                      extra={"broken": broken, "coq_error": log[i:i + 600] if i >= 0 else "",
                             "generated_discard_body": peek(lambda: _epoch_prog(), None, "epoch generator")},
                      no_input=True)
    if EPOCH_TIE["first"] is not None:
        f_ = EPOCH_TIE["first"]
        ctx.violation("correspondence",
                      "epochs: after this world the key lists of the subject's epoch-keyed dicts are not the ones _initialize "
                      "created (coq/props/C05.v epoch_tables_total predicts they are): %s" % json.dumps(f_["impl_keys"]),
                      corr._short({"spec": f_["spec"]}, 4000), signature={"suite": "epochs", "kind": "correspondence"},
                      extra={"impl_output": f_["impl_keys"], "model_output": f_["model_keys"], "correspondence": "epochs",
                             "worlds_disagreeing": EPOCH_TIE["disagreements"], "worlds_checked": EPOCH_TIE["checked"]},
                      no_input=True)
    # tolerance bookkeeping: labelled peeks that could not read the private state, harness exceptions per case
    misses = collections.Counter(PEEK_MISSES)
    misses.update(c05_tlsmsg.PEEK_MISSES)
    misses.update(c05_paths.PEEK_MISSES)
    stats["peek_misses"] = dict(misses)
    stats["harness_problems"] = dict(HARNESS_PROBLEMS)
    stats["harness_failed_cases"] = {s_.name: s_.harness_failed for s_ in (fr, hd, tm, cl, dg, pt)}
    stats["tie_disagreements_on_reported_impl_violations"] = {s_.name: dict(s_.dup_of_reported) for s_ in (fr, hd, tm, cl, dg, pt)
                                                              if s_.dup_of_reported}
    extra = {"volume": {k: (dict(v) if isinstance(v, collections.Counter) else v) for k, v in stats.items()},
             "packets_total": stats["datagrams"] + stats["protected_packets"] + stats["tls_messages"]}
    cov = corr.merge_coverage(
        [fr, hd, tm, cl, dg, pt],
        "frames: grammar-generated payloads (every frame type x boundary values x truncation at every byte x repetition x "
        "unknown types) in protected packets to client/server in connected / key-updated / handshake states, state snapshot "
        "taken from the real connection; header: header-grammar datagrams against the decision function; distinct = distinct "
        "model input, non-trivial = at least one frame / a classified header; tlsmsg: real tls.Context client/server pairs "
        "(EC / RSA / Ed25519 / hostile certificates, client-certificate request, session tickets, PSK resumption) driven to "
        "every reachable state, then fed this world's own genuine flight (whole, partial, split, one message mutated), "
        "grammar-generated ClientHello / ServerHello / EncryptedExtensions / Certificate / CertificateRequest / CertificateVerify / "
        "Finished / NewSessionTicket with hostile fields, wrong-type, oversize and random messages; compared: outcome kind, alert "
        "number / QuicConnectionError code / exception class, resulting state, receive-buffer length, resumed flag, peer certificate, "
        "key-schedule generation",
        extra)
    cov["evaluations"] += stats["datagrams"] + stats["tls_messages"]
    return cov


def _frame_name(fhex):
    if fhex.startswith("@"):
        return fhex.partition(":")[0]
    b = bytes.fromhex(fhex)
    if not b:
        return "empty"
    t = b[0]
    if t >= 0x40:
        return "type>=0x40"
    return "0x%02x" % t


def oracle_frames(case):
    """the property itself on a frames case: nothing escapes, any later API call included"""
    r = frames_observe(case)
    if r is FAILED:
        return None
    tokens, exp, later = r
    if exp and exp[0] == 3:
        k = _key(case)
        lab = Lab(case["spec"])
        for op in case["ops"]:
            lab.apply(op)
        lab.send_packet(case["epoch"], lab.resolve(case["frames"]), case.get("opts", {}))
        probs = judge(lab)
        return probs[0] if probs else ("exception escaped receive_datagram", {"exception": "?", "site": "?"})
    if later:
        n, e, s = later[0]
        return ("%s escaped %s() at %s after the packet" % (e, n, s), {"exception": e, "site": s})
    return None


def run_sessions(ctx, rng, n, stats, report):
    g = Gen(rng)
    for i in range(n):
        side, state = rng.choice([("client", "connected"), ("server", "connected"), ("client", "keyupdated"),
                                  ("server", "keyupdated"), ("client", "handshake"), ("server", "handshake")])
        sp = spec(side, state, 400 + rng.randrange(6), dgram=rng.random() < 0.8)
        ops = []
        guarded_world("sessions", lambda: {"spec": sp, "ops": ops},
                      lambda: _session_world(rng, g, sp, ops, stats, report))


def _session_world(rng, g, sp, ops, stats, report):
    side, state = sp["side"], sp["state"]
    if True:
        lab = Lab(sp)
        epochs = ["1rtt"] if state != "handshake" else ["initial", "handshake"]
        for j in range(rng.randint(5, 60)):
            x = rng.random()
            if x < 0.8:
                # mostly-valid traffic so that the session survives: benign frame types with small values
                ft = rng.choice([0x01, 0x00, 0x02, 0x08, 0x0A, 0x0B, 0x0E, 0x0F, 0x10, 0x11, 0x12, 0x13, 0x14, 0x15, 0x16, 0x18,
                                 0x19, 0x1A, 0x04, 0x05, 0x30, 0x31, 0x06])
                frames = [g.frame(ft) for _ in range(rng.randint(1, 3))]
            else:
                frames = [g.frame() for _ in range(rng.randint(1, 4))]
            opts = {}
            y = rng.random()
            if y < 0.1:
                opts["pn_skip"] = rng.choice([1, 2, 3, 50, 1000, 1 << 20])
            elif y < 0.15 and state != "handshake":
                opts["dcid_index"] = rng.randrange(8)
            op = ["pkt", rng.choice(epochs), b"".join(frames).hex(), opts]
            ops.append(op)
            try:
                lab.apply(op)
            except ValueError:
                ops.pop()
                continue
            stats["protected_packets"] += 1
            if rng.random() < 0.1:
                op = ["adv", rng.choice([0.001, 0.03, 0.5])]
                ops.append(op)
                lab.apply(op)
            if rng.random() < 0.03 and state != "handshake":
                op = ["api", "change_connection_id"]
                ops.append(op)
                lab.apply(op)
            if lab.subject.raised or lab.subject.terminated is not None:
                break
        lab.settle()
        probs = judge(lab)
        if probs:
            report(probs, {"spec": sp, "ops": ops}, "sessions")


PN_MODES = ["largest_acked", "below", "zero", "dup_last", "above", "next"]
ACK_MODES = ["x_only", "upto_x", "all", "none"]


def run_ack_games(ctx, rng, n, stats, report):
    """Packet-number games by a key-holding peer: make the subject send an ACK-carrying packet X (PING, ack delay), then
    send correctly protected packets whose number is old / duplicated / just above X's largest_acked and which acknowledge
    X (ACK of ACK prunes the subject's ack queue) together with ack-eliciting or non-eliciting frames; every space with
    keys; followed by datagrams_to_send / timers (pump, adv, settle); judged by the no-raise oracle."""
    g = Gen(rng)
    combos = [("client", "connected", "1rtt"), ("server", "connected", "1rtt"), ("client", "keyupdated", "1rtt"),
              ("server", "keyupdated", "1rtt"), ("client", "handshake", "initial"), ("client", "handshake", "handshake"),
              ("server", "handshake", "initial"), ("server", "handshake", "handshake")]
    extras = [b"\x01", b"", b"\x01", b"\x00\x00\x00", b"\x01\x01"]
    for i in range(n):
        side, state, epoch = combos[i % len(combos)]
        sp = spec(side, state, 600 + rng.randrange(4))
        ops = []
        guarded_world("ack-games", lambda: {"spec": sp, "ops": ops},
                      lambda: _ack_game_world(rng, g, i, combos, extras, sp, epoch, ops, stats, report))


def _ack_game_world(rng, g, i, combos, extras, sp, epoch, ops, stats, report):
    if True:
        lab = Lab(sp)

        def do(op):
            ops.append(op)
            try:
                lab.apply(op)
            except ValueError:
                ops.pop()

        # the subject owes and sends an acknowledgement (X)
        for _ in range(rng.choice([1, 1, 2, 3])):
            do(["pkt", epoch, "01", {}])
        do(["adv", 0.03])
        for _ in range(rng.choice([1, 1, 2, 3])):
            if i < len(combos) * len(PN_MODES):
                pn_mode = PN_MODES[(i // len(combos)) % len(PN_MODES)]      # every mode in every space first
            else:
                pn_mode = rng.choice(PN_MODES)
            ack_mode = rng.choice(ACK_MODES[:3]) if rng.random() < 0.85 else "none"
            extra = rng.choice(extras)
            if epoch == "1rtt" and rng.random() < 0.2:
                extra = g.frame(rng.choice([0x08, 0x0A, 0x10, 0x1A, 0x30]))
            opts = {}
            if rng.random() < 0.25:
                opts["nopump"] = True
            if rng.random() < 0.2:
                opts["pick"] = "first"
            do(["ackgame", epoch, pn_mode, ack_mode, extra.hex(), opts])
            stats["protected_packets"] += 1
            stats.setdefault("ack_games", collections.Counter())["%s/%s/%s" % (epoch, pn_mode, ack_mode)] += 1
            if getattr(lab, "last_ack_game", {}).get("ackers"):
                stats.setdefault("ack_games_with_ack_of_ack", 0)
                stats["ack_games_with_ack_of_ack"] += 1
            do(["adv", rng.choice([0.001, 0.03, 0.03, 0.5])])
            if rng.random() < 0.3:
                do(["pkt", epoch, "01", {}])
                do(["adv", 0.03])
            if lab.subject.raised or lab.subject.terminated is not None:
                break
        lab.settle()
        stats["worlds"] += 1
        probs = judge(lab)
        if probs:
            report(probs, {"spec": sp, "ops": ops}, "ack-games")


def gen_path_cases(rng, n):
    """path-game cases: directed histories (n validated / unvalidated / alternately validated migrations for n around
    MAX_NETWORK_PATHS, then a packet from a never-seen address), then random ones over 2, 7, 8, 9, 12, 20 addresses; puppet worlds
    and live worlds (the real peer rebinding)"""
    combos = [("server", "connected"), ("client", "connected"), ("server", "keyupdated"), ("client", "keyupdated")]
    cases = []
    for i, (name, ops) in enumerate(c05_paths.directed_histories()):
        # every directed history on a server; the validated ones on every subject kind
        for side, state in (combos if name.startswith("validated") else combos[:1 + (i % 2)]):
            cases.append({"spec": spec(side, state, 700 + (i % 3)), "ops": ops, "name": name})
    # handshake-state subjects: Initial / Handshake-epoch packets from several addresses ("validated by the handshake")
    for i, (side, ops) in enumerate(c05_paths.handshake_histories(rng, max(4, n // 8))):
        cases.append({"spec": spec(side, "handshake", 720 + (i % 3)), "ops": ops, "name": "handshake/%s" % side})
    # server first flight: the first datagram (`_network_paths = [network_path]`), then the same Initial from another address
    lab0 = Lab(spec("server", "firstflight", 730))
    genuine = lab0.genuine.hex()
    cases.append({"spec": spec("server", "firstflight", 730), "ops": [["dg", genuine], ["dgx", genuine], ["dg", genuine], ["adv", 0.3]],
                  "name": "firstflight/server"})
    cases.append({"spec": spec("server", "firstflight", 730), "ops": [["dgx", genuine], ["dg", genuine], ["adv", 0.3]],
                  "name": "firstflight/server"})
    sizes = [2, 7, 8, 9, 12, 20]
    for i in range(n):
        side, state = combos[i % len(combos)]
        na = sizes[(i // len(combos)) % len(sizes)]
        live = (i % 7 == 3)
        sp = spec(side, state, 710 + rng.randrange(4))
        if live:
            sp["live"] = True
        ops = c05_paths.gen_history(rng, na, rng.randint(na, 3 * na + 4), side, live=live)
        # one more packet from a never-seen address, then traffic from the home address, timers
        if not live:
            ops.append(["path", na + 1, rng.choice(["bigping", "ping", "probe", "pad"]), {"nopump": True} if rng.random() < 0.2 else {}])
            ops.append(["path", 0, "bigping", {}])
        else:
            ops += [["rebind", na + 1], ["peer", "data", 0.3, 300], ["rebind", 0], ["peer", "ping", 0.3]]
        ops.append(["adv", rng.choice([0.03, 0.5])])
        cases.append({"spec": sp, "ops": ops, "name": "random/%s/%s/%d%s" % (side, state, na, "/live" if live else "")})
    return cases


@tolerant("paths")
def path_observe(case):
    return c05_paths.tie_observe(case, Lab)


def path_tie_encode(case):
    r = path_observe(case)
    return [9] if r is FAILED else r[0]


def path_tie_impl(case):
    r = path_observe(case)
    return [] if r is FAILED else r[1]


tls_observe = tolerant("tlsmsg")(c05_tlsmsg.observe)


def run_path_games(ctx, rng, n, stats, report, suite):
    """(g) network-path table built up by long histories of migrations and validations, then one more packet
    (harness/props/c05_paths.py).  Every world is judged by the no-raise oracle + the table oracle (suite.oracle, minimised
    replay) and compared call by call with coq/model/ConnPaths.v (exec_paths)."""
    cases = [dict(c, name=c.get("name", "corpus")) for c in corr.load_corpus("C05", "paths")] + \
        (guarded_world("paths-setup", None, lambda: gen_path_cases(rng, n)) or [])
    hist = collections.Counter()
    for c in cases:
        nm = c["name"]
        hist[nm if nm.split("/")[0] in ("random", "handshake", "firstflight", "corpus") else "directed"] += 1
    stats["path_games"] = dict(hist)
    stats["path_worlds"] = len(cases)
    stats["worlds"] += len(cases)
    try:
        for i in range(0, len(cases), 100):
            suite.run(cases[i:i + 100])
        stats["path_tie"] = "compared"
    except core.BuildError as e:
        # no extracted model (the generated file / the model no longer builds): the oracle alone searches for a failing input
        stats["path_tie"] = "model unavailable: %s" % (str(e)[:200],)
        for c in cases:
            oracle_world(report, "path-games:" + c["name"], c)
    pk = 0
    reached = collections.Counter()
    for v in c05_paths._TIE.values():
        pk += v[2]
    stats["path_packets_recorded"] = pk
    stats["protected_packets"] += sum(1 for c in cases for op in c["ops"] if op[0] == "path")
    c05_paths._TIE.clear()


def run_retry(ctx, rng, stats, report):
    sizes = [0, 1, 16, 100, 600, 1100, 1129, 1130, 1131, 1140, 1150, 1155, 1156, 1200, 1300, 1452, 5000, 60000]
    followups = [("bad_frame", "1f"), ("reserved", "01"), ("empty", ""), ("ccf", "1c0a0000"), ("api_close", None), ("none", None)]
    n = 0
    for size in sizes:
        for name, payload in (followups if ctx.thorough else rng.sample(followups, 3)):
            o = {"keycid": RETRY_SCID.hex(), "scid": RETRY_SCID.hex(), "pn": 1}
            if name == "reserved":
                o["reserved"] = 1
            ropts = {}
            x = rng.random()
            if x < 0.1:
                ropts["bad_tag"] = 1
            elif x < 0.2:
                ropts["wrong_dcid"] = 1
            elif x < 0.3:
                ropts["version"] = V2
            ops = [["retry", size, ropts]]
            if payload is not None:
                ops.append(["long", payload, o])
            elif name == "api_close":
                ops.append(["api", "close"])
            ops += [["adv", 0.05], ["adv", 1.0]]
            case = {"spec": spec("client", "firstflight", 40 + rng.randrange(4)), "ops": ops}
            n += 1
            oracle_world(report, "retry-token:%d:%s" % (size, name), case)
    stats["retry_worlds"] = n


def _genuine_client_hello():
    lab0 = Lab(spec("server", "firstflight", 500))
    ch_frames = [f for f in lab0.ch_pkt.frames if f.name == "CRYPTO"]
    return b"".join(f.fields["data"] for f in ch_frames)


def run_tls(ctx, rng, stats, report):
    # ClientHello -> fresh server (Initial keys are public: any host can send these)
    genuine_ch = guarded_world("tls-setup", {"spec": spec("server", "firstflight", 500), "ops": []}, _genuine_client_hello)
    if genuine_ch is None:
        return
    rounds = 1 if not ctx.thorough else 6
    for rnd in range(rounds):
        for name, ch in client_hello_variants(rng, genuine_ch).items():
            # transport-parameter variants also go to servers configured with a single QUIC version / the other order
            confs = [None] if not name.startswith("tp_") else [None, [V1], [V2, V1]]
            for sv in confs:
                sp = spec("server", "firstflight", 500) if sv is None else spec("server", "firstflight", 500, server_versions=sv)
                case = {"spec": sp, "ops": [["ch", ch.hex()]], "variant": "ch:" + name}
                stats["tls_messages"] += 1
                oracle_world(report, "tls-client-hello:%s%s" % (name, "" if sv is None else "/server_versions=%s" % sv), case)
        for name, sh in server_hello_variants(rng).items():
            case = {"spec": spec("client", "firstflight", 501), "ops": [["sh", sh.hex()]], "variant": "sh:" + name}
            stats["tls_messages"] += 1
            oracle_world(report, "tls-server-hello:" + name, case)
        muts = flight_mutations(rng)
        for name, mut in muts.items():
            for cert in (None, "rsa"):
                sp = spec("client", "rewrite", 502, rewrite=None)
                if cert:
                    sp["cert"] = cert
                case = {"spec": dict(sp), "ops": [["run"]], "variant": "flight:" + name}
                sp2 = dict(sp)
                sp2["rewrite"] = make_flight_rewrite(mut)
                case["spec"].pop("rewrite", None)
                case["flight_mutation"] = name
                stats["tls_messages"] += 1

                def flight_world(sp2=sp2, case=case, name=name, cert=cert):
                    lab = Lab(sp2)
                    lab.apply(["run"])
                    lab.settle()
                    report(judge(lab), case, "tls-flight:%s%s" % (name, "/rsa" if cert else ""))
                guarded_world("tls-flight", case, flight_world)
        for nsans, ln in ((1, 5), (5, 30), (14, 50), (25, 60), (40, 200)):
            case = {"spec": spec("client", "evilcert", 505, sans=nsans, san_len=ln), "ops": [["run"]],
                    "variant": "cert:%d_sans_of_%d" % (nsans, ln)}
            stats["tls_messages"] += 1
            oracle_world(report, "tls-certificate-sans:%dx%d" % (nsans, ln), case)
        # T10: a second ServerHello (CRYPTO continuing at the next offset) after a rejected one, received before the
        # application called datagrams_to_send(): the close is pending, the TLS engine half-updated
        for name in ("no_key_share", "unknown_group", "zero_x25519", "bad_suite"):
            sh = server_hello_variants(rng).get(name)
            if sh is None:
                continue
            f1 = b"\x06" + varint(0) + varint(len(sh)) + sh
            f2 = b"\x06" + varint(len(sh)) + varint(len(sh)) + sh
            case = {"spec": spec("client", "firstflight", 501),
                    "ops": [["long", f1.hex(), {"pn": 1, "nopump": True}], ["long", f2.hex(), {"pn": 2, "nopump": True}]],
                    "variant": "sh-twice:" + name}
            stats["tls_messages"] += 2
            oracle_world(report, "tls-server-hello-twice:" + name, case)
        for evil in ("badsan", "wildcard", "ipdns", "emptydns"):
            case = {"spec": spec("client", "evilcert", 505, evil=evil), "ops": [["run"]], "variant": "cert:" + evil}
            stats["tls_messages"] += 1
            oracle_world(report, "tls-certificate-" + evil, case)
        for name, (t, body) in post_handshake_messages(rng).items():
            for side in ("client", "server"):
                case = {"spec": spec(side, "connected", 503), "ops": [["tls", "1rtt", t, body.hex()]], "variant": "post:" + name}
                stats["tls_messages"] += 1
                oracle_world(report, "tls-post-handshake:" + name, case)
        # handshake-epoch messages to a server waiting for the client's Finished
        for name, (t, body) in post_handshake_messages(rng).items():
            case = {"spec": spec("server", "handshake", 504), "ops": [["tls", "handshake", t, body.hex()]], "variant": "hs:" + name}
            stats["tls_messages"] += 1
            oracle_world(report, "tls-handshake-epoch:" + name, case)


def replay(ctx, rep):
    import logging
    logging.getLogger("quic").setLevel(logging.CRITICAL)
    case = rep["case"]
    if isinstance(case, str):
        return {"error": "case was truncated in the replay file"}
    out = {}
    detect_patches()
    if "flight_mutation" in case:
        muts = flight_mutations(ctx.rng)
        sp = dict(case["spec"])
        sp["rewrite"] = make_flight_rewrite(muts[case["flight_mutation"]])
        lab = Lab(sp)
        lab.apply(["run"])
        lab.settle()
        out["problems"] = judge(lab)
        return out
    if "data" in case and "side" in case:
        tokens, exp, exc, _ = c05_tlsmsg.observe(case)
        out["impl"] = exp
        out["exception"] = repr(exc)
        out["model"] = core.run_model("exec_tlsrecv", [tokens], shards=1)[0]
        out["oracle"] = c05_tlsmsg.oracle(case, exc_site)
        return out
    if "frames" in case:
        r = frames_observe(case)
        if r is FAILED:
            return {"error": "harness code raised while running this case", "harness_problems": dict(HARNESS_PROBLEMS)}
        tokens, exp, later = r
        out["impl"] = exp
        out["model"] = core.run_model("exec_c05", [tokens], shards=1)[0] if tokens else None
        out["later_api_exceptions"] = later
        return out
    lab, probs = run_ops(case)
    out["problems"] = probs
    out["raised"] = lab.raised()
    out["terminated"] = repr(lab.subject.terminated)
    return out
