"""C13  Datagram emission respects size, padding and anti-amplification rules.

Ties (re-run on every check):
  * builder   : op-sequence correspondence of coq/model/Builder.v (extracted) against the real
                QuicPacketBuilder (real CryptoPair with fixed Initial keys; sizes / flags / packet
                metadata only), plus a Python oracle stating the builder-level contract directly.
  * ledger    : the anti-amplification bookkeeping of coq/model/Amplification.v against the
                per-path counters of real QuicConnection objects, projected from the simulated runs.
  * conn      : connection-level implementation oracle, independent of the model: real client/server
                QuicConnection pairs driven in-process through handshake / migration schedules; every
                datagram returned by datagrams_to_send() is checked against the property statement.
"""
import json
import os
import ssl
import sys

from vlib import core, corr

DEPENDS = ["Builder", "Amplification", "BuilderProofs", "AmplificationProofs", "C13Consts", "Base", "Tok", "C13"]
TRUSTED_BASE = [
    "extraction (ExtrOcamlBasic only; Z kept as the extracted inductive) + coq/extract/driver.ml for running the models",
    "correspondence harness harness/props/c13.py + harness/vlib/corr.py (decides what 'agree' means)",
    "modelled, not verified: packet_builder.py as a Gallina state machine on sizes (buffer content abstracted to the write "
    "position; Buffer bounds checks and CryptoPair.encrypt_packet = +16 bytes are oracles); the per-path ledger of "
    "connection.py (packet handlers' decisions are inputs of the model)",
    "tools/gen/c13_consts.py (AST extraction of the size constants, frame-type sets, the 3x factor)",
    "connection-level oracle: in-process pair driver and wire observer in harness/props/c13.py (pull_quic_header and the "
    "Initial keys of the library itself are used to recognise Initial packets)",
]
ASSUMPTIONS = [
    "total_le_budget / amplification_bound assume the caller discipline of connection.py's frame writers (frames and pushes "
    "only inside an open packet, declared capacity >= frame type size, each push <= remaining_buffer_space); "
    "_write_ack_frame is known not to guarantee it for very large ACK frames (F11)",
    "amplification_bound is about send rounds taken through the budgeted branch of datagrams_to_send; the _close_pending "
    "branch sets no budget (modelled as AClose, excluded by hypothesis)",
    "received datagram lengths are non-negative",
]

GRID = [1200, 1201, 1280, 1452, 1500, 2000, 9000]
PT = {"INITIAL": 0, "ZERO_RTT": 1, "HANDSHAKE": 2, "ONE_RTT": 5}


# =========================================================================== builder tie
class StubCrypto:
    """Size-only stand-in for CryptoPair, used when packets may exceed the 1500-byte scratch buffers of
    _crypto.c (max_datagram_size > 1500): same public surface the builder uses."""
    aead_tag_size = 16
    key_phase = 0

    def encrypt_packet(self, plain_header, plain_payload, packet_number):
        return bytes(plain_header) + bytes(plain_payload) + bytes(16)


_CRYPTO = {}


def _crypto(mds):
    if mds > 1500:
        return StubCrypto()
    if "real" not in _CRYPTO:
        from aioquic.quic.crypto import CryptoPair
        from aioquic.quic.packet import QuicProtocolVersion
        c = CryptoPair()
        c.setup_initial(bytes(8), is_client=True, version=QuicProtocolVersion.VERSION_1)
        _CRYPTO["real"] = c
    return _CRYPTO["real"]


def _mk_builder(cfg):
    from aioquic.quic.packet import QuicProtocolVersion
    from aioquic.quic.packet_builder import QuicPacketBuilder
    b = QuicPacketBuilder(host_cid=bytes(cfg["host"]), peer_cid=bytes(cfg["peer"]), version=QuicProtocolVersion.VERSION_1,
                          is_client=bool(cfg["client"]), max_datagram_size=cfg["mds"], packet_number=cfg.get("pn", 0),
                          peer_token=bytes(cfg["token"]))
    b.max_flight_bytes = cfg["mf"]
    b.max_total_bytes = cfg["mt"]
    return b


def _ptype(v):
    from aioquic.quic.packet import QuicPacketType
    try:
        return QuicPacketType(v)
    except ValueError:
        return v


def b_encode(case):
    c = case["cfg"]
    t = [int(c["client"]), c["mds"], c["peer"], c["host"], c["token"]]
    for k in ("mf", "mt"):
        t += [0] if c[k] is None else [1, c[k]]
    t += [c.get("pn", 0)]
    for op in case["ops"]:
        k = op[0]
        if k == "sp":
            t += [0, op[1]]
        elif k == "sf":
            t += [1, op[1], op[2]]
        elif k == "push":
            t += [2, op[1]]
        elif k == "flush":
            t += [3]
    return t


def _split_datagrams(datagrams, packets, is_client):
    """Assign the returned packets to the returned datagrams by locating each packet's header in the
    datagram bytes (bytes written outside packets by API misuse are skipped) -> per datagram list of packets."""
    from aioquic.quic.packet import QuicPacketType
    code = {QuicPacketType.INITIAL: 0, QuicPacketType.ZERO_RTT: 1, QuicPacketType.HANDSHAKE: 2}
    out, k = [], 0
    for d in datagrams:
        pos, mine = 0, []
        while k < len(packets) and pos < len(d):
            p = packets[k]
            at = None
            if p.packet_type == QuicPacketType.ONE_RTT:
                q = len(d) - p.sent_bytes
                if q >= pos and (d[q] & 0xC0) == 0x40:
                    at = q
            else:
                for q in range(pos, len(d) - p.sent_bytes + 1):
                    if (d[q] & 0xC0) == 0xC0 and ((d[q] >> 4) & 3) == code[p.packet_type] and d[q + 1:q + 5] == b"\x00\x00\x00\x01":
                        at = q
                        break
            if at is None:
                break
            mine.append(p)
            pos = at + p.sent_bytes
            k += 1
            if p.packet_type == QuicPacketType.ONE_RTT:
                break
        out.append(mine)
    return out, k == len(packets)


def _has_init(pkts, is_client):
    from aioquic.quic.packet import QuicPacketType
    return any(p.packet_type == QuicPacketType.INITIAL and (is_client or p.is_ack_eliciting) for p in pkts)


def _b_apply(b, crypto, op):
    """One op on the real builder -> (outcome code, flush result or None)."""
    from aioquic.buffer import BufferWriteError
    from aioquic.quic.packet_builder import QuicPacketBuilderStop
    res = None
    try:
        k = op[0]
        if k == "sp":
            b.start_packet(_ptype(op[1]), crypto)
        elif k == "sf":
            b.start_frame(op[1], op[2])
        elif k == "push":
            b._buffer.push_bytes(bytes(op[1]))
        elif k == "flush":
            res = b.flush()
        code = 0
    except QuicPacketBuilderStop:
        code = 1
    except BufferWriteError:
        code = 2
    except AssertionError:
        code = 3
    except AttributeError:
        code = 4
    except ValueError:
        code = 5
    return code, res


def _b_obs(b):
    o = []
    try:
        o += [1, b.remaining_buffer_space, b.remaining_flight_space]
    except AttributeError:
        o += [0]
    try:
        o += [1, int(b.packet_is_empty)]
    except AssertionError:
        o += [0]
    o += [b.packet_number]
    return o


def b_impl(case):
    cfg = case["cfg"]
    b = _mk_builder(cfg)
    crypto = _crypto(cfg["mds"])
    out = []
    for op in case["ops"]:
        code, res = _b_apply(b, crypto, op)
        out += [code] + _b_obs(b)
        if op[0] == "flush":
            dgs, pkts = res if res is not None else ([], [])
            groups, _ = _split_datagrams(dgs, pkts, cfg["client"])
            out += [len(dgs)]
            for d, g in zip(dgs, groups):
                out += [len(d), int(_has_init(g, cfg["client"]))]
            out += [len(pkts)]
            for p in pkts:
                out += [p.packet_type.value, p.sent_bytes, int(p.in_flight), int(p.is_ack_eliciting),
                        int(p.is_crypto_packet), p.packet_number]
    return out


def _uvar_size(v):
    v %= 1 << 64
    return 1 if v < 64 else 2 if v < 16384 else 4 if v < (1 << 30) else 8 if v < (1 << 62) else None


def b_oracle(case):
    """The builder-level contract coded directly on the real builder's public behaviour:
       (1) every datagram <= max_datagram_size;
       (2) caller-disciplined histories: sum of datagram bytes <= max_total_bytes (+1 only when a packet with a
           one-byte payload was completed: the header-protection sample padding);
       (3) a datagram containing a client Initial / ack-eliciting server Initial is at least as long as the
           capacity the budgets leave: min(max_datagram_size, max_total_bytes - bytes so far, max_flight_bytes -
           flight bytes so far) -- hence >= 1200 whenever that capacity is."""
    cfg = case["cfg"]
    b = _mk_builder(cfg)
    crypto = _crypto(cfg["mds"])
    mds, mt, mf = cfg["mds"], cfg["mt"], cfg["mf"]
    total = flight = 0
    disciplined, sample = True, False
    in_packet, payload = False, 0
    errors = False
    for i, op in enumerate(case["ops"]):
        k = op[0]
        # discipline bookkeeping (independent of the model: uses the public properties only)
        if k == "sf":
            sz = _uvar_size(op[1])
            if not in_packet or sz is None or sz > op[2]:
                disciplined = False
        elif k == "push":
            if not in_packet or op[1] < 0 or op[1] > b.remaining_buffer_space:
                disciplined = False
        elif k in ("sp", "flush") and in_packet and payload == 1:
            sample = True
        t0 = b._buffer.tell()
        code, res = _b_apply(b, crypto, op)
        if code not in (0, 1):
            errors = True
        if k == "sp":
            in_packet = code == 0
            payload = 0
        elif k in ("sf", "push") and code == 0 and in_packet:
            payload += b._buffer.tell() - t0
        elif k == "flush":
            in_packet = False
        if k == "flush" and res is not None:
            dgs, pkts = res
            groups, complete = _split_datagrams(dgs, pkts, cfg["client"])
            for d, g in zip(dgs, groups):
                n = len(d)
                if n > mds:
                    return ("builder returned a %d-byte datagram, max_datagram_size=%d (op %d)" % (n, mds, i),
                            {"level": "builder", "rule": "datagram_le_max"})
                cap = mds
                if mt is not None:
                    cap = min(cap, mt - total)
                if mf is not None:
                    cap = min(cap, mf - flight)
                if disciplined and not errors and complete and _has_init(g, cfg["client"]) and n < cap:
                    return ("Initial-carrying datagram of %d bytes although %d bytes were available (op %d)" % (n, cap, i),
                            {"level": "builder", "rule": "initial_padded_to_capacity"})
                pk = sum(p.sent_bytes for p in g)
                flight += sum(p.sent_bytes for p in g if p.in_flight) + (n - pk)
                total += n
            if disciplined and not errors and mt is not None and total > max(0, mt + (1 if sample else 0)):
                return ("disciplined history sent %d bytes with max_total_bytes=%d (op %d)" % (total, mt, i),
                        {"level": "builder", "rule": "total_le_budget", "overshoot": total - mt})
    return None


FRAME_TYPES = [0x00, 0x01, 0x02, 0x03, 0x04, 0x06, 0x08, 0x0A, 0x0F, 0x10, 0x18, 0x1A, 0x1B, 0x1C, 0x1D, 0x1E, 0x30, 0x31]


def _b_cfg(rng, small=False):
    mds = rng.choice([150, 200, 260, 400] if small else GRID + [1200, 1200, 1350])
    peer, host = rng.choice([(8, 8), (8, 8), (0, 0), (20, 20), (rng.randint(0, 20), rng.randint(0, 20))])
    token = rng.choice([0, 0, 0, 16, 63, 64, 70, 90, 120, 200]) if rng.random() < 0.4 else 0

    def budget():
        r = rng.random()
        if r < 0.3:
            return None
        if r < 0.4:
            return rng.randint(-50, 60)
        if r < 0.6:
            return rng.randint(0, 3 * mds)
        if r < 0.8:
            return rng.choice([1, 2, 3]) * mds + rng.randint(-130, 130)
        return rng.randint(0, 20 * mds)
    return {"client": int(rng.random() < 0.5), "mds": mds, "peer": peer, "host": host, "token": token,
            "mf": budget(), "mt": budget(), "pn": rng.choice([0, 0, 1, 7, 65535, 1 << 20])}


def b_gen(rng, n, small=False):
    """Structured histories shaped like connection.py's use (packets of frames sized from the space the builder
    reports), with a wild fraction (pushes beyond the space, frames outside packets, bad types)."""
    cases = []
    for _ in range(n):
        cfg = _b_cfg(rng, small)
        wild = rng.random() < 0.25
        b = _mk_builder(cfg)
        crypto = _crypto(cfg["mds"])
        ops = []
        in_packet = False
        nops = rng.randint(1, 40)
        epoch_order = [0, 2, rng.choice([1, 5])]
        ei = 0
        while len(ops) < nops:
            r = rng.random()
            if wild and r < 0.12:
                op = rng.choice([["push", rng.choice([0, 1, 5, 100, cfg["mds"], cfg["mds"] + 1, -1])],
                                 ["sf", rng.choice(FRAME_TYPES + [64, 20000, 1 << 31, (1 << 62) - 1, 1 << 62, (1 << 64) + 2, -3]),
                                  rng.choice([-5, 0, 1, 2, 30, 5000])],
                                 ["sp", rng.choice([0, 1, 2, 3, 4, 5, 6])], ["flush"]])
            elif not in_packet or r < 0.15:
                if rng.random() < 0.7:
                    t = epoch_order[min(ei, 2)]
                    if rng.random() < 0.5:
                        ei += 1
                else:
                    t = rng.choice([0, 1, 2, 5])
                op = ["sp", t]
            elif r < 0.55:
                ft = rng.choice(FRAME_TYPES)
                try:
                    space = b.remaining_flight_space if ft not in (2, 3, 0x1C, 0x1D) else b.remaining_buffer_space
                except AttributeError:
                    space = 10
                cap = rng.choice([1, 1, 1, 2, 4, 9, 20, 64, space, space, space + 1, max(1, space - 1), max(1, space // 2)])
                op = ["sf", ft, cap]
            elif r < 0.92:
                try:
                    space = b.remaining_buffer_space
                    fspace = b.remaining_flight_space
                except AttributeError:
                    space = fspace = 10
                pick = rng.choice([0, 1, 1, 2, 3, 8, 40, 100, space, space, fspace, space - 1, space // 2, max(0, space) // 3,
                                   rng.randint(0, max(0, space))])
                if not wild:
                    pick = max(0, min(pick, space))
                op = ["push", pick]
            else:
                op = ["flush"]
            code, _ = _b_apply(b, crypto, op)
            if op[0] == "sp":
                in_packet = code == 0
            elif op[0] == "flush":
                in_packet = False
            ops.append(op)
        if ops[-1][0] != "flush":
            ops.append(["flush"])
        cases.append({"cfg": cfg, "ops": ops})
    return cases


def b_boundary():
    """Boundary table: budgets around the header+tag sizes (the one-byte overshoot states), around 128 bytes of
    remaining space, around 1200; the states isolated by coq/proofs (initial_padded)."""
    cases = []
    base = {"client": 0, "mds": 1200, "peer": 8, "host": 8, "token": 0, "mf": None, "mt": None, "pn": 0}
    for t, hdr in ((5, 11), (2, 27), (0, 28), (1, 27)):
        for mt in range(hdr + 14, hdr + 21):
            for ft in (1, 2, 0x1E, 6):
                cases.append({"cfg": dict(base, mt=mt), "ops": [["sp", t], ["sf", ft, 1], ["flush"]]})
                cases.append({"cfg": dict(base, mt=mt), "ops": [["sp", t], ["sf", ft, 1], ["push", 1], ["flush"]]})
                cases.append({"cfg": dict(base, mf=mt), "ops": [["sp", t], ["sf", ft, 1], ["flush"]]})
    for client in (0, 1):
        for mf in (None, -5, 0, 30, 60, 500, 1199, 1200, 1201, 5000):
            for mt in (None, 0, 40, 300, 1199, 1200, 1201, 2400, 2500, 3600):
                for ft in (2, 6, 1):
                    for tail in ([], [["sp", 2], ["sf", 6, 1], ["push", 100]], [["sp", 5], ["sf", 1, 1]],
                                 [["sp", 5], ["sf", 8, 1], ["push", 50]]):
                        cfg = dict(base, client=client, mf=mf, mt=mt)
                        cases.append({"cfg": cfg, "ops": [["sp", 0], ["sf", ft, 1], ["push", 20]] + tail + [["flush"]]})
    for used in (1050, 1071, 1072, 1073, 1080, 1100):
        cases.append({"cfg": dict(base), "ops": [["sp", 0], ["sf", 6, 1], ["push", used - 28 - 1 - 16], ["sp", 2], ["sf", 6, 1],
                                                  ["push", 10], ["flush"]]})
    for token in (60, 70, 83, 84, 85, 100):
        cases.append({"cfg": dict(base, client=1, token=token),
                      "ops": [["sp", 0], ["sf", 6, 1], ["push", 900], ["sp", 0], ["sf", 1, 1], ["flush"]]})
    return cases


def _ops(c):
    return c["ops"]


def _rebuild(c, ops):
    d = dict(c)
    d["ops"] = ops
    return d


def builder_suite(ctx):
    return corr.Suite(ctx, "builder", "exec_builder", b_encode, b_impl, b_oracle, _ops, _rebuild,
                      nontrivial=lambda c, out: any(o[0] == "sf" for o in c["ops"]) and len(c["ops"]) >= 3,
                      opname=lambda o: o[0])


# =========================================================================== driver
def run(ctx):
    bs = builder_suite(ctx)
    bs.run(corr.load_corpus("C13", "builder"), "corpus")
    rng = ctx.rng
    bs.run(b_boundary())
    bs.run(b_gen(rng, ctx.n(2500, 30000)))
    bs.run(b_gen(rng, ctx.n(800, 8000), small=True))
    return corr.merge_coverage([bs], "builder: structured + wild op histories and boundary tables", {})


def replay(ctx, rep):
    case = rep["case"]
    res = {}
    bs = builder_suite(ctx)
    try:
        d, e, g = bs.disagree(case)
        res["builder"] = {"disagree": d, "impl": e, "model": g, "oracle": bs.oracle(case)}
    except Exception as ex:
        res["builder"] = {"not-applicable": repr(ex)}
    return res
