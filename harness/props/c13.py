"""C13  Datagram emission respects size, padding and anti-amplification rules.

Ties (re-run on every check):
  * builder   : op-sequence correspondence of coq/model/Builder.v (extracted) against the real
                QuicPacketBuilder (real CryptoPair with fixed Initial keys; sizes / flags / packet
                metadata only), plus a Python oracle stating the builder-level contract directly.
  * ledger    : the anti-amplification bookkeeping of coq/model/Amplification.v against the
                per-path counters of real QuicConnection objects, projected from the simulated runs.
  * conn      : connection-level implementation oracle, independent of the model: real client/server
                QuicConnection pairs driven in-process through handshake / migration schedules; every
                datagram returned by datagrams_to_send() is checked against the property statement.
"""
import json
import os
import ssl
import sys

from vlib import core, corr

GENERATORS = ["c13_consts", "c13_writers"]
DEPENDS = ["Builder", "Amplification", "BuilderProofs", "AmplificationProofs", "C13Consts", "Base", "Tok", "C13",
           "C13Writers", "Writers", "WritersBase", "WritersFrames", "WritersProofs", "WritersCorollaries", "WritersFlight",
           "StreamSend", "StreamSendP", "Varint", "BuilderFlight", "FlightBudget"]
TRUSTED_BASE = [
    "extraction (ExtrOcamlBasic only; Z kept as the extracted inductive) + coq/extract/driver.ml for running the models",
    "correspondence harness harness/props/c13.py + harness/vlib/corr.py (decides what 'agree' means)",
    "modelled, not verified: packet_builder.py as a Gallina state machine on sizes (buffer content abstracted to the write "
    "position; Buffer bounds checks and CryptoPair.encrypt_packet = +16 bytes are oracles); the per-path ledger of "
    "connection.py (packet handlers' decisions are inputs of the model)",
    "tools/gen/c13_consts.py (AST extraction of the size constants, frame-type sets, the 3x factor)",
    "tools/gen/c13_writers.py (AST extraction of every frame writer's start_frame(type, capacity=...) call, its buf.push_* "
    "sequence, the *_CAPACITY constants, the shape of packet.push_ack_frame and the order of the writer calls in "
    "_write_application / _write_handshake / datagrams_to_send); the control flow of the writers and of the packet loops in "
    "coq/model/Writers.v is written by hand from the source and tied by harness/props/c13_writers.py (recorded builder "
    "sessions of real connections and direct writer calls replayed through the extracted model exec_writers)",
    "the decision inputs of the writer model (which frames are pending, field values, the C10 stream sender states) are "
    "universally quantified, not derived from a model of the whole connection",
    "connection-level oracle: in-process pair driver and wire observer in harness/props/c13.py (pull_quic_header and the "
    "Initial keys of the library itself are used to recognise Initial packets)",
]
ASSUMPTIONS = [
    "the *_connection theorems (writers_disciplined, total_le_budget_connection, amplification_bound_connection, "
    "flight_le_budget_connection, flight_budget_connection) need no discipline hypothesis: it is proved of the writer model "
    "for field values in their wire ranges (dts_ok: varints < 2^62, connection ids <= 20 bytes, stream senders reachable by a "
    "legitimate C10 history and not reset); since fix 7b299f1 (ACK before PATH_CHALLENGE) the flight variants need no further "
    "proviso (former_order_flight_refuted keeps the old order as an explicit op history)",
    "total_le_budget / amplification_bound (builder level, kept) assume the caller discipline of connection.py's frame writers (frames only inside "
    "an open packet, declared capacity >= frame type size, bytes pushed only into the buffer handed out by start_frame, i.e. "
    "after a frame was started in the open packet, each push <= remaining_buffer_space)",
    "amplification_bound is about send rounds taken through the budgeted branch of datagrams_to_send; the _close_pending "
    "branch sets no budget (modelled as AClose, excluded by hypothesis)",
    "received datagram lengths are non-negative",
]

GRID = [1200, 1201, 1280, 1452, 1500, 2000, 9000]
CRYPTO_MAX = 1500   # PACKET_LENGTH_MAX of src/aioquic/_crypto.c: above it AEAD.encrypt / HeaderProtection.apply raise CryptoError
PT = {"INITIAL": 0, "ZERO_RTT": 1, "HANDSHAKE": 2, "ONE_RTT": 5}


# =========================================================================== builder tie
class StubCrypto:
    """Size-only stand-in for CryptoPair, used when packets may exceed the 1500-byte scratch buffers of
    _crypto.c (max_datagram_size > 1500): same public surface the builder uses."""
    aead_tag_size = 16
    key_phase = 0

    def encrypt_packet(self, plain_header, plain_payload, packet_number):
        return bytes(plain_header) + bytes(plain_payload) + bytes(16)


_CRYPTO = {}


def _crypto(mds):
    if mds > CRYPTO_MAX:
        return StubCrypto()
    if "real" not in _CRYPTO:
        from aioquic.quic.crypto import CryptoPair
        from aioquic.quic.packet import QuicProtocolVersion
        c = CryptoPair()
        c.setup_initial(bytes(8), is_client=True, version=QuicProtocolVersion.VERSION_1)
        _CRYPTO["real"] = c
    return _CRYPTO["real"]


def _mk_builder(cfg):
    from aioquic.quic.packet import QuicProtocolVersion
    from aioquic.quic.packet_builder import QuicPacketBuilder
    b = QuicPacketBuilder(host_cid=bytes(cfg["host"]), peer_cid=bytes(cfg["peer"]), version=QuicProtocolVersion.VERSION_1,
                          is_client=bool(cfg["client"]), max_datagram_size=cfg["mds"], packet_number=cfg.get("pn", 0),
                          peer_token=bytes(cfg["token"]))
    b.max_flight_bytes = cfg["mf"]
    b.max_total_bytes = cfg["mt"]
    return b


def _ptype(v):
    from aioquic.quic.packet import QuicPacketType
    try:
        return QuicPacketType(v)
    except ValueError:
        return v


def b_encode(case):
    c = case["cfg"]
    t = [int(c["client"]), c["mds"], c["peer"], c["host"], c["token"]]
    for k in ("mf", "mt"):
        t += [0] if c[k] is None else [1, c[k]]
    # the CryptoPair handed to the builder (see _crypto): aioquic's own (1500-byte limit of _crypto.c) or the size-only stub
    t += [0] if c["mds"] > CRYPTO_MAX else [1, CRYPTO_MAX]
    t += [c.get("pn", 0)]
    for op in case["ops"]:
        k = op[0]
        if k == "sp":
            t += [0, op[1]]
        elif k == "sf":
            t += [1, op[1], op[2]]
        elif k == "push":
            t += [2, op[1]]
        elif k == "flush":
            t += [3]
    return t


def _split_datagrams(datagrams, packets, is_client):
    """Assign the returned packets to the returned datagrams by locating each packet's header in the
    datagram bytes (bytes written outside packets by API misuse are skipped) -> per datagram list of packets."""
    from aioquic.quic.packet import QuicPacketType
    code = {QuicPacketType.INITIAL: 0, QuicPacketType.ZERO_RTT: 1, QuicPacketType.HANDSHAKE: 2}
    out, k = [], 0
    for d in datagrams:
        pos, mine = 0, []
        while k < len(packets) and pos < len(d):
            p = packets[k]
            at = None
            if p.packet_type == QuicPacketType.ONE_RTT:
                q = len(d) - p.sent_bytes
                if q >= pos and (d[q] & 0xC0) == 0x40:
                    at = q
            else:
                for q in range(pos, len(d) - p.sent_bytes + 1):
                    if (d[q] & 0xC0) == 0xC0 and ((d[q] >> 4) & 3) == code[p.packet_type] and d[q + 1:q + 5] == b"\x00\x00\x00\x01":
                        at = q
                        break
            if at is None:
                break
            mine.append(p)
            pos = at + p.sent_bytes
            k += 1
            if p.packet_type == QuicPacketType.ONE_RTT:
                break
        out.append(mine)
    return out, k == len(packets)


def _has_init(pkts, is_client):
    from aioquic.quic.packet import QuicPacketType
    return any(p.packet_type == QuicPacketType.INITIAL and (is_client or p.is_ack_eliciting) for p in pkts)


def _b_apply(b, crypto, op):
    """One op on the real builder -> (outcome code, flush result or None)."""
    from aioquic._crypto import CryptoError
    from aioquic.buffer import BufferWriteError
    from aioquic.quic.packet_builder import QuicPacketBuilderStop
    res = None
    try:
        k = op[0]
        if k == "sp":
            b.start_packet(_ptype(op[1]), crypto)
        elif k == "sf":
            b.start_frame(op[1], op[2])
        elif k == "push":
            b._buffer.push_bytes(bytes(op[1]))
        elif k == "flush":
            res = b.flush()
        code = 0
    except QuicPacketBuilderStop:
        code = 1
    except BufferWriteError:
        code = 2
    except AssertionError:
        code = 3
    except AttributeError:
        code = 4
    except CryptoError:     # a ValueError subclass: encrypt_packet refused the packet (larger than _crypto.c's buffers)
        code = 6
    except ValueError:
        code = 5
    return code, res


def _b_obs(b):
    o = []
    try:
        o += [1, b.remaining_buffer_space, b.remaining_flight_space]
    except AttributeError:
        o += [0]
    try:
        o += [1, int(b.packet_is_empty)]
    except AssertionError:
        o += [0]
    o += [b.packet_number]
    return o


def b_impl(case):
    cfg = case["cfg"]
    b = _mk_builder(cfg)
    crypto = _crypto(cfg["mds"])
    out = []
    for op in case["ops"]:
        code, res = _b_apply(b, crypto, op)
        out += [code] + _b_obs(b)
        if op[0] == "flush":
            dgs, pkts = res if res is not None else ([], [])
            groups, _ = _split_datagrams(dgs, pkts, cfg["client"])
            out += [len(dgs)]
            for d, g in zip(dgs, groups):
                out += [len(d), int(_has_init(g, cfg["client"]))]
            out += [len(pkts)]
            for p in pkts:
                out += [p.packet_type.value, p.sent_bytes, int(p.in_flight), int(p.is_ack_eliciting),
                        int(p.is_crypto_packet), p.packet_number]
    return out


def _uvar_size(v):
    v %= 1 << 64
    return 1 if v < 64 else 2 if v < 16384 else 4 if v < (1 << 30) else 8 if v < (1 << 62) else None


def b_oracle(case):
    """The builder-level contract coded directly on the real builder's public behaviour:
       (1) every datagram <= max_datagram_size;
       (2) caller-disciplined histories: sum of datagram bytes <= max_total_bytes, exactly (no "+1": since fix e93c691
           start_frame reserves room for the header-protection sample padding of a one-byte packet);
       (3) a datagram containing a client Initial / ack-eliciting server Initial is at least as long as the
           capacity the budgets leave: min(max_datagram_size, max_total_bytes - bytes so far, max_flight_bytes -
           flight bytes so far) -- hence >= 1200 whenever that capacity is.
       Discipline = what connection.py's frame writers do: start_frame only inside an open packet with capacity >= the
       size of the frame type; bytes pushed only after a frame was started in the open packet (the packet is not empty),
       never more than remaining_buffer_space."""
    cfg = case["cfg"]
    b = _mk_builder(cfg)
    crypto = _crypto(cfg["mds"])
    mds, mt, mf = cfg["mds"], cfg["mt"], cfg["mf"]
    total = flight = 0
    disciplined = True
    in_packet = False
    errors = False
    for i, op in enumerate(case["ops"]):
        k = op[0]
        # discipline bookkeeping (independent of the model: uses the public properties only)
        if k == "sf":
            sz = _uvar_size(op[1])
            if not in_packet or sz is None or sz > op[2]:
                disciplined = False
        elif k == "push":
            try:
                ok = in_packet and not b.packet_is_empty and 0 <= op[1] <= b.remaining_buffer_space
            except (AssertionError, AttributeError):
                ok = False
            if not ok:
                disciplined = False
        code, res = _b_apply(b, crypto, op)
        if code not in (0, 1):
            errors = True
        if k == "sp":
            in_packet = code == 0
        elif k == "flush":
            in_packet = False
        if k == "flush" and res is not None:
            dgs, pkts = res
            groups, complete = _split_datagrams(dgs, pkts, cfg["client"])
            for d, g in zip(dgs, groups):
                n = len(d)
                if n > mds:
                    return ("builder returned a %d-byte datagram, max_datagram_size=%d (op %d)" % (n, mds, i),
                            {"level": "builder", "rule": "datagram_le_max"})
                cap = mds
                if mt is not None:
                    cap = min(cap, mt - total)
                if mf is not None:
                    cap = min(cap, mf - flight)
                if disciplined and not errors and complete and _has_init(g, cfg["client"]) and n < cap:
                    return ("Initial-carrying datagram of %d bytes although %d bytes were available (op %d)" % (n, cap, i),
                            {"level": "builder", "rule": "initial_padded_to_capacity"})
                pk = sum(p.sent_bytes for p in g)
                flight += sum(p.sent_bytes for p in g if p.in_flight) + (n - pk)
                total += n
            if disciplined and mt is not None and total > max(0, mt):
                return ("disciplined history sent %d bytes with max_total_bytes=%d (op %d)" % (total, mt, i),
                        {"level": "builder", "rule": "total_le_budget", "overshoot": total - mt})
    return None


FRAME_TYPES = [0x00, 0x01, 0x02, 0x03, 0x04, 0x06, 0x08, 0x0A, 0x0F, 0x10, 0x18, 0x1A, 0x1B, 0x1C, 0x1D, 0x1E, 0x30, 0x31]


def _b_cfg(rng, small=False):
    mds = rng.choice([150, 200, 260, 400] if small else GRID + [1200, 1200, 1350])
    peer, host = rng.choice([(8, 8), (8, 8), (0, 0), (20, 20), (rng.randint(0, 20), rng.randint(0, 20))])
    token = rng.choice([0, 0, 0, 16, 63, 64, 70, 90, 120, 200]) if rng.random() < 0.4 else 0

    def budget():
        r = rng.random()
        if r < 0.3:
            return None
        if r < 0.4:
            return rng.randint(-50, 60)
        if r < 0.6:
            return rng.randint(0, 3 * mds)
        if r < 0.8:
            return rng.choice([1, 2, 3]) * mds + rng.randint(-130, 130)
        return rng.randint(0, 20 * mds)
    return {"client": int(rng.random() < 0.5), "mds": mds, "peer": peer, "host": host, "token": token,
            "mf": budget(), "mt": budget(), "pn": rng.choice([0, 0, 1, 7, 65535, 1 << 20])}


def b_gen(rng, n, small=False):
    """Structured histories shaped like connection.py's use (packets of frames sized from the space the builder
    reports), with a wild fraction (pushes beyond the space, frames outside packets, bad types)."""
    cases = []
    for _ in range(n):
        cfg = _b_cfg(rng, small)
        wild = rng.random() < 0.25
        b = _mk_builder(cfg)
        crypto = _crypto(cfg["mds"])
        ops = []
        in_packet = False
        nops = rng.randint(1, 40)
        epoch_order = [0, 2, rng.choice([1, 5])]
        ei = 0
        while len(ops) < nops:
            r = rng.random()
            if wild and r < 0.12:
                op = rng.choice([["push", rng.choice([0, 1, 5, 100, cfg["mds"], cfg["mds"] + 1, -1])],
                                 ["sf", rng.choice(FRAME_TYPES + [64, 20000, 1 << 31, (1 << 62) - 1, 1 << 62, (1 << 64) + 2, -3]),
                                  rng.choice([-5, 0, 1, 2, 30, 5000])],
                                 ["sp", rng.choice([0, 1, 2, 3, 4, 5, 6])], ["flush"]])
            elif not in_packet or r < 0.15:
                if rng.random() < 0.7:
                    t = epoch_order[min(ei, 2)]
                    if rng.random() < 0.5:
                        ei += 1
                else:
                    t = rng.choice([0, 1, 2, 5])
                op = ["sp", t]
            elif r < 0.55:
                ft = rng.choice(FRAME_TYPES)
                try:
                    space = b.remaining_flight_space if ft not in (2, 3, 0x1C, 0x1D) else b.remaining_buffer_space
                except AttributeError:
                    space = 10
                cap = rng.choice([1, 1, 1, 2, 4, 9, 20, 64, space, space, space + 1, max(1, space - 1), max(1, space // 2)])
                op = ["sf", ft, cap]
            elif r < 0.92:
                try:
                    space = b.remaining_buffer_space
                    fspace = b.remaining_flight_space
                except AttributeError:
                    space = fspace = 10
                pick = rng.choice([0, 1, 1, 2, 3, 8, 40, 100, space, space, fspace, space - 1, space // 2, max(0, space) // 3,
                                   rng.randint(0, max(0, space))])
                if not wild:
                    pick = max(0, min(pick, space))
                op = ["push", pick]
                try:
                    empty = b.packet_is_empty
                except AssertionError:
                    empty = True
                if not wild and empty:
                    # connection.py writes bytes only into the buffer handed out by start_frame
                    op = ["sf", rng.choice(FRAME_TYPES), rng.choice([1, 1, 2, 3, 8, max(1, space), max(1, space - 1)])]
            else:
                op = ["flush"]
            code, _ = _b_apply(b, crypto, op)
            if op[0] == "sp":
                in_packet = code == 0
            elif op[0] == "flush":
                in_packet = False
            ops.append(op)
        if ops[-1][0] != "flush":
            ops.append(["flush"])
        cases.append({"cfg": cfg, "ops": ops})
    return cases


def b_boundary():
    """Boundary table: budgets around the header+tag sizes (the one-byte overshoot states), around 128 bytes of
    remaining space, around 1200; the states isolated by coq/proofs (initial_padded)."""
    cases = []
    base = {"client": 0, "mds": 1200, "peer": 8, "host": 8, "token": 0, "mf": None, "mt": None, "pn": 0}
    for t, hdr in ((5, 11), (2, 27), (0, 28), (1, 27)):
        for mt in range(hdr + 14, hdr + 21):
            for ft in (1, 2, 0x1E, 6):
                cases.append({"cfg": dict(base, mt=mt), "ops": [["sp", t], ["sf", ft, 1], ["flush"]]})
                cases.append({"cfg": dict(base, mt=mt), "ops": [["sp", t], ["sf", ft, 1], ["push", 1], ["flush"]]})
                cases.append({"cfg": dict(base, mf=mt), "ops": [["sp", t], ["sf", ft, 1], ["flush"]]})
    # the reservation of fix e93c691 (first frame of an empty packet reserves 2 bytes): budgets around header + 1..3 + tag,
    # declared capacities around the reserve, one- and two-byte frame types, second frames, a frame refused then a
    # smaller packet, bytes pushed with no frame started (undisciplined: the only way left to exceed the budget)
    for t, hdr in ((5, 11), (2, 27), (0, 28)):
        for k in ("mt", "mf"):
            for v in range(hdr + 15, hdr + 22):
                cfg = dict(base, **{k: v})
                for ft, cap in ((1, 1), (1, 2), (1, 3), (2, 1), (0x1E, 1), (64, 2), (64, 1), (20000, 4)):
                    cases.append({"cfg": cfg, "ops": [["sp", t], ["sf", ft, cap], ["flush"]]})
                    cases.append({"cfg": cfg, "ops": [["sp", t], ["sf", ft, cap], ["sf", 1, 1], ["flush"]]})
                    cases.append({"cfg": cfg, "ops": [["sp", t], ["sf", ft, cap], ["push", 0], ["sp", t], ["sf", 1, 1], ["flush"]]})
                cases.append({"cfg": cfg, "ops": [["sp", t], ["push", 1], ["flush"]]})
                cases.append({"cfg": cfg, "ops": [["sp", t], ["push", 0], ["sf", 1, 1], ["flush"]]})
                cases.append({"cfg": cfg, "ops": [["sp", t], ["sf", 1, 1], ["flush"], ["sf", 1, 1], ["flush"]]})
    for ops in ([["sf", 1, 1]], [["sf", 28, 64]], [["flush"], ["sf", 1, 1]], [["sp", 5], ["flush"], ["sf", 1, 1], ["push", 1], ["flush"]],
                [["sp", 7], ["sf", 1, 1]], [["push", 3], ["sf", 6, 1], ["flush"]]):
        for mt in (None, 10, 500):
            cases.append({"cfg": dict(base, mt=mt), "ops": ops})   # start_frame with no packet: AssertionError, nothing changes
    for client in (0, 1):
        for mf in (None, -5, 0, 30, 60, 500, 1199, 1200, 1201, 5000):
            for mt in (None, 0, 40, 300, 1199, 1200, 1201, 2400, 2500, 3600):
                for ft in (2, 6, 1):
                    for tail in ([], [["sp", 2], ["sf", 6, 1], ["push", 100]], [["sp", 5], ["sf", 1, 1]],
                                 [["sp", 5], ["sf", 8, 1], ["push", 50]]):
                        cfg = dict(base, client=client, mf=mf, mt=mt)
                        cases.append({"cfg": cfg, "ops": [["sp", 0], ["sf", ft, 1], ["push", 20]] + tail + [["flush"]]})
    for used in (1050, 1071, 1072, 1073, 1080, 1100):
        cases.append({"cfg": dict(base), "ops": [["sp", 0], ["sf", 6, 1], ["push", used - 28 - 1 - 16], ["sp", 2], ["sf", 6, 1],
                                                  ["push", 10], ["flush"]]})
    for token in (60, 70, 83, 84, 85, 100):
        cases.append({"cfg": dict(base, client=1, token=token),
                      "ops": [["sp", 0], ["sf", 6, 1], ["push", 900], ["sp", 0], ["sf", 1, 1], ["flush"]]})
    return cases


def _ops(c):
    return c["ops"]


def _rebuild(c, ops):
    d = dict(c)
    d["ops"] = ops
    return d


def builder_suite(ctx):
    return corr.Suite(ctx, "builder", "exec_builder", b_encode, b_impl, b_oracle, _ops, _rebuild,
                      nontrivial=lambda c, out: any(o[0] == "sf" for o in c["ops"]) and len(c["ops"]) >= 3,
                      opname=lambda o: o[0])


# =========================================================================== connection-level oracle
TESTS = os.path.join(core.REPO, "tests")
CADDR, CADDR2 = ("1.2.3.4", 1234), ("1.2.3.9", 4321)
SADDR, SADDR2 = ("2.3.4.5", 4433), ("2.3.4.9", 4434)
SPOOF = ("6.6.6.6", 666)
ADDR_ID = {CADDR: 1, CADDR2: 2, SADDR: 3, SADDR2: 4, SPOOF: 5}
_TICKETS = {}


def _certs(k):
    from cryptography.x509 import load_pem_x509_certificates
    one = load_pem_x509_certificates(open(os.path.join(TESTS, "ssl_cert_with_chain.pem"), "rb").read())
    extra = load_pem_x509_certificates(open(os.path.join(TESTS, "pycacert.pem"), "rb").read())
    chain = [one[0]]
    pool = one[1:] + extra + one[1:] + extra
    return chain + pool[:k - 1]


def _mk_pair(case, ticket=None):
    from aioquic.quic.configuration import QuicConfiguration
    from aioquic.quic.connection import QuicConnection
    cc = QuicConfiguration(is_client=True, max_datagram_size=case["mds_c"], congestion_control_algorithm=case.get("cc", "reno"))
    cc.verify_mode = ssl.CERT_NONE
    saved = []
    if ticket is not None:
        cc.session_ticket = ticket[0]
    client = QuicConnection(configuration=cc, session_ticket_handler=saved.append)
    sc = QuicConfiguration(is_client=False, max_datagram_size=case["mds_s"], congestion_control_algorithm=case.get("cc", "reno"))
    sc.load_cert_chain(os.path.join(TESTS, "ssl_cert_with_chain.pem"), os.path.join(TESTS, "ssl_key.pem"))
    certs = _certs(case.get("chain", 1))
    sc.certificate, sc.certificate_chain = certs[0], certs[1:]
    ssaved = []
    fetch = None
    if ticket is not None:
        fetch = lambda label: ticket[1] if label == ticket[1].ticket else None  # noqa: E731
    server = QuicConnection(configuration=sc, original_destination_connection_id=client.original_destination_connection_id,
                            session_ticket_handler=ssaved.append, session_ticket_fetcher=fetch)
    return client, server, saved, ssaved


def _get_ticket():
    """One clean handshake to obtain a (client ticket, server ticket) pair for the 0-RTT schedules."""
    if "t" in _TICKETS:
        return _TICKETS["t"]
    client, server, saved, ssaved = _mk_pair({"mds_c": 1200, "mds_s": 1200})
    now = 10.0
    client.connect(SADDR, now=now)
    try:
        for _ in range(8):
            now += 0.01
            got = False
            for d, a in client.datagrams_to_send(now):
                server.receive_datagram(d, CADDR, now)
                got = True
            if got or server._network_paths:
                for d, a in server.datagrams_to_send(now):
                    client.receive_datagram(d, SADDR, now)
    except Exception:   # a broken tree: the 0-RTT schedules are skipped (and counted as skipped)
        pass
    _TICKETS["t"] = (saved[0], ssaved[0]) if saved and ssaved else None
    return _TICKETS["t"]


class Observer:
    """Wire observer: recognises Initial packets in a datagram and (with the Initial keys derived from the
    original destination connection id) whether a server Initial is ack-eliciting."""

    def __init__(self, odcid):
        from aioquic.quic.crypto import CryptoPair
        from aioquic.quic.packet import QuicProtocolVersion
        self.crypto = CryptoPair()   # recv side = packets sent by the server
        self.crypto.setup_initial(odcid, is_client=True, version=QuicProtocolVersion.VERSION_1)

    def packets(self, data):
        from aioquic.buffer import Buffer
        from aioquic.quic.packet import QuicPacketType, pull_quic_header
        buf = Buffer(data=data)
        out = []
        while not buf.eof():
            start = buf.tell()
            try:
                h = pull_quic_header(buf, host_cid_length=8)
            except Exception:
                break
            if h.packet_type in (QuicPacketType.VERSION_NEGOTIATION, QuicPacketType.RETRY):
                out.append((h.packet_type, start, len(data), buf.tell() - start))
                break
            end = start + h.packet_length
            if h.packet_length <= 0 or end > len(data):
                break
            out.append((h.packet_type, start, end, buf.tell() - start))
            if h.packet_type == QuicPacketType.ONE_RTT:
                break
            buf.seek(end)
        return out

    def server_initial_ack_eliciting(self, data, start, end, enc_off):
        """True / False, or None when the packet cannot be opened (treated as not checkable)."""
        from aioquic.buffer import Buffer
        from aioquic.quic.packet import pull_ack_frame
        try:
            _, payload, _ = self.crypto.decrypt_packet(data[start:end], enc_off, 0)
        except Exception:
            return None
        buf = Buffer(data=payload)
        try:
            while not buf.eof():
                t = buf.pull_uint_var()
                if t == 0:
                    continue
                if t in (2, 3):
                    pull_ack_frame(buf)
                    if t == 3:
                        for _ in range(3):
                            buf.pull_uint_var()
                elif t == 0x1C:
                    buf.pull_uint_var()
                    buf.pull_uint_var()
                    buf.pull_bytes(buf.pull_uint_var())
                elif t == 0x1D:
                    buf.pull_uint_var()
                    buf.pull_bytes(buf.pull_uint_var())
                else:
                    return True
        except Exception:
            return None
        return False


class Side:
    def __init__(self, name, conn, mds, is_client):
        self.name, self.conn, self.mds, self.is_client = name, conn, mds, is_client
        self.recv_from, self.sent_to = {}, {}
        self.validated = set()      # the oracle's own (latest possible) notion of "address validated"
        self.got_to = set()         # own addresses at which this side has received a datagram from the peer
        self.dead = False
        self.terminated = False


def sim_run(case, want_trace=False):
    """Run one schedule.  Returns dict(violations=[(what, signature, step)], stats, trace, ledger_ops)."""
    import random
    from aioquic.quic.packet import QuicPacketType
    rng = random.Random(case["seed"])
    ticket = _get_ticket() if case.get("zero_rtt") else None
    if case.get("zero_rtt") and ticket is None:
        return {"violations": [], "stats": {"skipped": 1}, "trace": [], "ledger": {}}
    client, server, _, _ = _mk_pair(case, ticket)
    obs = Observer(client.original_destination_connection_id)
    C = Side("client", client, case["mds_c"], True)
    S = Side("server", server, case["mds_s"], False)
    C.validated.add(SADDR)
    now = 1000.0
    viol, trace, ledger = [], [], {"client": [], "server": []}
    stats = {"datagrams": 0, "initial_datagrams": 0, "unvalidated_sends": 0, "impl_exceptions": {}, "steps": 0,
             "short_initial": 0, "handshake_done": 0, "migrations": 0, "junk": 0, "spoofed": 0, "closes": 0, "max_ratio_pct": 0}
    net = []           # datagrams in flight: dict(data, src, dst, to, tag)
    cur_c, cur_s = CADDR, SADDR
    step_no = [0]
    max_steps = case.get("steps", 80)
    limit = case.get("stop_at")

    def note(*a):
        if want_trace:
            trace.append("%3d %.3f " % (step_no[0], now) + " ".join(str(x) for x in a))

    def snap(side):
        return [(ADDR_ID.get(p.addr, 9), p.bytes_received, p.bytes_sent, int(p.is_validated)) for p in side.conn._network_paths]

    def fail(what, sig):
        viol.append((what, sig, step_no[0]))

    def drain(side):
        # END states (closing / draining / terminated) are private state, like the path counters this tie reads
        from aioquic.quic.connection import END_STATES
        while side.conn.next_event() is not None:
            pass
        if side.conn._state in END_STATES and not side.terminated:
            side.terminated = True
            ledger[side.name].append(["term"])

    def guarded(side, f, *a, drain_after=True):
        try:
            r = f(*a)
            if drain_after:
                drain(side)
            return r
        except Exception as e:   # not this property's concern (C05); recorded, the endpoint is retired
            k = type(e).__name__
            stats["impl_exceptions"][k] = stats["impl_exceptions"].get(k, 0) + 1
            note(side.name, "raised", repr(e)[:80])
            side.dead = True
            return None

    def emit(side):
        if side.dead or (not side.is_client and not side.recv_from):
            return   # a server has no peer address before its first datagram (datagrams_to_send would be API misuse)
        peer = S if side is C else C
        before = snap(side)
        del _BUDGETS[:]
        out = guarded(side, side.conn.datagrams_to_send, now, drain_after=False)
        if out is None:
            return
        src = cur_c if side is C else cur_s
        lens = []
        for data, addr in out:
            n = len(data)
            lens.append(n)
            stats["datagrams"] += 1
            side.sent_to[addr] = side.sent_to.get(addr, 0) + n
            pk = obs.packets(data)
            note(side.name, "->", ADDR_ID.get(addr, 9), n, [t.name for t, _, _, _ in pk])
            # (1) size
            if n > side.mds:
                fail("%s emitted a %d-byte datagram, max_datagram_size=%d" % (side.name, n, side.mds),
                     {"level": "connection", "rule": "datagram_le_max", "role": side.name})
            # (2) Initial padding
            inits = [x for x in pk if x[0] == QuicPacketType.INITIAL]
            if inits:
                stats["initial_datagrams"] += 1
                need = side.is_client
                if not need:
                    ae = [obs.server_initial_ack_eliciting(data, st, en, eo) for _, st, en, eo in inits]
                    need = any(x is True for x in ae)
                if need and n < 1200:
                    stats["short_initial"] += 1
                    fail("%s emitted a %d-byte datagram containing %s Initial packet (< 1200)"
                         % (side.name, n, "an" if side.is_client else "an ack-eliciting"),
                         {"level": "connection", "rule": "initial_datagram_ge_1200", "role": side.name,
                          "closing": bool(case.get("_closing_" + side.name))})
            # (3) anti-amplification
            if addr not in side.validated:
                stats["unvalidated_sends"] += 1
                r3 = 3 * side.recv_from.get(addr, 0)
                if r3:
                    stats["max_ratio_pct"] = max(stats["max_ratio_pct"], 100 * side.sent_to[addr] // r3)
                if side.sent_to[addr] > r3:
                    fail("%s has sent %d bytes to unvalidated address %s after receiving %d from it (limit %d)"
                         % (side.name, side.sent_to[addr], addr, side.recv_from.get(addr, 0), r3),
                         {"level": "connection", "rule": "amplification_3x", "role": side.name,
                          "closing": bool(case.get("_closing_" + side.name)),
                          "overshoot": "1" if side.sent_to[addr] - r3 == 1 else ">1"})
            # route
            if side is C:
                net.append({"data": data, "src": src, "dst": addr, "to": "s" if addr in (SADDR, SADDR2) else None,
                            "tag": set(C.got_to)})
            else:
                net.append({"data": data, "src": src, "dst": addr, "to": "c" if addr in (CADDR, CADDR2) else None,
                            "tag": set(S.got_to)})
        if _BUDGETS:
            ledger[side.name].append(["send", lens, before, snap(side), list(_BUDGETS[-1])])
        drain(side)

    def deliver(side, data, src, dst, tag, genuine=True):
        """side receives data from address src (sent to its address dst)."""
        if side.dead:
            return
        n = len(data)
        side.recv_from[src] = side.recv_from.get(src, 0) + n
        if genuine:
            side.got_to.add(dst)
            # address src may count as validated from now on: it sent a Handshake packet, or the datagram may
            # carry the response to a challenge this side sent to src (the peer had received something there)
            if any(t == QuicPacketType.HANDSHAKE for t, _, _, _ in obs.packets(data)):
                side.validated.add(src)
            for a in tag:
                side.validated.add(a)
        before = snap(side)
        first = (not side.is_client) and not side.conn._network_paths
        pending = bool(side.conn._close_pending)      # labelled peek: a close has been decided but not yet sent
        guarded(side, side.conn.receive_datagram, data, src, now, drain_after=False)
        ledger[side.name].append(["recv", ADDR_ID.get(src, 9), n, before, snap(side), first, pending])
        drain(side)
        note(side.name, "<-", ADDR_ID.get(src, 9), n, "genuine" if genuine else "forged")

    def fire(side):
        nonlocal now
        if side.dead:
            return False
        t = guarded(side, side.conn.get_timer)
        if t is None:
            return False
        now = max(now, t) + 1e-6
        note(side.name, "timer")
        guarded(side, side.conn.handle_timer, now)
        return True

    client.connect(SADDR, now=now)
    if case.get("early"):
        sid = client.get_next_available_stream_id()
        client.send_stream_data(sid, b"E" * case["early"])
    first_initial = None
    adv = case.get("adversarial", 40)
    for step in range(max_steps):
        step_no[0] = step
        stats["steps"] += 1
        if limit is not None and step > limit:
            break
        hostile = step < adv
        now += rng.choice([0.0005, 0.002, 0.01, 0.03])
        for side in ((C, S) if rng.random() < 0.5 else (S, C)):
            if not hostile or rng.random() < 0.8:
                emit(side)
        if first_initial is None and net and net[0]["to"] == "s":
            first_initial = net[0]["data"]
        r = rng.random()
        if net and (r < 0.62 or not hostile):
            i = 0 if (not hostile or rng.random() > case["reorder"]) else rng.randrange(len(net))
            d = net.pop(i)
            if hostile and rng.random() < case["loss"]:
                note("drop", len(d["data"]))
                continue
            if hostile and rng.random() < case["dup"]:
                net.insert(rng.randrange(len(net) + 1), dict(d))
            if d["to"] == "s":
                deliver(S, d["data"], d["src"], d["dst"], d["tag"])
            elif d["to"] == "c":
                deliver(C, d["data"], d["src"], d["dst"], d["tag"])
        elif r < 0.70 and hostile and case["junk"]:
            # forged datagrams: junk from the client's address or from a third party, truncated copies, spoofed Initials
            k = rng.random()
            if k < 0.35:
                n = rng.choice([1, 7, 20, 30, 40, 60, 100, 150, 300, 400, 700, 1199, 1200, 1400])
                stats["junk"] += 1
                deliver(S, bytes([0x40 | rng.randrange(64)]) + bytes(rng.randrange(256) for _ in range(n - 1)),
                        rng.choice([cur_c, cur_c, SPOOF]), cur_s, set(), genuine=False)
            elif k < 0.6 and first_initial is not None:
                stats["spoofed"] += 1
                deliver(S, first_initial, SPOOF if rng.random() < 0.7 else CADDR2, cur_s, set(), genuine=False)
            elif k < 0.8 and first_initial is not None:
                deliver(S, first_initial[:rng.choice([50, 300, 1199])], rng.choice([cur_c, SPOOF]), cur_s, set(), genuine=False)
            else:
                n = rng.choice([20, 40, 100, 500, 1200])
                stats["junk"] += 1
                deliver(C, bytes([0x40 | rng.randrange(64)]) + bytes(rng.randrange(256) for _ in range(n - 1)),
                        rng.choice([cur_s, SADDR2]), cur_c, set(), genuine=False)
        elif r < 0.80:
            k = rng.random()
            side = C if rng.random() < 0.6 else S
            done = side.conn._handshake_complete
            if k < 0.45 and not side.dead:
                if done or side.is_client:
                    try:
                        sid = side.conn.get_next_available_stream_id(is_unidirectional=rng.random() < 0.3)
                        side.conn.send_stream_data(sid, b"D" * rng.choice([1, 10, 200, 1100, 1190, 1450, 3000, 12000, 40000]),
                                                   end_stream=rng.random() < 0.5)
                        note(side.name, "app write")
                    except Exception:
                        pass
            elif k < 0.55 and not side.dead:
                try:
                    side.conn.send_ping(step)
                except Exception:
                    pass
            elif k < 0.80 and case["migrate"] and C.conn._handshake_complete:
                if rng.random() < 0.75:
                    cur_c = CADDR2 if cur_c == CADDR else CADDR
                    if rng.random() < 0.5 and not C.dead:
                        try:
                            C.conn.change_connection_id()
                        except Exception:
                            pass
                else:
                    cur_s = SADDR2 if cur_s == SADDR else SADDR
                stats["migrations"] += 1
                note("migrate", ADDR_ID[cur_c], ADDR_ID[cur_s])
            elif k < 0.86 and case.get("api_close") and not side.dead:
                case["_closing_" + side.name] = True
                stats["closes"] += 1
                note(side.name, "close()")
                guarded(side, side.conn.close)
        else:
            cands = [x for x in (C, S) if not x.dead and x.conn.get_timer() is not None]
            if cands and (not net or rng.random() < 0.5):
                fire(min(cands, key=lambda x: x.conn.get_timer()) if rng.random() < 0.7 else rng.choice(cands))
        if not net and not hostile:
            emit(C)
            emit(S)
            if not net:
                cands = [x for x in (C, S) if not x.dead and x.conn.get_timer() is not None]
                if not cands:
                    break
                fire(min(cands, key=lambda x: x.conn.get_timer()))
    stats["handshake_done"] = int(bool(client._handshake_complete and server._handshake_complete))
    for k in ("_closing_client", "_closing_server"):
        case.pop(k, None)
    ledger["sim"] = {k: v for k, v in case.items() if not k.startswith("_")}
    return {"violations": viol, "stats": stats, "trace": trace, "ledger": ledger}


_BUDGETS = []   # (max_flight_bytes, max_total_bytes) of every builder flushed by datagrams_to_send (recording subclass)


def _install_recorder():
    """Replace the QuicPacketBuilder name used by connection.py with a recording subclass (in this process only)."""
    import aioquic.quic.connection as qc
    from aioquic.quic.packet_builder import QuicPacketBuilder
    if getattr(qc.QuicPacketBuilder, "_c13_recorder", False):
        return

    class Rec(QuicPacketBuilder):
        _c13_recorder = True

        def flush(self):
            _BUDGETS.append((self.max_flight_bytes, self.max_total_bytes))
            return super().flush()

    qc.QuicPacketBuilder = Rec


def sim_gen(rng, n, profile=None):
    cases = []
    for i in range(n):
        p = profile or rng.choice(["clean", "lossy", "lossy", "hostile", "hostile", "migrate", "zero_rtt", "zero_rtt"])
        mds = rng.choice(GRID[:5] * 4 + GRID[5:])
        same = rng.random() < 0.6
        c = {"seed": rng.randrange(1 << 30), "profile": p, "mds_c": mds, "mds_s": mds if same else rng.choice(GRID[:5]),
             "chain": rng.choice([1, 2, 3, 4]), "cc": rng.choice(["reno", "cubic"]), "zero_rtt": False, "early": 0,
             "loss": 0.0, "dup": 0.0, "reorder": 0.0, "junk": False, "migrate": False, "api_close": False,
             "steps": 90, "adversarial": 45}
        if p != "clean":
            c["loss"] = rng.choice([0.0, 0.1, 0.25, 0.4])
            c["dup"] = rng.choice([0.0, 0.1, 0.3])
            c["reorder"] = rng.choice([0.0, 0.3, 0.7])
        if p == "hostile":
            c["junk"] = True
        if p == "migrate":
            c["migrate"] = True
            c["junk"] = rng.random() < 0.3
            c["steps"], c["adversarial"] = 140, 100
        if p == "zero_rtt":
            c["zero_rtt"] = True
            c["early"] = rng.choice([0, 100, 3000, 10000, 10700, 11000, 12000, 20000, 60000])
            c["junk"] = rng.random() < 0.3
        if rng.random() < 0.08:
            c["api_close"] = True
        cases.append(c)
    return cases


def _sim_batch(cases):
    """Run schedules; returns (violations [(case, what, sig, step)], aggregated stats, ledger mismatches)."""
    _install_recorder()
    agg = {"schedules": 0, "datagrams": 0, "initial_datagrams": 0, "unvalidated_sends": 0, "steps": 0, "short_initial": 0,
           "handshake_done": 0, "migrations": 0, "junk": 0, "spoofed": 0, "closes": 0, "impl_exceptions": {}, "max_ratio_pct": 0,
           "skipped": 0, "profiles": {}, "mds": {}}
    out = []
    ledgers = []
    for c in cases:
        r = sim_run(c)
        agg["schedules"] += 1
        agg["profiles"][c.get("profile", "?")] = agg["profiles"].get(c.get("profile", "?"), 0) + 1
        agg["mds"][str(c["mds_c"])] = agg["mds"].get(str(c["mds_c"]), 0) + 1
        for k, v in r["stats"].items():
            if k == "impl_exceptions":
                for e, n in v.items():
                    agg["impl_exceptions"][e] = agg["impl_exceptions"].get(e, 0) + n
            elif k == "max_ratio_pct":
                agg[k] = max(agg[k], v)
            elif k in agg:
                agg[k] += v
        for what, sig, step in r["violations"][:2]:
            out.append((c, what, sig, step))
        ledgers.append(r["ledger"])
    return out, agg, ledgers


def _sim_batch_forked(cases):
    """max_datagram_size > 1500 exceeds the fixed 1500-byte scratch buffers of _crypto.c (C04's subject); those
    schedules run in a child process so that memory damage there cannot take the check down."""
    if not cases:
        return [], None, []
    r, w = os.pipe()
    pid = os.fork()
    if pid == 0:
        code = 0
        try:
            os.close(r)
            v, agg, led = _sim_batch(cases)
            with os.fdopen(w, "w") as f:
                json.dump({"v": v, "agg": agg, "led": led}, f)
        except BaseException:
            code = 3
        os._exit(code)
    os.close(w)
    with os.fdopen(r) as f:
        txt = f.read()
    _, status = os.waitpid(pid, 0)
    if status != 0 or not txt:
        return [], {"schedules": 0, "child_status": status}, []
    j = json.loads(txt)
    return [tuple(x) for x in j["v"]], j["agg"], j["led"]


# =========================================================================== ledger tie
def _paths_tok(ps):
    t = [len(ps)]
    for p in ps:
        t += list(p)
    return t


def _fates(e):
    """Project what the packet handlers decided from the path list before/after (the model takes these
    decisions as input; the byte counting, registration and promotion mechanics are what is compared)."""
    _, addr, n, before, after, first = e[:6]
    b = {p[0]: p for p in before}
    a = {p[0]: p for p in after}
    f = []
    if first and after and len(after) == 1 and after[0][0] == addr:
        f.append([2])
    if addr not in a:
        return f + [[0]]
    was_valid = bool(b[addr][3]) if addr in b else False
    others = [x for x in a if x != addr and a[x][3] and x in b and not b[x][3]]
    hs = bool(a[addr][3]) and not was_valid
    promote = bool(after and after[0][0] == addr and before and before[0][0] != addr)
    f.append([1, int(hs), int(promote), 0])
    for x in others:
        f.append([1, 0, 0, 1, x])
    return f


def l_encode(case):
    t = _paths_tok(case["init"])
    for e in case["ops"]:
        if e[0] == "term":
            t += [3]
        elif e[0] == "recv" and len(e) > 6 and e[6]:
            t += [4, e[1], e[2]]
        elif e[0] == "recv":
            fs = _fates(e)
            t += [0, e[1], e[2], len(fs)]
            for f in fs:
                t += f
        else:
            t += [2 if e[4][0] is None else 1, len(e[1])] + list(e[1])
    return t


def l_impl(case):
    out = []
    for e in case["ops"]:
        if e[0] == "term":
            continue
        if e[0] == "recv":
            out += _paths_tok(e[4])
        else:
            if e[4][0] is not None:
                out += [0] if e[4][1] is None else [1, e[4][1]]
            out += _paths_tok(e[3])
    return out


def ledger_cases(ledgers):
    cases = []
    for led in ledgers:
        for name in ("client", "server"):
            ops = led.get(name) or []
            if len(ops) >= 2:
                if ops[0][0] == "term":
                    continue
                init = ops[0][3] if ops[0][0] == "recv" else ops[0][2]
                cases.append({"init": [list(p) for p in init], "ops": ops, "sim": led.get("sim"), "side": name})
    return cases


def ledger_suite(ctx):
    return corr.Suite(ctx, "ledger", "exec_amplification", l_encode, l_impl, None, lambda c: c["ops"], _l_rebuild,
                      nontrivial=lambda c, out: any(e[0] == "send" and e[1] for e in c["ops"]) and
                      any(e[0] == "recv" for e in c["ops"]),
                      opname=lambda e: e[0] if e[0] != "send" else ("send" if e[4][0] is not None else "send_close"))


# =========================================================================== driver
def _l_rebuild(c, ops):
    n = len(ops)
    return dict(c, ops=ops) if ops == c["ops"][:n] else dict(c, ops=[])


def _shrink_sim(case, sig):
    """Smallest prefix / simplest schedule parameters that still show a violation with this signature."""
    def fires(c):
        try:
            r = sim_run(dict(c))
        except Exception:
            return None
        for what, s2, step in r["violations"]:
            if s2 == sig:
                return what, step
        return None
    best = dict(case)
    got = fires(best)
    if not got:
        return case, None
    for k, v in (("junk", False), ("dup", 0.0), ("reorder", 0.0), ("loss", 0.0), ("migrate", False), ("api_close", False),
                 ("chain", 1), ("cc", "reno"), ("mds_s", 1200), ("mds_c", 1200)):
        if best.get(k) != v:
            cand = dict(best)
            cand[k] = v
            g2 = fires(cand)
            if g2:
                best, got = cand, g2
    best["stop_at"] = got[1]
    return best, got[0]


def run_conn(ctx, cases, agg_all, ledgers):
    small = [c for c in cases if max(c["mds_c"], c["mds_s"]) <= 1500]
    big = [c for c in cases if max(c["mds_c"], c["mds_s"]) > 1500]
    found = []
    for batch, runner in ((small, _sim_batch), (big, _sim_batch_forked)):
        if not batch:
            continue
        v, agg, led = runner(batch)
        found += v
        ledgers += led
        for k, x in (agg or {}).items():
            if isinstance(x, dict):
                d = agg_all.setdefault(k, {})
                for kk, n in x.items():
                    d[kk] = d.get(kk, 0) + n
            elif k == "max_ratio_pct":
                agg_all[k] = max(agg_all.get(k, 0), x)
            else:
                agg_all[k] = agg_all.get(k, 0) + x
    return found


def report_conn(ctx, found, seen):
    for case, what, sig, step in found:
        key = json.dumps(sig, sort_keys=True)
        if key in seen:
            continue
        seen.add(key)
        case = {k: v for k, v in case.items() if not k.startswith("_")}
        if max(case["mds_c"], case["mds_s"]) <= 1500:
            small, w2 = _shrink_sim(case, sig)
        else:
            small, w2 = dict(case, stop_at=step), None
        trace = []
        if max(small["mds_c"], small["mds_s"]) <= 1500:
            try:
                trace = sim_run(dict(small), want_trace=True)["trace"][-40:]
            except Exception:
                pass
        ctx.violation("impl-violation", "conn: " + (w2 or what), {"suite": "conn", "case": small}, signature=sig,
                      extra={"trace": trace})


def _oracle_only(ctx, bs, cases):
    """Search for a failing input with the implementation oracle alone (used when the extracted model is missing)."""
    reported = 0
    for c in cases:
        bs.stats["cases"] += 1
        try:
            bad = b_oracle(c)
        except Exception as e:
            bad = ("oracle raised %r" % (e,), {"oracle_exception": type(e).__name__})
        if bad:
            bs.stats["oracle_failures"] += 1
            if reported < 3:
                reported += 1
                ctx.violation("impl-violation", "builder: %s" % bad[0], c, signature=bad[1])


def writers_tie(ctx, rng):
    """coq/model/Writers.v against the frame writers of connection.py: the builder sessions recorded from the simulated
    connections of this run, API-driven scenarios that reach every writer, and direct writer calls with field values at the
    edge of their wire ranges / spaces at the edge of the capacities."""
    from props import c13_writers as cw
    import time
    stats = {"sim_sessions": len(cw.SESSIONS)}
    n0 = len(cw.SESSIONS)
    t0 = time.time()
    scen_err = {}
    for _ in range(ctx.n(40, 600)):
        try:
            cw.api_scenario(rng, _mk_pair, CADDR, SADDR)
        except Exception as e:   # exceptions escaping the public API are C05's subject; counted here
            scen_err[type(e).__name__] = scen_err.get(type(e).__name__, 0) + 1
    stats["api_scenario_sessions"] = len(cw.SESSIONS) - n0
    stats["api_scenario_exceptions"] = scen_err
    n1 = len(cw.SESSIONS)
    derr = {}
    for spec in cw.direct_specs(rng, ctx.n(400, 8000)):
        try:
            cw.direct_session(spec, _crypto(spec["cfg"]["mds"]))
        except Exception as e:
            derr[type(e).__name__] = derr.get(type(e).__name__, 0) + 1
            if len(derr) <= 2 and sum(derr.values()) <= 2:
                ctx.violation("impl-violation", "writers: direct call raised %r" % (e,), {"suite": "writers_direct", "case": spec},
                              signature={"rule": "writer_raises", "level": "writer", "exception": type(e).__name__})
    # packets of REAL connections (simulated runs + API scenarios) in which an ACK / CLOSE frame follows an in-flight frame
    # (C08's first flight clause; 0 since fix 7b299f1, 217-243 per run before it)
    stats["ack_after_inflight_packets_real_sessions"] = sum(cw.challenge_before_ack(x) for x in cw.SESSIONS[:n1])
    stats["direct_sessions"] = len(cw.SESSIONS) - n1
    stats["direct_exceptions"] = derr
    # former finding C08-F14 (PATH_CHALLENGE before ACK, fixed by 7b299f1): the public-API scenario is re-run on every check;
    # an overshoot of the congestion window by the migration packet is reported (it fires when the order is reverted)
    try:
        _STATE_on = cw._STATE["on"]
        cw._STATE["on"] = False
        reps = [cw.f14_search(_mk_pair, CADDR, CADDR2, SADDR, pings=p) for p in (0, 60)]
        stats["f14_replay"] = reps
        for rep in reps:
            if rep["overshoot"] is not None:
                o = rep["overshoot"]
                ctx.violation("impl-violation",
                              "writers: after a migration one datagrams_to_send() put %d bytes in flight with %d bytes of congestion "
                              "window left (bytes_in_flight %d > congestion_window %d): an ACK written after PATH_CHALLENGE is not "
                              "checked against the flight space" % (o["added_in_flight"], o["allowed"], o["bytes_in_flight_after"],
                                                                     o["congestion_window"]),
                              {"suite": "f14", "case": {"stream_bytes": o["stream_bytes"], "pings": o["pings"]}},
                              signature={"rule": "flight_budget", "level": "connection", "cause": "ack_after_path_challenge"})
                break
    except Exception as e:
        stats["f14_replay"] = repr(e)
    finally:
        cw._STATE["on"] = _STATE_on
    stats["drivers_wall_s"] = round(time.time() - t0, 1)
    # direct and API sessions first (they are few and reach every writer), then the simulated runs
    sessions = list(corr.load_corpus("C13", "writers")) + cw.SESSIONS[n0:] + cw.SESSIONS[:n0]
    cw.run_tie(ctx, sessions, stats, max_model=None if ctx.thorough else 30000)
    del cw.SESSIONS[:]
    return stats


def run(ctx):
    rng = ctx.rng
    _install_recorder()
    from props import c13_writers as cw
    cw.install()
    del cw.SESSIONS[:]
    # ---- builder model <-> QuicPacketBuilder
    bs = builder_suite(ctx)
    batches = [(corr.load_corpus("C13", "builder"), "corpus"), (b_boundary(), ""), (b_gen(rng, ctx.n(2500, 30000)), ""),
               (b_gen(rng, ctx.n(800, 8000), small=True), "")]
    model_ok = True
    for cases, label in batches:
        if model_ok:
            try:
                bs.run(cases, label)
                continue
            except core.BuildError as e:   # the model no longer builds against this tree: the oracle still runs
                model_ok = False
                core.log("C13 builder model not runnable (%s): implementation oracle only" % (str(e)[:200],))
        _oracle_only(ctx, bs, cases)
    # ---- connection-level oracle (always runs, also when the proofs do not build)
    agg, ledgers, seen = {}, [], set()
    found = run_conn(ctx, corr.load_corpus("C13", "conn"), agg, ledgers)
    found += run_conn(ctx, sim_gen(rng, ctx.n(420, 6000)), agg, ledgers)
    report_conn(ctx, found, seen)
    # ---- ledger model <-> QuicNetworkPath counters of those runs
    ls = ledger_suite(ctx)
    ls.run(ledger_cases(ledgers))
    cov = corr.merge_coverage(
        [bs, ls],
        "builder: op histories shaped like connection.py's use of the builder (frames sized from the reported space) plus a "
        "wild fraction (API misuse, pushes past the space) and boundary tables around header+tag sizes, 128 and 1200 bytes, "
        "budgets None/negative/small/multiples of the datagram size; ledger: per-endpoint receive/send histories projected "
        "from the simulated connection runs; distinct = distinct token encoding, non-trivial = contains a frame (builder) / "
        "both a receive and a non-empty send (ledger)",
        {"connection_oracle": agg,
         "connection_oracle_rule": "real client/server QuicConnection pairs driven in-process: profiles clean / lossy / hostile "
         "(junk and spoofed-source Initials) / migrate (client and server address changes) / zero_rtt (early data up to 5x the "
         "initial window); every datagram of datagrams_to_send() checked for <= max_datagram_size, Initial-carrying datagrams "
         ">= 1200 (client; ack-eliciting server Initials, decided by decrypting with the Initial keys), per-address 3x budget "
         "until the oracle's own latest-possible validation point"})
    cov["evaluations"] += agg.get("schedules", 0)
    cov["traces_validated_against_impl"] = ls.stats["cases"]
    # ---- writer model <-> connection.py's frame writers (always runs; oracle only when the model does not build)
    cov["writers_tie"] = writers_tie(ctx, rng)
    cov["writers_tie_rule"] = ("every builder session of the simulated connections of this run, of API scenarios (streams, "
                               "FIN, reset, stop_sending, DATAGRAM, PING, connection ids, migration, close) and of direct writer "
                               "calls with boundary field values is replayed through the extracted writer model: per writer call "
                               "the outcome, the (frame type, capacity, pushed bytes) of every start_frame and the builder "
                               "observers must agree; the oracle checks capacity >= bytes written on the implementation alone")
    cov["evaluations"] += cov["writers_tie"].get("distinct_sessions", 0)
    return cov


def replay(ctx, rep):
    case = rep["case"]
    res = {}
    if isinstance(case, dict) and case.get("suite") == "f14":
        from props import c13_writers as cw
        return {"f14": cw.f14_scenario(_mk_pair, CADDR, CADDR2, SADDR, case["case"]["stream_bytes"], case["case"]["pings"])}
    if isinstance(case, dict) and case.get("suite") in ("writers", "writers_direct"):
        from props import c13_writers as cw
        sess = case["case"]
        if case.get("suite") == "writers_direct":
            cw.install()
            sess = cw.direct_session(sess, _crypto(sess["cfg"]["mds"]))
        try:
            got = core.run_model("exec_writers", [cw.encode(sess)], shards=1)[0]
        except Exception as ex:
            got = repr(ex)
        return {"writers": {"impl": cw.expected(sess), "model": got, "oracle": cw.oracle(sess)}}
    if isinstance(case, dict) and case.get("suite") == "conn":
        _install_recorder()
        r = sim_run(dict(case["case"]), want_trace=True)
        return {"conn": {"violations": r["violations"], "stats": r["stats"], "trace": r["trace"][-60:]}}
    bs = builder_suite(ctx)
    try:
        d, e, g = bs.disagree(case)
        res["builder"] = {"disagree": d, "impl": e, "model": g, "oracle": bs.oracle(case)}
    except Exception as ex:
        res["builder"] = {"not-applicable": repr(ex)}
    return res
