"""C16  Peer stream bytes can never make the HTTP layers raise.

Tie: correspondence of coq/model/H3Parse.v (exec_h3) and coq/model/H0.v (exec_h0) against the real
H3Connection / H0Connection over a stub transport (QPACK and header validation answers recorded from the real
run).  Implementation oracle (independent of the model): no exception escapes handle_event; every close the
stub sees carries an ErrorCode member; nothing is returned after a close; and the real QuicConnection can emit
its closing datagram for the reason phrases the H3 layer produced."""
import datetime
import json

from vlib import core, corr
from props import h3common as hc

DEPENDS = ["H3Parse", "H0", "H3Total", "Builder", "CloseFrame", "CloseEmit", "CloseRound", "Base", "Tok", "C16"]
GENERATORS = ["c16_close", "c13_consts"]
TRUSTED_BASE = [
    "extraction (ExtrOcamlBasic only; Z kept inductive) + coq/extract/driver.ml for running the models",
    "correspondence harness harness/props/c16.py + h3common.py + harness/vlib/corr.py",
    "pylsqpack (QPACK) and validate_*_headers (C15) are oracles: answers recorded per call on the real run and "
    "replayed to the model; the theorems assume they only raise their documented exceptions",
    "modelled, not verified: the receive path of aioquic/h3/connection.py and h0/connection.py as Gallina functions; "
    "logging (quic_logger) is off",
    "closing round: coq/model/CloseFrame.v models datagrams_to_send's _close_pending branch and "
    "_write_connection_close_frame on sizes over C13's QuicPacketBuilder model (Buffer bounds, CryptoPair = +16 bytes); "
    "tied by correspondence (exec_closeframe) against the real QuicPacketBuilder + the real unbound "
    "QuicConnection._write_connection_close_frame; constants and the shape of both functions are read from the source by "
    "tools/gen/c16_close.py (fails closed); end-to-end emission by real handshaken QuicConnections is checked on the "
    "implementation as before",
]
ASSUMPTIONS = [
    "h3_handle_event_total: stated for the code with docs/C16-fix-1..3.patch applied (model flags); oracle contract: "
    "Decoder.feed_encoder only reports streams for which feed_header raised StreamBlocked earlier (they are in "
    "H3Connection._stream) and resume_header does not raise StreamBlocked for a stream just reported unblocked",
    "h0_handle_event_total: stated for the code with docs/C16-fix-4.patch applied",
    "close_frame_emittable: builder as created by the closing round (no flight / total budget), max_datagram_size >= 1200 "
    "(and < 2^62), connection ids <= 20 bytes, the CryptoPair can encrypt a full datagram (crypto_fits: "
    "max_datagram_size <= 1500 for aioquic's CryptoPair), error code and frame type < 2^62, handshake confirmed (1-RTT "
    "packet only); close_frame_emittable_any_round: the same configuration hypotheses, any INITIAL / HANDSHAKE packets "
    "before the 1-RTT one; the reason phrase is ANY string without lone surrogates (H3 reasons are ASCII)",
]

_CACHE = {}


def _run(case):
    k = json.dumps(case, sort_keys=True)
    r = _CACHE.get(k)
    if r is None:
        if len(_CACHE) > 20000:
            _CACHE.clear()
        r = _CACHE[k] = hc.run_impl(case)
    return r


def impl(case):
    return _run(case).out


def encode(case):
    fixes, _ = hc.detect()
    return hc.encode_case(case, _run(case).tables, fixes)


STATS = {"known_defect_hits": 0, "closes": 0, "close_codes": {}, "reasons": {}, "local_sends": 0,
         "blocked_feed_header": 0, "resumed_streams": 0, "resumed_after_both_directions_ended": 0}


def total_oracle(case):
    from aioquic.h3.connection import ErrorCode
    r = _run(case)
    STATS["local_sends"] += r.local_sends
    STATS["blocked_feed_header"] += r.blocked_calls
    STATS["resumed_streams"] += r.resumed_calls
    if r.resumed_calls and r.local_sends:
        STATS["resumed_after_both_directions_ended"] += 1
    if r.exn is not None:
        sig = hc.exn_signature(r.exn)
        if sig in hc.known_signatures("C16"):
            STATS["known_defect_hits"] += 1
            return None
        return ("%s escapes H3Connection.handle_event (raised in %s)" % (sig["exception"], sig["site"]), sig)
    q = r.quic
    if len(q.closes) > 1:
        return ("QuicConnection.close called %d times" % len(q.closes), {"defect": "closed-twice"})
    for code, reason in q.closes:
        STATS["closes"] += 1
        if not isinstance(code, ErrorCode):
            return ("close() called with error_code %r which is not an ErrorCode" % (code,), {"defect": "close-code"})
        if not isinstance(reason, str):
            return ("close() called with a non-str reason %r" % (reason,), {"defect": "close-reason"})
        STATS["close_codes"][code.name] = STATS["close_codes"].get(code.name, 0) + 1
        key = (int(code), len(reason) // 200, reason[:24])
        if key not in STATS["reasons"] or len(reason) > len(STATS["reasons"][key][1]):
            STATS["reasons"][key] = (int(code), reason)
    if r.after_close_events:
        return ("events returned by handle_event after the connection was closed", {"defect": "events-after-close"})
    return None


def suite(ctx):
    return corr.Suite(ctx, "h3", "exec_h3", encode, impl, total_oracle,
                      ops=lambda c: c["ops"], rebuild=lambda c, ops: dict(c, ops=ops),
                      nontrivial=lambda c, out: len(out) > 6,
                      opname=lambda o: o[0] + ("+fin" if o[0] == "s" and o[3] else ""),
                      simplify=hc.simplify_op)


# ------------------------------------------------------------------------------------------ systematic table
def contexts():
    """(client, prefix ops, stream id, bytes already on that stream) - valid prefixes after which frames are tried."""
    import pylsqpack
    resp = hc.frame(1, pylsqpack.Encoder().encode(0, hc.RESP)[1])
    req = hc.frame(1, pylsqpack.Encoder().encode(0, hc.REQ)[1])
    C = []
    for client in (False, True):
        ctrl = hc.peer_uni(client, 0)
        C.append(("ctrl-after-settings", client, [["s", ctrl, hc.control_prefix().hex(), 0]], ctrl))
        C.append(("ctrl-first", client, [["s", ctrl, "00", 0]], ctrl))
        C.append(("request-start", client, [], 0))
        C.append(("request-after-headers", client, [["s", 0, (resp if client else req).hex(), 0]], 0))
        trl = hc.frame(1, pylsqpack.Encoder().encode(0, [(b"x-trailer", b"1")])[1])
        C.append(("request-after-trailers", client, [["s", 0, ((resp if client else req) + hc.frame(0, b"ab") + trl).hex(), 0]], 0))
        push = hc.peer_uni(client, 1)
        C.append(("push-after-headers", client, [["s", push, (hc.H("0100") + resp).hex(), 0]], push))
    return C


def frame_table(step):
    i = 0
    for name, client, prefix, sid in contexts():
        for t in hc.BAD_FRAME_TYPES:
            for ln in hc.BAD_LENGTHS:
                for have in sorted({0, 1, max(0, ln - 1), ln, ln + 1}):
                    have = min(have, 66)
                    for pat in (0, 1):
                        for fin in (0, 1):
                            i += 1
                            if i % step:
                                continue
                            payload = bytes((0xff if pat else (j * 37 + t) % 256) for j in range(have))
                            data = hc.uvar(t) + hc.uvar(ln) + payload
                            yield {"client": client, "dgram": True, "ops": prefix + [["s", sid, data.hex(), fin]], "ctx": name}


def settings_table():
    for client in (False, True):
        ctrl = hc.peer_uni(client, 0)
        for dgram in (True, False):
            pays = []
            for i in hc.SETTING_IDS:
                for v in hc.SETTING_VALUES:
                    pays.append(hc.uvar(i) + hc.uvar(v))
            for i in (1, 6, 8, 0x33, 0x2B603742):
                pays.append(hc.uvar(i) + hc.uvar(1) + hc.uvar(i) + hc.uvar(1))              # duplicate
                pays.append(hc.uvar(0x33) + hc.uvar(1) + hc.uvar(i) + hc.uvar(1))
            pays.append(hc.settings_payload(hc.GOOD_SETTINGS + [(0x33, 1), (0x2B603742, 1), (8, 1)]))
            for p in pays:
                yield {"client": client, "dgram": dgram, "ops": [["s", ctrl, (hc.uvar(0) + hc.frame(4, p)).hex(), 0]]}
            # every truncation of a long settings payload, with the declared length adjusted
            p = hc.settings_payload(hc.GOOD_SETTINGS + [(0x33, 1), (0x2B603742, 1), (2 ** 40, 2 ** 61)])
            if dgram:
                for cut in range(len(p) + 1):
                    yield {"client": client, "dgram": dgram,
                           "ops": [["s", ctrl, (hc.uvar(0) + hc.frame(4, p[:cut])).hex(), 0], ["s", ctrl, "0d0105", 0]]}
    # MAX_PUSH_ID payloads
    for pl in [b"", hc.uvar(0), hc.uvar(63), hc.uvar(64), hc.uvar(2 ** 62 - 1), hc.uvar(1) + b"\x00", hc.uvar(2 ** 30)[:2],
               hc.uvar(2 ** 40)[:7], hc.uvar(5) + hc.uvar(5), b"\xff" * 9]:
        for client in (False, True):
            ctrl = hc.peer_uni(client, 0)
            yield {"client": client, "dgram": True, "ops": [["s", ctrl, hc.control_prefix().hex(), 0],
                                                           ["s", ctrl, hc.frame(0xd, pl).hex(), 0],
                                                           ["s", ctrl, hc.frame(0xd, hc.uvar(3)).hex(), 0]]}
    # critical stream rules
    for client in (False, True):
        for t in (0, 2, 3):
            a, b = hc.peer_uni(client, 0), hc.peer_uni(client, 1)
            yield {"client": client, "dgram": True, "ops": [["s", a, hc.uvar(t).hex(), 0], ["s", b, hc.uvar(t).hex(), 0]]}
            yield {"client": client, "dgram": True, "ops": [["s", a, hc.uvar(t).hex(), 1]]}
            yield {"client": client, "dgram": True, "ops": [["s", a, hc.uvar(t).hex(), 0], ["s", a, "", 1]]}
            yield {"client": client, "dgram": True, "ops": [["s", a, (hc.uvar(t) + b"\xff\x00\x41\x80").hex(), 0]]}
    for d in ["", "00", "40", "c0000000", "0461", "3f" + "ab" * 5]:
        yield {"client": False, "dgram": True, "ops": [["d", d], ["s", 0, "0100", 0]]}


# ------------------------------------------------------------------------------------------ H0
def h0_impl(case, want_exn=False):
    from aioquic.h0.connection import H0Connection
    from aioquic.h3 import events as E
    q = hc.StubQuic(case["client"])
    h = H0Connection(q)
    out = []
    exn = None
    for op in case["ops"]:
        try:
            evs = h.handle_event(hc.make_event(op))
        except Exception as e:  # noqa
            exn = e
            out += [2, 51 if isinstance(e, ValueError) else 1000]
            break
        if op[0] != "s":
            continue
        out += [0, len(evs)]
        for ev in evs:
            if isinstance(ev, E.DataReceived):
                out += [0, ev.stream_id, int(ev.stream_ended), len(ev.data)] + list(ev.data)
            else:
                if ev.stream_ended or ev.push_id is not None:
                    out += [9999]
                if not ev.headers:
                    out += [1, ev.stream_id, 0]
                else:
                    d = dict(ev.headers)
                    if list(d) != [b":method", b":path"]:
                        out += [9998]
                    m, p = d[b":method"], d[b":path"]
                    out += [1, ev.stream_id, 1, len(m)] + list(m) + [len(p)] + list(p)
    return (out, exn) if want_exn else out


_H0_FIXED = None


def h0_fixed():
    global _H0_FIXED
    if _H0_FIXED is None:
        _, e = h0_impl(H0_PROBE, want_exn=True)
        _H0_FIXED = e is None
    return _H0_FIXED


H0_PROBE = {"client": False, "ops": [["s", 0, b"GET\r\n".hex(), 0]]}
H0_SIG = {"exception": "ValueError", "site": "handle_event"}


def h0_encode(case):
    t = [int(case["client"]), int(h0_fixed())]
    for op in case["ops"]:
        if op[0] == "s":
            d = hc.H(op[2])
            t += [0, op[1], int(op[3]), len(d)] + list(d)
    return t


def h0_oracle(case):
    _, e = h0_impl(case, want_exn=True)
    if e is None:
        return None
    sig = hc.exn_signature(e)
    if sig == H0_SIG and not h0_fixed():
        STATS["known_defect_hits"] += 1
        return None
    return ("%s escapes H0Connection.handle_event" % sig["exception"], sig)


def h0_gen(rng, n):
    toks = [b"GET", b"POST", b" ", b" ", b"/", b"/index.html", b"\r\n", b"\r\n", b"\n", b"\r", b"\t", b"x", b"\x00", b"\xff", b"  "]
    cases = []
    for _ in range(n):
        client = rng.random() < 0.3
        per = {}
        for sid in rng.sample([0, 4, 8, 1, 2, 3], rng.randint(1, 3)):
            data = b"".join(rng.choice(toks) for _ in range(rng.randint(0, 6)))
            per[sid] = hc.split_random(rng, data, rng.random() < 0.7, maxchunks=4)
        ops = hc.interleave(rng, per)
        if rng.random() < 0.1:
            ops.insert(rng.randint(0, len(ops)), ["d", "00"])
        cases.append({"client": client, "ops": ops})
    return cases


def h0_exhaustive():
    import itertools
    alpha = [b"G", b" ", b"/", b"\r\n", b"\n"]
    for k in range(0, 5):
        for seq in itertools.product(alpha, repeat=k):
            data = b"".join(seq)
            for fin in (0, 1):
                yield {"client": False, "ops": [["s", 0, data.hex(), fin]]}
                if len(data) >= 2:
                    yield {"client": False, "ops": [["s", 0, data[:1].hex(), 0], ["s", 0, data[1:].hex(), fin]]}


def h0_suite(ctx):
    return corr.Suite(ctx, "h0", "exec_h0", h0_encode, h0_impl, h0_oracle,
                      ops=lambda c: c["ops"], rebuild=lambda c, ops: dict(c, ops=ops),
                      nontrivial=lambda c, out: len(out) > 3, opname=lambda o: o[0], simplify=hc.simplify_op)


# ------------------------------------------------------------------------------------------ closing datagram
_CERT = None


def _cert():
    global _CERT
    if _CERT is None:
        from cryptography import x509
        from cryptography.x509.oid import NameOID
        from cryptography.hazmat.primitives import hashes
        from cryptography.hazmat.primitives.asymmetric import ec
        key = ec.generate_private_key(ec.SECP256R1())
        name = x509.Name([x509.NameAttribute(NameOID.COMMON_NAME, "localhost")])
        t0 = datetime.datetime(2026, 1, 1)
        cert = (x509.CertificateBuilder().subject_name(name).issuer_name(name).public_key(key.public_key())
                .serial_number(1).not_valid_before(t0).not_valid_after(t0 + datetime.timedelta(days=3650))
                .add_extension(x509.SubjectAlternativeName([x509.DNSName("localhost")]), False).sign(key, hashes.SHA256()))
        _CERT = (cert, key)
    return _CERT


def staged_pair(half_rounds):
    """A real client/server pair stopped after `half_rounds` one-way flights of the handshake (1 = the server has
    the client's Initial only, 2 = the client has the server's first flight, ...): Initial / Handshake keys are
    still active and the handshake is not confirmed."""
    import ssl
    from aioquic.buffer import Buffer
    from aioquic.quic.configuration import QuicConfiguration
    from aioquic.quic.connection import QuicConnection
    from aioquic.quic.packet import pull_quic_header
    cert, key = _cert()
    cc = QuicConfiguration(is_client=True, alpn_protocols=["h3"])
    cc.verify_mode = ssl.CERT_NONE
    sc = QuicConfiguration(is_client=False, alpn_protocols=["h3"])
    sc.certificate, sc.private_key = cert, key
    c = QuicConnection(configuration=cc)
    c.connect(("192.0.2.1", 4433), now=0.0)
    s, now, step = None, 0.0, 0
    while step < half_rounds:
        for data, _a in c.datagrams_to_send(now):
            if s is None:
                hdr = pull_quic_header(Buffer(data=data), host_cid_length=8)
                s = QuicConnection(configuration=sc, original_destination_connection_id=hdr.destination_cid)
            s.receive_datagram(data, ("192.0.2.2", 1234), now)
        step += 1
        if step >= half_rounds:
            break
        for data, _a in s.datagrams_to_send(now):
            c.receive_datagram(data, ("192.0.2.1", 4433), now)
        step += 1
        now += 0.01
    return c, s


def h3_reason(name_len):
    """(code, reason) the H3 layer really passes to close() for a header name of `name_len` bytes with an uppercase
    letter, received on a push stream / request stream."""
    import pylsqpack
    _e, b = pylsqpack.Encoder().encode(0, hc.REQ + [(b"A" * name_len, b"v")])
    r = hc.run_impl({"client": False, "dgram": True, "ops": [["s", 0, hc.frame(1, b).hex(), 1]]})
    return r.quic.closes[0] if r.quic.closes else None


def check_early_close(ctx, long_ok):
    """Close while Initial / Handshake keys are still in use (handshake not confirmed) with the reason phrases the H3
    layer produces: datagrams_to_send must not raise, must produce a closing datagram, none larger than the path MTU.
    Reasons above ~1000 characters are only tried when the oversize-reason defect (C16-fix-5) is absent."""
    st = {"tried": 0, "failures": 0, "stages": {}}
    lens = [0, 40, 300, 600, 900] + ([1200, 3000] if long_ok else [])
    reasons = []
    for n in lens:
        cr = h3_reason(n) if n else (0x10e, "")
        if cr is not None:
            reasons.append((int(cr[0]), cr[1]))
    reported = 0
    for half_rounds in (1, 2, 3):
        for side in (0, 1):
            for code, reason in reasons:
                conn = staged_pair(half_rounds)[side]
                if conn is None or conn._handshake_confirmed:
                    continue
                keys = ",".join(sorted(e.name for e, cp in conn._cryptos.items() if cp.send.is_valid()))
                st["stages"][keys] = st["stages"].get(keys, 0) + 1
                st["tried"] += 1
                bad = None
                try:
                    conn.close(error_code=code, reason_phrase=reason)
                    d = conn.datagrams_to_send(1.0)
                    if not d:
                        bad = ("no closing datagram produced", {"defect": "no-closing-datagram", "stage": "handshake-unconfirmed"})
                    elif max(len(x[0]) for x in d) > 1200:
                        bad = ("closing datagram of %d bytes" % max(len(x[0]) for x in d),
                               {"defect": "closing-datagram-too-large", "stage": "handshake-unconfirmed"})
                except Exception as e:  # noqa
                    bad = ("datagrams_to_send raises %s" % type(e).__name__,
                           {"exception": type(e).__name__, "site": "datagrams_to_send", "stage": "handshake-unconfirmed"})
                if bad:
                    st["failures"] += 1
                    if reported < 2:
                        reported += 1
                        ctx.violation("impl-violation",
                                      "early-close: %s closing before the handshake is confirmed (send keys: %s) with the "
                                      "%d-character reason of the H3 layer: %s"
                                      % ("client" if side == 0 else "server", keys, len(reason), bad[0]),
                                      {"suite": "early-close", "half_rounds": half_rounds, "side": side, "code": code,
                                       "reason": reason}, signature=bad[1])
    return st


def real_pair():
    """A real client/server QuicConnection pair with the handshake completed (in memory, virtual time)."""
    import ssl
    from aioquic.buffer import Buffer
    from aioquic.quic.configuration import QuicConfiguration
    from aioquic.quic.connection import QuicConnection
    from aioquic.quic.packet import pull_quic_header
    cert, key = _cert()
    cc = QuicConfiguration(is_client=True, alpn_protocols=["h3"])
    cc.verify_mode = ssl.CERT_NONE
    sc = QuicConfiguration(is_client=False, alpn_protocols=["h3"])
    sc.certificate, sc.private_key = cert, key
    c = QuicConnection(configuration=cc)
    c.connect(("192.0.2.1", 4433), now=0.0)
    s, now = None, 0.0
    for _ in range(10):
        for data, _a in c.datagrams_to_send(now):
            if s is None:
                hdr = pull_quic_header(Buffer(data=data), host_cid_length=8)
                s = QuicConnection(configuration=sc, original_destination_connection_id=hdr.destination_cid)
            s.receive_datagram(data, ("192.0.2.2", 1234), now)
        for data, _a in s.datagrams_to_send(now):
            c.receive_datagram(data, ("192.0.2.1", 4433), now)
        now += 0.01
    if not (c._handshake_confirmed and s._handshake_complete):
        raise RuntimeError("in-memory handshake did not complete")
    return c, s


CLOSE_SIG = {"exception": "QuicPacketBuilderStop", "site": "datagrams_to_send"}


def close_emittable(code, reason):
    """None if the real transport emits its closing datagram for this (code, reason); else the exception."""
    for side in (0, 1):
        conn = real_pair()[side]
        try:
            conn.close(error_code=code, reason_phrase=reason)
            d = conn.datagrams_to_send(1.0)
            if not d:
                return RuntimeError("no closing datagram produced")
        except Exception as e:  # noqa
            return e
    return None


def oversized_reason():
    """The reason phrase the H3 layer really produces for a request with a 1200-byte invalid header name."""
    import pylsqpack
    _e, b = pylsqpack.Encoder().encode(0, hc.REQ + [(b"A" * 1200, b"v")])
    r = hc.run_impl({"client": False, "dgram": True, "ops": [["s", 0, hc.frame(1, b).hex(), 1]]})
    return r.quic.closes[0] if r.quic.closes else None


def check_close_frames(ctx, limit):
    st = {"probed": 0, "failures": 0, "known_defect": False, "max_reason_len": 0}
    cr = oversized_reason()
    known = False
    if cr is not None:
        st["probed"] += 1
        st["max_reason_len"] = len(cr[1])
        e = close_emittable(int(cr[0]), cr[1])
        if e is not None:
            known = True
            st["known_defect"] = True
            ctx.violation("impl-violation",
                          "close-reason-too-long: after H3Connection closed the connection for a request with a 1200-byte invalid "
                          "header name (reason phrase of %d characters) QuicConnection.datagrams_to_send raises %s"
                          % (len(cr[1]), type(e).__name__),
                          {"suite": "close", "code": int(cr[0]), "reason_len": len(cr[1]),
                           "input": "HEADERS frame on stream 0 with header name b'A'*1200 (server side)"},
                          signature={"exception": type(e).__name__, "site": "datagrams_to_send"})
    items = sorted(STATS["reasons"].values(), key=lambda x: -len(x[1]))[:limit]
    for code, reason in items:
        st["probed"] += 1
        st["max_reason_len"] = max(st["max_reason_len"], len(reason))
        e = close_emittable(code, reason)
        if e is not None:
            if known and type(e).__name__ == "QuicPacketBuilderStop":
                continue
            st["failures"] += 1
            ctx.violation("impl-violation", "closing datagram cannot be emitted for reason %r: %r" % (reason[:80], e),
                          {"suite": "close", "code": code, "reason": reason},
                          signature={"exception": type(e).__name__, "site": "datagrams_to_send"})
    return st


# ------------------------------------------------------------------------------------------ closing round (model tie)
CF_PT = {0: "INITIAL", 2: "HANDSHAKE", 5: "ONE_RTT"}
CF_CRYPTO_MAX = 1500
_CF_CRYPTO = {}


class _StubCrypto:
    """size-only stand-in for CryptoPair when max_datagram_size exceeds the 1500-byte scratch buffers of _crypto.c"""
    aead_tag_size = 16
    key_phase = 0

    def encrypt_packet(self, plain_header, plain_payload, packet_number):
        return bytes(plain_header) + bytes(plain_payload) + bytes(16)


def _cf_crypto(mds):
    if mds > CF_CRYPTO_MAX:
        return _StubCrypto()
    if "real" not in _CF_CRYPTO:
        from aioquic.quic.crypto import CryptoPair
        from aioquic.quic.packet import QuicProtocolVersion
        c = CryptoPair()
        c.setup_initial(bytes(8), is_client=True, version=QuicProtocolVersion.VERSION_1)
        _CF_CRYPTO["real"] = c
    return _CF_CRYPTO["real"]


class _NoLogger:
    """stands for the QuicConnection in the unbound call: only self._quic_logger is read (qlog is off, C20's subject)"""
    _quic_logger = None


def cf_run(case):
    """The closing round of datagrams_to_send on a real QuicPacketBuilder with the real (unbound)
    QuicConnection._write_connection_close_frame.  -> (outcome code, datagram lengths, [(ptype, sent_bytes)], exception)"""
    from aioquic import tls
    from aioquic.buffer import BufferWriteError
    from aioquic.quic.connection import QuicConnection
    from aioquic.quic.packet import QuicPacketType, QuicProtocolVersion
    from aioquic.quic.packet_builder import QuicPacketBuilder, QuicPacketBuilderStop
    c = case["cfg"]
    b = QuicPacketBuilder(host_cid=bytes(c["host"]), peer_cid=bytes(c["peer"]), version=QuicProtocolVersion.VERSION_1,
                          is_client=bool(c["client"]), max_datagram_size=c["mds"], packet_number=c["pn"],
                          peer_token=bytes(c["token"]))
    crypto = _cf_crypto(c["mds"])
    epoch = {0: tls.Epoch.INITIAL, 2: tls.Epoch.HANDSHAKE, 5: tls.Epoch.ONE_RTT}
    try:
        for pt in case["ptypes"]:
            try:
                b.start_packet(QuicPacketType(pt), crypto)
                QuicConnection._write_connection_close_frame(_NoLogger(), builder=b, epoch=epoch[pt], error_code=case["code"],
                                                             frame_type=case["ftype"], reason_phrase=case["reason"])
            except QuicPacketBuilderStop:
                pass
        datagrams, packets = b.flush()
    except Exception as e:  # noqa
        from aioquic.quic.crypto import CryptoError
        code = (2 if isinstance(e, BufferWriteError) else 3 if isinstance(e, AssertionError)
                else 6 if isinstance(e, CryptoError) else 5 if isinstance(e, ValueError) else 9)
        return code, [], [], e
    return 0, [len(d) for d in datagrams], [(p.packet_type.value, p.sent_bytes) for p in packets], None


def cf_impl(case):
    code, d, p, _e = cf_run(case)
    return [code, len(d)] + d + [len(p)] + [x for t in p for x in t]


def cf_encode(case):
    c = case["cfg"]
    t = [int(c["client"]), c["mds"], c["peer"], c["host"], c["token"]]
    t += [0] if c["mds"] > CF_CRYPTO_MAX else [1, CF_CRYPTO_MAX]
    t += [c["pn"], case["code"]]
    t += [0] if case["ftype"] is None else [1, case["ftype"]]
    t += [len(case["ptypes"])] + list(case["ptypes"])
    ws = [len(ch.encode("utf8")) for ch in case["reason"]]
    return t + [len(ws)] + ws


def cf_oracle(case):
    """Property statement on the implementation: the closing round returns normally; when the 1-RTT packet is part of it
    (max_datagram_size >= 1200) a closing datagram is produced, and no datagram exceeds max_datagram_size."""
    code, d, p, e = cf_run(case)
    if e is not None:
        return ("closing round raises %s for a %d-character reason" % (type(e).__name__, len(case["reason"])),
                {"exception": type(e).__name__, "site": "datagrams_to_send"})
    if any(x > case["cfg"]["mds"] for x in d):
        return ("closing datagram larger than max_datagram_size", {"defect": "close-datagram-size"})
    if 5 in case["ptypes"] and not any(t == 5 for t, _s in p):
        return ("no 1-RTT closing packet produced for a %d-character reason" % len(case["reason"]),
                {"defect": "close-not-emitted"})
    return None


CF_CHARS = ["a", "\u00e9", "\u20ac", "\U0001f600"]


def cf_gen(rng, n):
    from aioquic.h3.connection import ErrorCode
    codes = [int(x) for x in ErrorCode] + [0, 63, 64, 16383, 16384, 2 ** 30 - 1, 2 ** 30, 2 ** 62 - 1]
    out = []
    for _ in range(n):
        mds = rng.choice([1200, 1200, 1201, 1252, 1280, 1350, 1452, 1500, 1500, 4096, 9000])
        cfg = {"client": rng.random() < 0.5, "mds": mds, "peer": rng.choice([0, 4, 8, 8, 20]),
               "host": rng.choice([0, 8, 8, 20]), "token": rng.choice([0, 0, 0, 16, 64, 300, 1100, 1170, 1300]),
               "pn": rng.choice([0, 1, 255, 70000])}
        room = mds - 16 - (3 + cfg["peer"])
        ln = rng.choice([0, 1, 30, 63, 64, 200, room - 40, room - 27, room - 26, room - 25, room - 24, room - 18, room - 17,
                         room - 16, room, mds, 3000, 20000]) + rng.choice([0, 0, 0, -1, 1, 2, 3])
        ln = max(0, ln)
        if rng.random() < 0.6:
            reason = "x" * ln
        else:
            k = rng.choice([1, 2, 3])
            reason = "".join(rng.choice(CF_CHARS[:k + 1]) for _ in range(max(0, ln // 2)))
        out.append({"cfg": cfg, "code": rng.choice(codes), "ftype": rng.choice([None, None, None, 0, 6, 28, 16384]),
                    "ptypes": rng.choice([[5], [5], [5], [0, 2, 5], [2, 5], [0, 5], [0], [2], [0, 2]]), "reason": reason})
    return out


def cf_suite(ctx):
    return corr.Suite(ctx, "closeframe", "exec_closeframe", cf_encode, cf_impl, cf_oracle,
                      ops=lambda c: list(c["reason"]), rebuild=lambda c, ops: dict(c, reason="".join(ops)),
                      nontrivial=lambda c, out: len(out) > 3,
                      opname=lambda o: "utf8-%d" % len(o.encode("utf8")))


# ------------------------------------------------------------------------------------------ driver
def run(ctx):
    global _H0_FIXED
    _CACHE.clear()
    _H0_FIXED = None
    STATS.update({"known_defect_hits": 0, "closes": 0, "close_codes": {}, "reasons": {}, "local_sends": 0,
                  "blocked_feed_header": 0, "resumed_streams": 0, "resumed_after_both_directions_ended": 0})
    fixes, present = hc.detect(force=True)
    nprobe = hc.report_probes(ctx, "C16")
    if not h0_fixed():
        nprobe += 1
        ctx.violation("impl-violation", "h0-request-line: HTTP/0.9 request line without a space: ValueError escapes "
                      "H0Connection.handle_event", {"suite": "probe", "probe": "h0-request-line", "case": H0_PROBE},
                      signature=H0_SIG)
    rng = ctx.rng
    s = suite(ctx)
    s.run(corr.load_corpus("C16", s.name), "corpus")
    step = 1 if ctx.thorough else max(1, int(3 / max(ctx.budget_scale, 1e-9)))
    table = list(frame_table(step)) + list(settings_table())
    s.run(table, "table")
    cases = [hc.gen_connection_case(rng, malformed=rng.choice([0.3, 0.6, 0.9]))[0] for _ in range(ctx.n(12000, 150000))]
    s.run(cases, "malformed")
    s.run([hc.gen_blocked_closed_case(rng) for _ in range(ctx.n(1500, 15000))], "blocked-closed")
    h0 = h0_suite(ctx)
    h0.run(corr.load_corpus("C16", h0.name), "corpus")
    h0.run(list(h0_exhaustive()), "exhaustive")
    h0.run(h0_gen(rng, ctx.n(3000, 30000)), "random")
    cf = cf_suite(ctx)
    cf.run(corr.load_corpus("C16", cf.name), "corpus")
    cf.run(cf_gen(rng, ctx.n(2500, 40000)), "random")
    close = check_close_frames(ctx, 12 if not ctx.thorough else 60)
    early = check_early_close(ctx, long_ok=not close["known_defect"])
    cov = corr.merge_coverage(
        [s, h0, cf],
        "table: every frame type x declared length x available payload x FIN after valid prefixes on control / request / "
        "push streams of both roles, all single and duplicate settings, every truncation of a SETTINGS payload, MAX_PUSH_ID "
        "payloads, critical-stream rules; malformed: grammar-generated connections mutated (byte flips, deletions, "
        "truncations, inserted bad frames, garbage QPACK streams) randomly split and interleaved; H0: request lines over a "
        "token alphabet, exhaustive up to 4 tokens; distinct = distinct token encoding",
        {"table_cases": len(table), "close_frames": close, "early_close": early, "known_defect_hits": STATS["known_defect_hits"],
         "closes_seen": STATS["closes"], "close_codes": STATS["close_codes"], "model_fix_flags": fixes,
         "local_sends": STATS["local_sends"], "blocked_feed_header": STATS["blocked_feed_header"],
         "resumed_streams": STATS["resumed_streams"],
         "cases_resumed_with_local_end": STATS["resumed_after_both_directions_ended"],
         "h0_fixed": h0_fixed(), "defects_present": [p["id"] for p in present], "probe_violations": nprobe})
    _CACHE.clear()
    return cov


def replay(ctx, rep):
    case = rep["case"]
    if isinstance(case, dict) and case.get("suite") == "probe":
        c = case["case"]
        if case.get("probe") == "h0-request-line":
            out, e = h0_impl(c, want_exn=True)
            return {"impl_tokens": out, "exception": repr(e)}
        r = hc.run_impl(c)
        return {"impl_tokens": r.out, "exception": repr(r.exn), "signature": hc.exn_signature(r.exn) if r.exn else None}
    if isinstance(case, dict) and case.get("suite") == "early-close":
        conn = staged_pair(case["half_rounds"])[case["side"]]
        try:
            conn.close(error_code=case["code"], reason_phrase=case["reason"])
            d = conn.datagrams_to_send(1.0)
            return {"datagram_sizes": [len(x[0]) for x in d]}
        except Exception as e:  # noqa
            return {"exception": repr(e)}
    if isinstance(case, dict) and case.get("suite") == "close":
        cr = oversized_reason() if "reason" not in case else (case["code"], case["reason"])
        e = close_emittable(int(cr[0]), cr[1])
        return {"reason_len": len(cr[1]), "exception": repr(e)}
    if isinstance(case, dict) and "ptypes" in case:
        cf = cf_suite(ctx)
        d, e, g = cf.disagree(case)
        return {"disagree": d, "impl": e, "model": g, "oracle": cf_oracle(case)}
    if "dgram" in case:
        s = suite(ctx)
        d, e, g = s.disagree(case)
        return {"disagree": d, "impl": e, "model": g, "oracle": total_oracle(case)}
    h0 = h0_suite(ctx)
    d, e, g = h0.disagree(case)
    return {"disagree": d, "impl": e, "model": g, "oracle": h0_oracle(case)}
